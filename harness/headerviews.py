"""Recorder / drivers for C16 (live views of response headers).

A *step* is a JSON-serialisable dict in Python-native form (strings, ints, None); `run_trace`
executes a list of steps on one real `werkzeug.sansio.response.Response` and records one ndjson
line per step for the TLC judge `spec/headerviews/HeaderViewsTrace.tla`.  Nothing is decided here:
the recorder logs arguments, exception class names, header texts and the projections of the
mutated view / the re-read property obtained through the public API.
"""
from __future__ import annotations

import datetime as _dt

from .core import cps

HEADERS = [
    "Vary", "Allow", "Content-Language", "Cache-Control", "Content-Security-Policy",
    "Content-Security-Policy-Report-Only", "Content-Range", "WWW-Authenticate", "Content-Type",
    "Location", "Age", "Content-Length", "Date", "Expires", "Last-Modified", "Retry-After", "ETag",
    "Access-Control-Allow-Credentials", "Access-Control-Allow-Headers", "Access-Control-Allow-Methods",
    "Access-Control-Allow-Origin", "Access-Control-Expose-Headers", "Access-Control-Max-Age",
    "Cross-Origin-Opener-Policy", "Cross-Origin-Embedder-Policy", "Content-Location", "Content-Encoding",
    "Content-MD5", "Accept-Ranges",
]
HIDX = {n.lower(): i + 1 for i, n in enumerate(HEADERS)}

# property -> (view kind, header)
VIEWS = {
    "vary": ("set", "Vary"), "allow": ("set", "Allow"), "content_language": ("set", "Content-Language"),
    "cache_control": ("cc", "Cache-Control"),
    "content_security_policy": ("csp", "Content-Security-Policy"),
    "content_security_policy_report_only": ("csp", "Content-Security-Policy-Report-Only"),
    "content_range": ("cr", "Content-Range"),
    "www_authenticate": ("wa", "WWW-Authenticate"),
    "mimetype_params": ("mtp", "Content-Type"),
    # whole-property only (no view): used with op "assign"
    "mimetype": ("mtp", "Content-Type"), "content_type": ("mtp", "Content-Type"),
}
# property -> (scalar class, header)
SCALARS = {
    "location": ("str", "Location"), "content_location": ("str", "Content-Location"),
    "content_encoding": ("str", "Content-Encoding"), "content_md5": ("str", "Content-MD5"),
    "accept_ranges": ("str", "Accept-Ranges"), "access_control_allow_origin": ("str", "Access-Control-Allow-Origin"),
    "content_length": ("int", "Content-Length"), "access_control_max_age": ("int", "Access-Control-Max-Age"),
    "age": ("age", "Age"),
    "date": ("date", "Date"), "expires": ("date", "Expires"), "last_modified": ("date", "Last-Modified"),
    "retry_after": ("retry", "Retry-After"),
    "etag": ("etag", "ETag"),
    "access_control_allow_credentials": ("acac", "Access-Control-Allow-Credentials"),
    "access_control_allow_headers": ("hset", "Access-Control-Allow-Headers"),
    "access_control_allow_methods": ("hset", "Access-Control-Allow-Methods"),
    "access_control_expose_headers": ("hset", "Access-Control-Expose-Headers"),
    "cross_origin_opener_policy": ("enum", "Cross-Origin-Opener-Policy"),
    "cross_origin_embedder_policy": ("enum", "Cross-Origin-Embedder-Policy"),
}
CC_ATTRS = ["no_store", "max_age", "no_transform", "stale_if_error", "no_cache", "public", "private",
            "must_revalidate", "proxy_revalidate", "s_maxage", "immutable", "must_understand",
            "stale_while_revalidate"]
CSP_ATTRS = ["base_uri", "child_src", "connect_src", "default_src", "font_src", "form_action", "frame_ancestors",
             "frame_src", "img_src", "manifest_src", "media_src", "navigate_to", "object_src", "prefetch_src",
             "plugin_types", "report_to", "report_uri", "sandbox", "script_src", "script_src_attr",
             "script_src_elem", "style_src", "style_src_attr", "style_src_elem", "worker_src"]

EPOCH = _dt.datetime(1970, 1, 1, tzinfo=_dt.timezone.utc)


# ------------------------------------------------------------------ encoders
def opt(s):
    return [] if s is None else [cps(s) if isinstance(s, str) else cps("<" + type(s).__name__ + ">")]


def opti(n):
    return [] if n is None else [int(n)] if isinstance(n, int) and abs(n) < 2**31 else [-(2**31) + 1]


def txt(s):
    return cps(s) if isinstance(s, str) else cps("<" + type(s).__name__ + ">")


def pairs(ps):
    return [{"k": txt(k), "v": opt(v)} for k, v in ps]


def U(tg="none", n=0, m=0, s="", xs=()):
    return {"tg": tg, "n": n, "m": m, "s": txt(s), "xs": [txt(x) for x in xs]}


def enc_w(w):
    """[type, token, [[k, v], ..]] -> record"""
    return {"ty": txt(w[0]), "tok": opt(w[1]), "ps": pairs(w[2])}


def dt_parts(d):
    """aware/naive datetime -> (day number, second of day) of the instant in UTC, microseconds dropped"""
    if d.tzinfo is None:
        d = d.replace(tzinfo=_dt.timezone.utc)
    delta = d - EPOCH
    return delta.days, delta.seconds


class _ZeroTz(_dt.tzinfo):
    """hand-written tzinfo at UTC+0 that is not `timezone.utc`; dst() is None or timedelta(0)"""

    def __init__(self, dst):
        self._dst = dst

    def utcoffset(self, dt):
        return _dt.timedelta(0)

    def dst(self, dt):
        return self._dst

    def tzname(self, dt):
        return "ZERO"


class _SwitchTz(_dt.tzinfo):
    """hand-written DST-switching zone: UTC+0 from October to March, UTC+1 from April to September (local months)"""

    def utcoffset(self, dt):
        return _dt.timedelta(hours=1) if 4 <= dt.month <= 9 else _dt.timedelta(0)

    def dst(self, dt):
        return self.utcoffset(dt)

    def tzname(self, dt):
        return "SW"


def zoneinfo_ok():
    try:
        import zoneinfo

        zoneinfo.ZoneInfo("UTC"), zoneinfo.ZoneInfo("Europe/London")
        return True
    except Exception:
        return False


def _with_tz(d, tzk, tz):
    """the UTC instant `d` as a datetime of the requested time-zone flavour (same instant)"""
    try:
        if tzk is None:
            if tz is None:
                return d.replace(tzinfo=None)  # naive, documented to mean UTC
            return d.astimezone(_dt.timezone(_dt.timedelta(minutes=tz)))
        if tzk == "utcx":
            return d.astimezone(_dt.timezone(_dt.timedelta(0), "X"))
        if tzk == "zero":
            return d.replace(tzinfo=_ZeroTz(None))
        if tzk == "zerodst":
            return d.replace(tzinfo=_ZeroTz(_dt.timedelta(0)))
        if tzk == "switch":
            # generators only use instants in the middle of a month, so the local month decides
            off = _dt.timedelta(hours=1) if 4 <= d.month <= 9 else _dt.timedelta(0)
            return (d + off).replace(tzinfo=_SwitchTz())
        if tzk in ("zi_utc", "zi_london") and zoneinfo_ok():
            import zoneinfo

            return d.astimezone(zoneinfo.ZoneInfo("UTC" if tzk == "zi_utc" else "Europe/London"))
    except OverflowError:  # no representation in that zone at the edge of the datetime range
        pass
    return d


def enc_read(v):
    """value read from a typed attribute / property -> U record"""
    from enum import Enum

    if v is None:
        return U("none")
    if v is True:
        return U("true")
    if v is False:
        return U("false")
    if isinstance(v, int):
        return U("int", v) if abs(v) < 2**31 else U("big")
    if isinstance(v, str):
        return U("str", s=v)
    if isinstance(v, _dt.timedelta):
        n = v.days * 86400 + v.seconds
        return U("td", n) if abs(n) < 2**31 and v.microseconds == 0 else U("tdx")
    if isinstance(v, _dt.datetime):
        if v.tzinfo is None or v.microsecond:
            return U("dtx")
        day, sec = dt_parts(v)
        return U("dt", day, sec)
    if isinstance(v, Enum):
        return U("str", s=v.value)
    if isinstance(v, tuple) and len(v) == 2:  # get_etag
        return U("none") if v[0] is None else U("str", 1 if v[1] else 0, s=v[0])
    try:
        return U("list", xs=list(v))
    except TypeError:
        return U("other")


def dec_tv(tv):
    """step value {"tg":.., ...} (python-native) -> (python value, U record)"""
    tg = tv["tg"]
    if tg == "none":
        return None, U("none")
    if tg == "true":
        return True, U("true")
    if tg == "false":
        return False, U("false")
    if tg == "int":
        return tv["n"], U("int", tv["n"])
    if tg == "float":                      # an integral float (0.0, 1.0): truth value only
        return float(tv["n"]), U("float", tv["n"])
    if tg == "elist":
        return [], U("elist")
    if tg == "str":
        return tv["s"], U("str", tv.get("n", 0), s=tv["s"])
    if tg == "td":
        return _dt.timedelta(seconds=tv["n"], microseconds=tv.get("us", 0)), U("td", tv["n"])
    if tg == "dt" and tv.get("ts"):
        # a POSIX timestamp (http_date documents "datetime or timestamp"); floats carry an exactly representable fraction
        ts = tv["n"] * 86400 + tv["m"]
        return (ts + tv.get("us", 0) / 1e6 if tv["ts"] == "float" else ts), U("dt", tv["n"], tv["m"])
    if tg == "dt":
        d = EPOCH + _dt.timedelta(days=tv["n"], seconds=tv["m"], microseconds=tv.get("us", 0))
        d = _with_tz(d, tv.get("tzk"), tv.get("tz"))
        return d, U("dt", tv["n"], tv["m"])
    if tg == "list":
        return list(tv["xs"]), U("list", xs=tv["xs"])
    raise ValueError(tg)


# ------------------------------------------------------------------ projections (public API reads only)
def project(kind, v):
    if kind == "set":
        return [txt(x) for x in v]
    if kind in ("cc", "csp", "mtp"):
        return pairs(v.items())
    if kind == "wa":
        return {"ty": txt(v.type), "tok": opt(v.token), "ps": pairs(v.parameters.items())}
    if kind == "cr":
        return {"un": opt(v.units), "st": opti(v.start), "sp": opti(v.stop), "ln": opti(v.length)}
    raise ValueError(kind)


def view_text(kind, v):
    if kind == "mtp":
        return []
    try:
        return [txt(v.to_header())]
    except Exception:
        return [cps("<to_header raised>")]


def header_state(resp, name):
    ht = []
    for i, n in enumerate(HEADERS):
        t = resp.headers.get(n)
        if t is not None:
            ht.append({"h": i + 1, "t": txt(t)})
    return ht, len(resp.headers), len(resp.headers.getlist(name))


def _args(step):
    m = step.get("m") or [None, None, None]
    tv = step.get("tv")
    return {
        "x": txt(step.get("x", "")), "y": opt(step.get("y")), "xs": [txt(x) for x in step.get("xs", ())],
        "ps": pairs(list(step.get("ps", ())) + list(step.get("kw", ()))), "n": step.get("n", 0),   # positional part, then **kwargs
        "m1": opti(m[0]), "m2": opti(m[1]), "m3": opti(m[2]), "tag": step.get("tag", ""),
        "tv": dec_tv(tv)[1] if tv else U("none"),
        "w": enc_w(step["w"]) if step.get("w") else enc_w(["", None, []]),
        "ws": [enc_w(w) for w in step.get("ws", ())],
    }


def _mk_wa(w):
    from werkzeug.datastructures import WWWAuthenticate

    return WWWAuthenticate(w[0], dict(w[2]) if w[2] else None, w[1])


# ------------------------------------------------------------------ executing one step
class HarnessError(Exception):
    pass


def _assign_value(step, kind):
    tag = step["tag"]
    if tag == "none":
        return None
    if tag in ("text", "mt"):
        return step["x"]
    if tag == "list" and kind == "set":
        return list(step["xs"])
    if tag == "value" and kind == "csp":
        from werkzeug.datastructures import ContentSecurityPolicy

        return ContentSecurityPolicy([tuple(p) for p in step["ps"]])
    if tag == "value" and kind == "cr":
        from werkzeug.datastructures import ContentRange

        m = step["m"]
        return ContentRange(step.get("y"), m[0], m[1], m[2])
    if tag == "value" and kind == "wa":
        return _mk_wa(step["w"])
    if tag == "list" and kind == "wa":
        return [_mk_wa(w) for w in step["ws"]]
    raise HarnessError(f"bad assign {step}")


SELF_OPS = {"update_self", "ior_self", "item_self", "setitem_self", "set_self", "attr_self", "type_self", "token_self",
            "cc_self", "csp_self", "alias_params", "params_ior", "ior"}


def _alias_op(kind, v, step):
    """mutators / attribute assignments whose argument is (or shares structure with) what the view itself hands out"""
    import operator

    op, x, y = step["op"], step.get("x"), step.get("y")
    if op == "update_self":
        v.update(v)
    elif op == "ior_self":
        operator.ior(v, v)
    elif op == "ior":
        tup = [tuple(p) for p in step.get("ps", ())]
        operator.ior(v, list(step["xs"]) if kind == "set" else tup if step.get("form") == "pairs" else dict(tup))
    elif op == "item_self":
        v[x] = v[x]
    elif op == "setitem_self":
        v[step["n"]] = v[step["n"]]
    elif op == "set_self":
        v.set(v.start, v.stop, v.length, v.units)
    elif op == "attr_self":
        setattr(v, step["tag"], getattr(v, step["tag"]))
    elif op == "type_self":
        v.type = v.type
    elif op == "token_self":
        v.token = v.token
    elif op in ("cc_self", "csp_self"):
        setattr(v, step["tag"], getattr(v, step["tag"]))
    elif op == "alias_params":            # get / (mutate) / assign back the very same dict
        p = v.parameters
        if step.get("tag") == "mut":
            p[x] = y
        v.parameters = p
    elif op == "params_ior":              # w.parameters |= {...}: in-place update, then assignment of the same dict
        v.parameters |= dict(tuple(p) for p in step["ps"])
    else:
        raise HarnessError(op)
    return U("any")


def _view_op(kind, v, step):
    """perform the mutator on the live view; returns the value read back for typed attribute sets"""
    op = step["op"]
    if op in SELF_OPS:
        return _alias_op(kind, v, step)
    x, y = step.get("x"), step.get("y")
    rb = U("any")
    if kind == "set":
        if op == "add":
            v.add(x)
        elif op == "remove":
            v.remove(x)
        elif op == "discard":
            v.discard(x)
        elif op == "clear":
            v.clear()
        elif op == "update":
            form = step.get("form", "")
            xs = list(step["xs"])
            v.update((x for x in xs) if form == "gen" else tuple(xs) if form == "tuple" else iter(xs) if form == "iter" else xs)
        elif op == "setitem":
            v[step["n"]] = x
        elif op == "delitem":
            del v[step["n"]]
        else:
            raise HarnessError(op)
        return rb
    d = v.parameters if (kind == "wa" and op.startswith("p_")) else v
    dop = op[2:] if (kind == "wa" and op.startswith("p_")) else op
    DICT_OPS = ("setitem", "delitem", "pop", "pop1", "clear", "update", "ior", "setdefault", "popitem")
    if (kind in ("cc", "csp", "mtp") and dop in DICT_OPS) or (kind == "wa" and op.startswith("p_")):
        form = step.get("form", "")
        tup = [tuple(p) for p in step.get("ps", ())]
        kw = dict(tuple(p) for p in step.get("kw", ()))
        if dop == "setitem":
            d[x] = y
        elif dop == "delitem":
            del d[x]
        elif dop == "pop":                       # with a default: never raises
            d.pop(x, "dflt") if form == "default" else d.pop(x, None)
        elif dop == "pop1":                      # without a default: KeyError when missing
            d.pop(x)
        elif dop == "clear":
            d.clear()
        elif dop == "update":                    # every call form of dict.update
            if form == "mapping":
                d.update(dict(tup))
            elif form == "kwargs":
                d.update(**kw)
            elif form == "mapping+kwargs":
                d.update(dict(tup), **kw)
            elif form == "pairs+kwargs":
                d.update(tup, **kw)
            elif form == "none":
                d.update()
            elif form == "gen":
                d.update((k, v) for k, v in tup)
            else:
                d.update(tup)
        elif dop == "ior":                       # |= mapping / |= iterable of pairs (in place, no re-assignment)
            import operator

            operator.ior(d, tup if form == "pairs" else dict(tup))
        elif dop == "setdefault":
            d.setdefault(x) if form == "nodefault" else d.setdefault(x, y)
        elif dop == "popitem":
            d.popitem()
        else:
            raise HarnessError(f"unknown dict op {dop}")
        return rb
    if kind == "cc":
        if op == "cc_set":
            try:
                setattr(v, step["tag"], dec_tv(step["tv"])[0])
            finally:
                rb = enc_read(getattr(v, step["tag"]))
            return rb
        if op == "cc_del":
            delattr(v, step["tag"])
            return enc_read(getattr(v, step["tag"]))
    if kind == "csp":
        if op == "csp_set":
            setattr(v, step["tag"], y)
            return enc_read(getattr(v, step["tag"]))
        if op == "csp_del":
            delattr(v, step["tag"])
            return enc_read(getattr(v, step["tag"]))
    if kind == "cr":
        m = step.get("m") or [None, None, None]
        if op == "set":
            v.set(m[0], m[1], m[2], y)
        elif op == "unset":
            v.unset()
        elif op == "set_units":
            v.units = y
        elif op == "set_start":
            v.start = m[0]
        elif op == "set_stop":
            v.stop = m[0]
        elif op == "set_length":
            v.length = m[0]
        else:
            raise HarnessError(op)
        return rb
    if kind == "wa":
        if op == "set_type":
            v.type = x
        elif op == "set_token":
            v.token = y
        elif op == "set_params":
            v.parameters = dict(tuple(p) for p in step["ps"])
        elif op == "setitem":
            v[x] = y
        elif op == "delitem":
            del v[x]
        elif op == "setattr":
            setattr(v, x, y)
        elif op == "delattr":
            delattr(v, x)
        else:
            raise HarnessError(op)
        return rb
    raise HarnessError(f"unknown op {kind}/{op}")


def run_trace(steps, t=0, exps=None):
    """Execute the steps on one fresh Response; returns the list of judge lines."""
    from werkzeug.sansio.response import Response

    resp = Response()
    views = {}
    ht, nh, _ = header_state(resp, "Vary")
    filler = {"a": _args({}), "exc": "", "vt": [], "vp": [], "rp": [], "rb": U("any"), "hasexp": False, "exp": []}
    lines = [dict(filler, t=t, i=0, op="init", k="", h=0, vw=0, ht=ht, nh=nh, nhh=0, nhb=0, ht2=ht, nh2=nh)]
    for i, step in enumerate(steps, 1):
        op = step["op"]
        ln = dict(filler, t=t, i=i, op=op, vw=step.get("vw", 0), a=_args(step))
        if exps is not None and exps[i - 1] is not None:
            ln["hasexp"], ln["exp"] = True, opt(exps[i - 1][0])
        exc = ""
        if op in ("sc_assign", "sc_del"):
            prop = step["prop"]
            cls, name = SCALARS[prop]
            kind = cls
            nhb = len(resp.headers.getlist(name))
            try:
                if op == "sc_del":
                    if prop == "retry_after":
                        resp.retry_after = None
                    elif prop == "access_control_allow_credentials":
                        resp.access_control_allow_credentials = False
                    elif prop == "etag":
                        del resp.headers["ETag"]
                    else:
                        delattr(resp, prop)
                elif prop == "etag":
                    resp.set_etag(step["tv"]["s"], bool(step["tv"].get("n", 0)))
                else:
                    val = dec_tv(step["tv"])[0]
                    if cls == "enum":
                        from werkzeug.http import COEP, COOP

                        val = (COOP if prop.endswith("opener_policy") else COEP)(val)
                    setattr(resp, prop, val)
            except Exception as e:  # recorded, judged by the spec
                exc = type(e).__name__
            try:
                ln["rb"] = enc_read(resp.get_etag() if prop == "etag" else getattr(resp, prop))
            except Exception as e:
                ln["rb"] = U("raised:" + type(e).__name__)
        else:
            if op in ("get_view", "assign", "del_prop", "direct_edit"):
                prop = step["prop"]
                kind, name = VIEWS[prop]
                vobj = None
            else:
                prop, kind, name, vobj = views[step["vw"]]
            nhb = len(resp.headers.getlist(name))
            try:
                if op == "get_view":
                    vobj = getattr(resp, prop)
                    views[step["vw"]] = (prop, kind, name, vobj)
                elif op == "direct_edit":
                    if step.get("y") is None:
                        del resp.headers[name]
                    else:
                        resp.headers[name] = step["y"]
                elif op == "del_prop":
                    delattr(resp, prop)
                elif op == "assign" and step["tag"] in ("alias", "alias_list"):
                    # the assigned object is what a view slot holds (a view read earlier, a kept object, ...)
                    sprop, skind, sname, sobj = views[step["n"]]
                    vobj = sobj
                    setattr(resp, prop, sobj if step["tag"] == "alias" else [sobj])
                elif op == "assign":
                    val = _assign_value(step, kind)
                    if step.get("via") == "other":
                        # the object comes from the same property of ANOTHER response (a view bound over there)
                        other = Response()
                        setattr(other, prop, val)
                        val = getattr(other, prop)
                        if step["tag"] == "list" and kind == "wa":
                            val = [val]          # a list item stays bound to the other response
                    if step.get("vw") and step.get("via") == "other":
                        vobj = val[0] if isinstance(val, list) else val
                        views[step["vw"]] = (prop, kind, name, vobj)
                    elif step.get("vw"):
                        # the caller keeps a reference to the assigned object(s) and may mutate it later
                        tag = step["tag"]
                        if tag == "value" and kind in ("wa", "csp", "cr"):
                            vobj = val
                        elif tag == "list" and kind == "set":
                            from werkzeug.datastructures import HeaderSet

                            vobj = val = HeaderSet(val)
                        elif tag == "list" and kind == "wa" and val:
                            vobj = val[0]
                            if step.get("n") and len(val) > 1:
                                views[step["n"]] = (prop, kind, name, val[1])
                        if vobj is not None:
                            views[step["vw"]] = (prop, kind, name, vobj)
                    setattr(resp, prop, val)
                else:
                    ln["rb"] = _view_op(kind, vobj, step)
            except HarnessError:
                raise
            except Exception as e:
                exc = type(e).__name__
            if vobj is not None:
                try:
                    ln["vp"] = project(kind, vobj)
                    ln["vt"] = view_text(kind, vobj)
                except Exception:
                    ln["vp"], ln["vt"] = [], [cps("<projection raised>")]
            ln["ht"], ln["nh"], ln["nhh"] = header_state(resp, name)
            rprop = "mimetype_params" if prop in ("mimetype", "content_type") else prop
            try:
                ln["rp"] = project(kind, getattr(resp, rprop))
            except Exception:
                ln["rp"] = [cps("<reread raised>")]
        ln["k"], ln["h"], ln["exc"] = kind, HIDX[name.lower()], exc
        if "ht" not in ln:
            ln["ht"], ln["nh"], ln["nhh"] = header_state(resp, name)
        ln["ht2"], ln["nh2"], _ = header_state(resp, name)  # after re-reading the property
        ln["nhb"] = nhb
        lines.append(ln)
    return lines


# ------------------------------------------------------------------ step generators
SET_ITEMS = ["Cookie", "cookie", "COOKIE", "Accept", "x y", "a,b", "Accept-Language", 'q"t', "*"]
CC_KEYS = ["max-age", "no-cache", "x-ext", "private", "public"]
CC_VALS = [None, "3", "", "0", "x y", "a,b", 'q"t', "abc"]
TVS = [{"tg": "none"}, {"tg": "true"}, {"tg": "false"}, {"tg": "int", "n": 0}, {"tg": "str", "s": ""},
       {"tg": "int", "n": 3600}, {"tg": "str", "s": "0"}, {"tg": "int", "n": 7}, {"tg": "str", "s": "12"},
       {"tg": "str", "s": "abc"}, {"tg": "str", "s": "x y"}, {"tg": "str", "s": "007"},
       {"tg": "float", "n": 0}, {"tg": "elist"}, {"tg": "int", "n": 1}, {"tg": "float", "n": 1}]
CSP_VALS = ["'self'", "", "'self' https://a.example", "*", "'none'", "https://cdn.example/x y"]
WA_TYPES = ["basic", "digest", "bearer", "negotiate", "x-custom"]
WA_KEYS = ["realm", "nonce", "qop", "charset", "error", "scope"]
WA_VALS = ["x", "", "a b", "auth,auth-int", 'q"t', "UTF-8", "0"]
WA_TOKENS = ["abc123", "YWJj", "a.b-c_d~e+f/g", ""]
MTP_KEYS = ["charset", "boundary", "q", "format"]
MTP_VALS = ["utf-8", "", "a b", "x;y", "flowed", "0"]
MIMETYPES = ["text/html", "application/json", "image/svg+xml", "text/plain", "application/octet-stream"]
UNITS = ["bytes", "items", None]


def alias_ops(kind, small=False):
    """mutators / attribute assignments fed with what the view itself hands out (see _alias_op)"""
    if kind == "set":
        out = [{"op": "update_self"}, {"op": "ior", "xs": ["X-A"]}, {"op": "ior", "xs": ["cookie", "Origin"]},
               {"op": "setitem_self", "n": 0}, {"op": "setitem_self", "n": -1}, {"op": "setitem_self", "n": 5}]
    elif kind == "cc":
        tags = ["max_age", "no_cache", "public"] if small else CC_ATTRS
        out = [{"op": "update_self"}, {"op": "ior_self"}, {"op": "ior", "ps": [["max-age", "0"], ["public", None]]},
               {"op": "item_self", "x": "max-age"}, {"op": "item_self", "x": "no-cache"}, {"op": "item_self", "x": "x-missing"}]
        out += [{"op": "cc_self", "tag": g} for g in tags]
    elif kind == "csp":
        tags = ["default_src", "sandbox"] if small else CSP_ATTRS[:8]
        out = [{"op": "update_self"}, {"op": "ior_self"}, {"op": "ior", "ps": [["img-src", "*"]]},
               {"op": "item_self", "x": "default-src"}, {"op": "item_self", "x": "x-missing"}]
        out += [{"op": "csp_self", "tag": g} for g in tags]
    elif kind == "mtp":
        out = [{"op": "update_self"}, {"op": "ior_self"}, {"op": "ior", "ps": [["q", "1"]]}, {"op": "item_self", "x": "charset"},
               {"op": "item_self", "x": "missing"}]
    elif kind == "cr":
        out = [{"op": "set_self"}] + [{"op": "attr_self", "tag": g} for g in ("units", "start", "stop", "length")]
    elif kind == "wa":
        out = [{"op": "alias_params"}, {"op": "alias_params", "tag": "mut", "x": "k", "y": "v"},
               {"op": "alias_params", "tag": "mut", "x": "realm", "y": ""}, {"op": "params_ior", "ps": [["a", "b"]]},
               {"op": "params_ior", "ps": [["realm", "z"], ["stale", "TRUE"]]}, {"op": "params_ior", "ps": []},
               {"op": "type_self"}, {"op": "token_self"}]
    else:
        out = []
    return out


# a populated header per family and mutations of a view read from it that do NOT change the view's value
NOOP_SEED = {"set": "Cookie, Accept", "cc": "max-age=3, no-cache, public", "csp": "default-src 'self'; img-src *",
             "mtp": "text/html; charset=utf-8", "cr": "bytes 0-9/100", "wa": 'Basic realm="x"'}


def noop_ops(kind, empty=False):
    """same-value mutations of a view holding NOOP_SEED[kind] (empty=True: of a view read while the header was absent)"""
    if kind == "set":
        if empty:
            return [{"op": "clear"}, {"op": "update", "xs": []}, {"op": "update_self"}, {"op": "discard", "x": "Cookie"}]
        return [{"op": "add", "x": "cookie"}, {"op": "add", "x": "Accept"}, {"op": "update", "xs": ["Cookie"]}, {"op": "update", "xs": []},
                {"op": "update_self"}, {"op": "ior", "xs": []}, {"op": "setitem_self", "n": 0}, {"op": "setitem_self", "n": -1},
                {"op": "setitem", "n": 0, "x": "Cookie"}, {"op": "discard", "x": "X-Absent"}]
    if kind == "cc":
        if empty:
            return [{"op": "clear"}, {"op": "update", "ps": [], "form": "none"}, {"op": "ior", "ps": [], "form": "pairs"},
                    {"op": "cc_set", "tag": "max_age", "tv": {"tg": "none"}}, {"op": "cc_set", "tag": "public", "tv": {"tg": "false"}}]
        return [{"op": "cc_self", "tag": "max_age"}, {"op": "cc_self", "tag": "no_cache"}, {"op": "cc_self", "tag": "public"},
                {"op": "cc_set", "tag": "max_age", "tv": {"tg": "int", "n": 3}}, {"op": "cc_set", "tag": "max_age", "tv": {"tg": "str", "s": "3"}},
                {"op": "cc_set", "tag": "no_cache", "tv": {"tg": "true"}}, {"op": "cc_set", "tag": "public", "tv": {"tg": "true"}},
                {"op": "cc_set", "tag": "public", "tv": {"tg": "int", "n": 1}},
                {"op": "item_self", "x": "max-age"}, {"op": "setitem", "x": "max-age", "y": "3"}, {"op": "setitem", "x": "public", "y": None},
                {"op": "update", "ps": [], "form": "none"}, {"op": "update", "ps": [], "form": "mapping"}, {"op": "update", "ps": [["max-age", "3"]]},
                {"op": "ior", "ps": [], "form": "mapping"}, {"op": "update_self"}, {"op": "ior_self"},
                {"op": "cc_set", "tag": "private", "tv": {"tg": "none"}}, {"op": "setdefault", "x": "max-age", "y": "9"}]
    if kind == "csp":
        if empty:
            return [{"op": "clear"}, {"op": "update", "ps": [], "form": "none"}, {"op": "csp_set", "tag": "default_src", "y": None}]
        return [{"op": "csp_self", "tag": "default_src"}, {"op": "csp_self", "tag": "img_src"}, {"op": "csp_set", "tag": "default_src", "y": "'self'"},
                {"op": "item_self", "x": "img-src"}, {"op": "setitem", "x": "img-src", "y": "*"}, {"op": "update", "ps": [], "form": "none"},
                {"op": "update", "ps": [["default-src", "'self'"]], "form": "mapping"}, {"op": "ior", "ps": [], "form": "mapping"},
                {"op": "update_self"}, {"op": "ior_self"}, {"op": "csp_set", "tag": "sandbox", "y": None}]
    if kind == "mtp":
        return [{"op": "item_self", "x": "charset"}, {"op": "setitem", "x": "charset", "y": "utf-8"}, {"op": "update", "ps": [], "form": "none"},
                {"op": "update", "ps": [["charset", "utf-8"]], "form": "mapping"}, {"op": "ior", "ps": [], "form": "pairs"},
                {"op": "update_self"}, {"op": "ior_self"}, {"op": "setdefault", "x": "charset", "y": "z"}]
    if kind == "cr":
        if empty:
            return [{"op": "unset"}, {"op": "set_units", "y": None}, {"op": "attr_self", "tag": "units"}, {"op": "attr_self", "tag": "length"},
                    {"op": "set_self"}, {"op": "set_length", "m": [None, None, None]}]
        return [{"op": "attr_self", "tag": g} for g in ("units", "start", "stop", "length")] + [
            {"op": "set_self"}, {"op": "set", "m": [0, 10, 100], "y": "bytes"}, {"op": "set_units", "y": "bytes"},
            {"op": "set_start", "m": [0, None, None]}, {"op": "set_stop", "m": [10, None, None]}, {"op": "set_length", "m": [100, None, None]}]
    if kind == "wa":
        return [{"op": "type_self"}, {"op": "token_self"}, {"op": "set_type", "x": "basic"}, {"op": "set_token", "y": None},
                {"op": "alias_params"}, {"op": "params_ior", "ps": []}, {"op": "set_params", "ps": [["realm", "x"]]},
                {"op": "setitem", "x": "realm", "y": "x"}, {"op": "setattr", "x": "realm", "y": "x"}, {"op": "setitem", "x": "nonce", "y": None},
                {"op": "p_setitem", "x": "realm", "y": "x"}, {"op": "p_update", "ps": [], "form": "none"}, {"op": "p_ior", "ps": [], "form": "mapping"},
                {"op": "p_update", "kw": [["realm", "x"]], "form": "kwargs"}, {"op": "delitem", "x": "nonce"}, {"op": "p_setdefault", "x": "realm", "y": "q"}]
    return []


def behind_edits(prop):
    """ways the header changes behind a held view (slot 1): direct assignment / deletion of the header, whole-property
    assignment, mutation through a second view (slot 2)"""
    kind, _ = VIEWS[prop]
    alt = {"set": "Origin", "cc": "no-store", "csp": "sandbox allow-forms", "mtp": "application/json; q=1", "cr": "bytes 5-9/*",
           "wa": "Bearer abc123"}[kind]
    out = [[{"op": "direct_edit", "prop": prop, "y": alt}], [{"op": "direct_edit", "prop": prop, "y": None}]]
    for o in prop_ops(prop):
        if o["op"] in ("assign", "del_prop") and not o.get("vw") and o.get("tag") in (None, "none", "text", "list", "value", "mt"):
            if o.get("tag") == "text" and o.get("x") == "":
                continue
            out.append([o])
    second = {"set": {"op": "add", "x": "X-Second"}, "cc": {"op": "cc_set", "tag": "s_maxage", "tv": {"tg": "int", "n": 0}},
              "csp": {"op": "csp_set", "tag": "script_src", "y": "'none'"}, "mtp": {"op": "setitem", "x": "boundary", "y": "b"},
              "cr": {"op": "set", "m": [1, 2, 3], "y": "bytes"}, "wa": {"op": "setitem", "x": "nonce", "y": "n"}}[kind]
    g2 = {"op": "get_view", "prop": prop, "vw": 2}
    out.append([g2, dict(second, vw=2)])
    out.append([g2, dict({"op": "clear"} if kind in ("set", "cc", "csp") else second, vw=2), dict(second, vw=2)])
    return out


def call_form_ops(kind):
    """every call form Python allows for the mutators of the dict-like / set-like views (same abstract operation,
    different argument shape): update(mapping | pairs | generator | **kwargs | mapping, **kwargs | nothing), |= mapping /
    pairs, setdefault(k) / (k, v), pop(k) / pop(k, default), HeaderSet.update(list | tuple | generator | iterator)"""
    if kind == "set":
        out = [{"op": "update", "xs": xs, "form": f} for f in ("gen", "tuple", "iter")
               for xs in (["Accept", "cookie"], ["X-A", "x-a", "Cookie"], [])]
        out += [{"op": "setitem", "n": -2, "x": "Origin"}, {"op": "delitem", "n": -2}, {"op": "setitem", "n": -1, "x": "X-Last"}]
        return out
    uni = {"cc": ("max-age", "5", "public", None, "immutable", None, "no-cache"),
           "csp": ("img-src", "*", "sandbox", "allow-scripts", "default-src", "'none'", "default-src"),
           "mtp": ("q", "1", "charset", "latin-1", "format", "flowed", "charset"),
           "wa": ("nonce", "n2", "realm", "k", "stale", "TRUE", "realm")}.get(kind)
    if uni is None:
        return []
    k1, v1, k2, v2, k3, v3, kp = uni
    pre = "p_" if kind == "wa" else ""
    # **kwargs keys must be identifiers: only such keys are used there
    ident = [(k, v) for k, v in ((k2, v2), (k3, v3)) if k.isidentifier()]
    out = [{"op": pre + "update", "ps": [[k1, v1]], "form": "mapping"},
           {"op": pre + "update", "ps": [[k1, v1], [k2, v2]], "form": "gen"},
           {"op": pre + "update", "ps": [], "form": "none"},
           {"op": pre + "update", "ps": [], "form": "mapping"},
           {"op": pre + "ior", "ps": [[k1, v1], [k3, v3]], "form": "mapping"},
           {"op": pre + "ior", "ps": [[k2, v2]], "form": "pairs"},
           {"op": pre + "ior", "ps": [], "form": "pairs"}]
    if ident:
        out += [{"op": pre + "update", "kw": [list(p) for p in ident], "form": "kwargs"},
                {"op": pre + "update", "kw": [list(ident[0])], "form": "kwargs"},
                {"op": pre + "update", "ps": [[k1, v1]], "kw": [list(ident[-1])], "form": "mapping+kwargs"},
                {"op": pre + "update", "ps": [[k1, v1]], "kw": [list(ident[0])], "form": "pairs+kwargs"}]
    for k in (kp, "x-absent"):
        out += [{"op": pre + "pop1", "x": k}, {"op": pre + "pop", "x": k, "form": "default"},
                {"op": pre + "setdefault", "x": k, "form": "nodefault"}, {"op": pre + "setdefault", "x": k, "y": "dv"},
                {"op": pre + "delitem", "x": k}]
    return out


def ops_for(kind, rng=None, small=False):
    """The op alphabet of a view kind over a small argument universe (without "vw")."""
    out = alias_ops(kind, small) + call_form_ops(kind)
    if kind == "set":
        items = SET_ITEMS[:4] if small else SET_ITEMS
        for x in items:
            out += [{"op": "add", "x": x}, {"op": "remove", "x": x}, {"op": "discard", "x": x}]
        out += [{"op": "clear"}, {"op": "update", "xs": ["Accept", "cookie"]}, {"op": "update", "xs": ["X-A", "x-a", "Cookie"]},
                {"op": "update", "xs": []}]
        for n in (0, -1, 1, 5):
            out += [{"op": "delitem", "n": n}, {"op": "setitem", "n": n, "x": "Origin"}]
    elif kind == "cc":
        attrs = (CC_ATTRS[:5] + ["s_maxage"]) if small else CC_ATTRS
        tvs = TVS[:7] if small else TVS
        for a in attrs:
            out += [{"op": "cc_set", "tag": a, "tv": tv} for tv in tvs]
            out.append({"op": "cc_del", "tag": a})
        for k in CC_KEYS[:3 if small else 5]:
            out += [{"op": "setitem", "x": k, "y": y} for y in CC_VALS[:4 if small else 8]]
            out += [{"op": "delitem", "x": k}, {"op": "pop", "x": k}, {"op": "setdefault", "x": k, "y": "5"}]
        out += [{"op": "clear"}, {"op": "popitem"}, {"op": "update", "ps": [["max-age", "1"], ["public", None]]},
                {"op": "update", "ps": []}]
    elif kind == "csp":
        attrs = CSP_ATTRS[:4] if small else CSP_ATTRS
        for a in attrs:
            out += [{"op": "csp_set", "tag": a, "y": y} for y in (CSP_VALS[:2] if small else CSP_VALS)]
            out += [{"op": "csp_set", "tag": a, "y": None}, {"op": "csp_del", "tag": a}]
        for k in ("default-src", "x-new"):
            out += [{"op": "setitem", "x": k, "y": "'self'"}, {"op": "delitem", "x": k}, {"op": "pop", "x": k},
                    {"op": "setdefault", "x": k, "y": "*"}]
        out += [{"op": "clear"}, {"op": "popitem"}, {"op": "update", "ps": [["img-src", "*"], ["default-src", "'none'"]]}]
    elif kind == "mtp":
        for k in MTP_KEYS[:2 if small else 4]:
            out += [{"op": "setitem", "x": k, "y": y} for y in (MTP_VALS[:2] if small else MTP_VALS)]
            out += [{"op": "delitem", "x": k}, {"op": "pop", "x": k}, {"op": "setdefault", "x": k, "y": "z"}]
        out += [{"op": "clear"}, {"op": "popitem"}, {"op": "update", "ps": [["charset", "latin-1"], ["q", "1"]]}]
    elif kind == "cr":
        for m in ([0, 10, 100], [0, 10, None], [None, None, 50], [None, None, None], [5, 5, 10], [10, 5, None],
                  [0, 1, 1], [90, 100, 100], [0, 200, 100], [3, None, None], [None, None, 0], [0, 1, None], [0, 0, 0],
                  [0, 1, 0]):
            for u in (["bytes"] if small else ["bytes", "items"]):
                out.append({"op": "set", "m": m, "y": u})
        out += [{"op": "unset"}]
        out += [{"op": "set_units", "y": u} for u in UNITS]
        out += [{"op": "set_start", "m": [v, None, None]} for v in (0, 3, 50)]
        out += [{"op": "set_start", "m": [None, None, None]}]
        out += [{"op": "set_stop", "m": [v, None, None]} for v in (4, 60, 1000, 1, 0, None)]
        out += [{"op": "set_length", "m": [v, None, None]} for v in (None, 100, 2000, 0, 1)]
    elif kind == "wa":
        out += [{"op": "set_type", "x": x} for x in (WA_TYPES[:3] if small else WA_TYPES)]
        out += [{"op": "set_token", "y": y} for y in ([None, "abc123", ""] if small else [None] + WA_TOKENS)]
        out += [{"op": "set_params", "ps": [["realm", "r1"]]}, {"op": "set_params", "ps": []},
                {"op": "set_params", "ps": [["realm", "a b"], ["nonce", "n1"], ["qop", "auth"]]}]
        for k in WA_KEYS[:2 if small else 6]:
            for y in (WA_VALS[:2] if small else WA_VALS) + [None]:
                out += [{"op": "setitem", "x": k, "y": y}, {"op": "setattr", "x": k, "y": y}]
            out += [{"op": "delitem", "x": k}, {"op": "delattr", "x": k}, {"op": "p_setitem", "x": k, "y": "v1"},
                    {"op": "p_delitem", "x": k}, {"op": "p_pop", "x": k}, {"op": "p_setdefault", "x": k, "y": "d"}]
        out += [{"op": "p_clear"}, {"op": "p_popitem"}, {"op": "p_update", "ps": [["realm", "u"], ["stale", "TRUE"]]}]
    return out


def prop_ops(prop, small=False):
    """whole-property assignments / deletions / direct header edits for a view property"""
    kind, name = VIEWS[prop]
    out = [{"op": "direct_edit", "prop": prop, "y": None}]
    if kind == "set":
        out += [{"op": "direct_edit", "prop": prop, "y": y} for y in ("Cookie, Accept", "cookie", '"x y", Accept', " Cookie ,accept")]
        out += [{"op": "assign", "prop": prop, "tag": "none"}, {"op": "assign", "prop": prop, "tag": "text", "x": "Accept, Cookie"},
                {"op": "assign", "prop": prop, "tag": "text", "x": ""},
                {"op": "assign", "prop": prop, "tag": "list", "xs": ["Cookie", "x y"]}, {"op": "assign", "prop": prop, "tag": "list", "xs": []},
                {"op": "assign", "prop": prop, "tag": "list", "xs": ["Cookie", "Accept"], "vw": 2}]  # HeaderSet object, reference kept
    elif kind == "cc":
        out += [{"op": "direct_edit", "prop": prop, "y": y} for y in ("max-age=3, no-cache", "max-age=0, s-maxage=0, no-cache=\"\"", "private=\"a,b\", public", "no-store", "MAX-AGE = 5")]
    elif kind == "csp":
        out += [{"op": "direct_edit", "prop": prop, "y": y} for y in ("default-src 'self'; img-src *", "sandbox", "script-src 'self' https://a.example")]
        out += [{"op": "assign", "prop": prop, "tag": "none"}, {"op": "assign", "prop": prop, "tag": "text", "x": "default-src 'none'"},
                {"op": "assign", "prop": prop, "tag": "value", "ps": [["default-src", "'self'"], ["img-src", "*"]]},
                {"op": "assign", "prop": prop, "tag": "value", "ps": []},
                {"op": "assign", "prop": prop, "tag": "value", "ps": [["sandbox", ""], ["default-src", "'self'"]]},
                {"op": "assign", "prop": prop, "tag": "value", "ps": [["default-src", "'self'"], ["img-src", "*"]], "vw": 2}]
    elif kind == "cr":
        out += [{"op": "direct_edit", "prop": prop, "y": y} for y in ("bytes 0-9/100", "bytes */0", "bytes 0-0/1", "bytes */50", "bytes 5-9/*", "bytes 0-0/*", "garbage")]
        out += [{"op": "assign", "prop": prop, "tag": "none"}, {"op": "assign", "prop": prop, "tag": "text", "x": "bytes 1-2/3"},
                {"op": "assign", "prop": prop, "tag": "value", "m": [0, 5, 20], "y": "bytes"},
                {"op": "assign", "prop": prop, "tag": "value", "m": [None, None, 7], "y": "items"},
                {"op": "assign", "prop": prop, "tag": "value", "m": [None, None, None], "y": None},
                {"op": "assign", "prop": prop, "tag": "value", "m": [None, None, 0], "y": "bytes"},
                {"op": "assign", "prop": prop, "tag": "value", "m": [0, 1, 1], "y": "bytes"},
                {"op": "assign", "prop": prop, "tag": "value", "m": [0, 1, None], "y": "items"},
                {"op": "assign", "prop": prop, "tag": "text", "x": "bytes */0"},
                {"op": "assign", "prop": prop, "tag": "value", "m": [0, 5, 20], "y": "bytes", "vw": 2}]
    elif kind == "wa":
        out += [{"op": "direct_edit", "prop": prop, "y": y} for y in ('Basic realm="x"', 'Basic realm=""', "Bearer abc123", 'Digest realm="a b", nonce="n", qop="auth"', "Negotiate")]
        out += [{"op": "assign", "prop": prop, "tag": "none"}, {"op": "del_prop", "prop": prop},
                {"op": "assign", "prop": prop, "tag": "list", "ws": []},
                {"op": "assign", "prop": prop, "tag": "list", "ws": [["basic", None, [["realm", "x"]]], ["bearer", "tok1", []]]},
                {"op": "assign", "prop": prop, "tag": "list", "ws": [["basic", None, [["realm", "x"]]], ["bearer", "tok1", []]], "vw": 2, "n": 1},
                {"op": "assign", "prop": prop, "tag": "list", "ws": [["digest", None, [["realm", "r"], ["nonce", "n"]]]], "vw": 1},
                {"op": "assign", "prop": prop, "tag": "value", "w": ["digest", None, [["realm", "r"], ["nonce", "n"], ["algorithm", "MD5"]]], "vw": 2},
                {"op": "assign", "prop": prop, "tag": "value", "w": ["bearer", "t0k", []], "vw": 1},
                {"op": "assign", "prop": prop, "tag": "value", "w": ["bearer", "", []], "vw": 2},
                {"op": "assign", "prop": prop, "tag": "value", "w": ["basic", None, [["realm", ""]]], "vw": 1},
                {"op": "assign", "prop": prop, "tag": "value", "w": ["basic", None, [["realm", "a b"]]], "vw": 1}]
    elif kind == "mtp":
        out = [{"op": "direct_edit", "prop": prop, "y": y} for y in ("text/html; charset=utf-8", 'text/html; charset=""', "application/json", 'multipart/mixed; boundary="a b"; q=1')]
        out += [{"op": "assign", "prop": "mimetype", "tag": "mt", "x": x} for x in (MIMETYPES[:2] if small else MIMETYPES)]
        out += [{"op": "assign", "prop": "content_type", "tag": "text", "x": "text/css; charset=ascii"}]
    return out


DAYS = [0, 1, 58, 59, 60, 365, 789, 11015, 11016, 11017, 11323, 11382, 19358, 20000, 20454, 24836, 24837, 47540, 47541, 2932896]


def scalar_steps(prop, rng):
    cls, _ = SCALARS[prop]
    out = [{"op": "sc_del", "prop": prop}]
    if cls == "str":
        vals = {"location": ["/a b", "https://example.com/x?y=1", "http://h/é"], "content_md5": ["Q2hlY2sgSW50ZWdyaXR5IQ=="],
                "accept_ranges": ["bytes", "none"], "access_control_allow_origin": ["*", "https://a.example"]}.get(prop, ["gzip", "/x, y"])
        vals = vals + ["", "0"]
        out += [{"op": "sc_assign", "prop": prop, "tv": {"tg": "str", "s": v}} for v in vals]
    elif cls == "int":
        out += [{"op": "sc_assign", "prop": prop, "tv": {"tg": "int", "n": n}} for n in (0, 1, 4096, 2**31 - 1, rng.randrange(10**6))]
    elif cls == "age":
        out += [{"op": "sc_assign", "prop": prop, "tv": {"tg": "int", "n": n}} for n in (0, 5, -1, 86400 * 400, rng.randrange(10**6))]
        out += [{"op": "sc_assign", "prop": prop, "tv": {"tg": "td", "n": n, "us": us}} for n, us in ((0, 0), (0, 999999), (59, 999999), (90061, 1), (rng.randrange(10**7), rng.randrange(10**6)))]
    elif cls in ("date", "retry"):
        def dt(day, sec, us=0, tz=None, tzk=None):
            return {"op": "sc_assign", "prop": prop, "tv": {"tg": "dt", "n": day, "m": sec, "us": us, "tz": tz, "tzk": tzk}}

        for day in DAYS + [rng.randrange(0, 60000) for _ in range(3)]:
            sec = rng.choice([0, 1, 59, 60, 3599, 3600, 43200, 86399, rng.randrange(86400)])
            out.append(dt(day, sec, rng.choice([0, 1, 500000, 999999]), rng.choice([None, 0, 60, -300, 330, 765])))
        # aware values at offset zero whose tzinfo is not `timezone.utc`; a DST-switching zone in winter (+0) and summer (+1)
        winter, summer = _dt.date(rng.randrange(1971, 2100), 1, 15).toordinal() - 719163, _dt.date(rng.randrange(1971, 2100), 7, 15).toordinal() - 719163
        kinds = ["utcx", "zero", "zerodst", "switch"] + (["zi_utc", "zi_london"] if zoneinfo_ok() else [])
        for tzk in kinds:
            for day in (winter, summer):
                out.append(dt(day, rng.randrange(86400), rng.choice([0, 1, 999999]), tzk=tzk))
        if cls == "date":   # POSIX timestamps, int and float (whole seconds: the fraction is dropped)
            for day, sec, us, ts in ((0, 0, 0, "int"), (0, 1337, 0, "int"), (19358, 86399, 500000, "float"), (20000, 1, 250000, "float"),
                                     (rng.randrange(60000), rng.randrange(86400), 750000, "float"), (rng.randrange(60000), rng.randrange(86400), 0, "int")):
                out.append({"op": "sc_assign", "prop": prop, "tv": {"tg": "dt", "n": day, "m": sec, "us": us, "ts": ts}})
        # the edges of the datetime range, with offsets that keep the local value representable
        out += [dt(-719162, 0, 0, 0), dt(-719162, 18000, 999999, -300), dt(-719162, 1, 1, tzk="zero"), dt(-683003, 0, 5, 60),
                dt(2932896, 86399, 999999, 0), dt(2932896, 86399 - 19800, 0, 330), dt(2932896, 43200, 1, tzk="zerodst"),
                dt(2932896, 86399, 0, None)]
        if cls == "retry":
            out += [{"op": "sc_assign", "prop": prop, "tv": {"tg": "int", "n": n}} for n in (0, 120, 86400)]
    elif cls == "etag":
        out += [{"op": "sc_assign", "prop": prop, "tv": {"tg": "str", "s": s, "n": w}} for s in ("abc", "a b", "", "0", "W/x") for w in (0, 1)]
    elif cls == "acac":
        out += [{"op": "sc_assign", "prop": prop, "tv": {"tg": tg}} for tg in ("true", "false", "none")]
    elif cls == "hset":
        out += [{"op": "sc_assign", "prop": prop, "tv": {"tg": "list", "xs": xs}} for xs in (["GET"], ["X-A", "Content-Type"], ["x y", "b"], ["0"])]
    elif cls == "enum":
        vals = ["unsafe-none", "same-origin-allow-popups", "same-origin"] if prop.endswith("opener_policy") else ["unsafe-none", "require-corp"]
        out += [{"op": "sc_assign", "prop": prop, "tv": {"tg": "str", "s": v}} for v in vals]
    return out


VIEW_PROPS = ["vary", "allow", "content_language", "cache_control", "content_security_policy",
              "content_security_policy_report_only", "content_range", "www_authenticate", "mimetype_params"]


def step_key(step):
    """violation key component for a step"""
    return step["op"] + (":" + step["tag"] if step.get("tag") else "") + ("/" + step["form"] if step.get("form") else "")
