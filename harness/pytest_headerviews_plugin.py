"""pytest plugin (loaded with `-p harness.pytest_headerviews_plugin`) that records what the repository's own
tests do with the live views of response headers (C16).

One *session* per `Response` object (sansio or wrappers; created lazily at the first recorded access) and one
per view object a test constructs itself (HeaderSet, cache-control, ContentSecurityPolicy, ContentRange,
WWWAuthenticate: "adopted" as an object that is not a view of any header).  Recorded steps, in the vocabulary
of harness/headerviews.py: reading a view property (`get_view`), every view mutator (HeaderSet / callback-dict
methods, typed cache-control / CSP attributes, ContentRange.set/unset/attributes, WWWAuthenticate attribute,
item and parameter access), whole-property assignment / deletion, scalar typed properties (`sc_assign`,
`sc_del`) and -- lazily, before the next step -- direct edits of `response.headers` (`sync`).  After every
step the same observables as the recorder of harness/headerviews.py are taken: header texts, the view's
serialisation and projection, the re-read property, the value read back.

Nothing in /repo is modified: classes are wrapped in the test process only, exceptions and return values
pass through unchanged.  A step whose values are outside the trace vocabulary closes the session (counted by
reason); no verdict is taken here -- spec/headerviews/HeaderViewsTrace.tla judges the dumped sessions."""
from __future__ import annotations

import datetime as _dt
import json
import os
import threading

from harness import headerviews as hv

_tl = threading.local()
_sessions: list = []
_skipped: dict = {}
_by_resp: dict = {}      # id(response) -> Session
_by_obj: dict = {}       # id(view object or parameters dict) -> (Session, slot, prefix, owner)
MAX_LINES = 300
STANDALONE_HEADER = {"set": "Vary", "cc": "Cache-Control", "csp": "Content-Security-Policy", "cr": "Content-Range",
                     "wa": "WWW-Authenticate"}


class Unrep(Exception):
    """outside the trace vocabulary; args[0] = reason"""


def _busy():
    return getattr(_tl, "busy", 0) > 0


class _Busy:
    def __enter__(self):
        _tl.busy = getattr(_tl, "busy", 0) + 1

    def __exit__(self, *a):
        _tl.busy -= 1


def _skip(reason):
    _skipped[reason] = _skipped.get(reason, 0) + 1


# ---------------------------------------------------------------------- vocabulary
def _text(v, what, empty_ok=True):
    if type(v) is not str:
        raise Unrep(f"{what}: not a str")
    if not all(32 <= ord(c) <= 126 for c in v):
        raise Unrep(f"{what}: outside printable ASCII")
    if not v and not empty_ok:
        raise Unrep(f"{what}: empty")
    return v


def _opt_text(v, what):
    return None if v is None else _text(v, what)


def _int(v, what):
    if v is None:
        return None
    if type(v) is not int or abs(v) >= 2**31:
        raise Unrep(f"{what}: not a small int")
    return v


def _pairs(arg, kw, what, none_ok):
    out = []
    if arg is not None:
        if isinstance(arg, dict):
            it = list(arg.items())
        elif type(arg) in (list, tuple):
            it = list(arg)
        else:
            raise Unrep(f"{what}: argument that is neither a mapping nor a list")
        for p in it:
            if type(p) not in (tuple, list) or len(p) != 2:
                raise Unrep(f"{what}: element that is not a pair")
            out.append([p[0], p[1]])
    out += [[k, v] for k, v in (kw or {}).items()]
    for k, v in out:
        _text(k, what + " key", empty_ok=False)
        if v is None and not none_ok:
            raise Unrep(f"{what}: None value")
        _opt_text(v, what + " value")
    return out


def _tv(cls, prop, value):
    from enum import Enum

    if cls == "str":
        return {"tg": "str", "s": _text(value, "scalar str")}
    if cls == "int":
        if type(value) is not int:
            raise Unrep("int property assigned another type")
        return {"tg": "int", "n": _int(value, "scalar int")}
    if cls == "age":
        if type(value) is int:
            return {"tg": "int", "n": _int(value, "age")}
        if type(value) is _dt.timedelta and value >= _dt.timedelta(0) and value.days < 20000:
            return {"tg": "td", "n": value.days * 86400 + value.seconds, "us": value.microseconds}
        raise Unrep("age assigned another type")
    if cls in ("date", "retry"):
        if type(value) is _dt.datetime:
            day, sec = hv.dt_parts(value)
            return {"tg": "dt", "n": day, "m": sec}
        if cls == "retry" and type(value) is int:
            return {"tg": "int", "n": _int(value, "retry_after")}
        if cls == "date" and type(value) in (int, float) and 0 <= value < 86400 * 2932896:
            # http_date documents "datetime or timestamp": a POSIX timestamp names the instant, whole seconds
            import math

            day, sec = divmod(math.floor(value), 86400)
            return {"tg": "dt", "n": day, "m": sec}
        raise Unrep("date property assigned something that is not a datetime")
    if cls == "acac":
        return {"tg": "true" if value is True else "false"}
    if cls == "hset":
        if type(value) not in (list, tuple):
            raise Unrep("set-valued scalar assigned something that is not a list")
        return {"tg": "list", "xs": [_text(x, "set item", empty_ok=False) for x in value]}
    if cls == "enum":
        if not isinstance(value, Enum) or type(value.value) is not str:
            raise Unrep("enum property assigned a non-member")
        return {"tg": "str", "s": value.value}
    raise Unrep("scalar class " + cls)


# ---------------------------------------------------------------------- sessions
class Session:
    def __init__(self, resp=None, kind=None):
        self.resp, self.kind = resp, kind
        self.test = os.environ.get("PYTEST_CURRENT_TEST", "")[:200]
        self.closed = ""
        self.slots: dict = {}         # slot -> object (strong reference: ids stay unique)
        self.nslot = 0
        self.judged = 0
        ht, nh = self.headers()
        self.last = (ht, nh)
        filler = self._filler()
        self.lines = [dict(filler, i=0, op="init", k="", h=0, vw=0, ht=ht, nh=nh, nhh=0, nhb=0, ht2=ht, nh2=nh)]
        self.what = ["init"]
        _sessions.append(self)

    @staticmethod
    def _filler():
        return {"a": hv._args({}), "exc": "", "vt": [], "vp": [], "rp": [], "rb": hv.U("any"), "hasexp": False, "exp": []}

    def headers(self):
        if self.resp is None:
            return [], 0
        ht, nh, _ = hv.header_state(self.resp, "Vary")
        return ht, nh

    def nlines(self, name):
        return 0 if self.resp is None else len(self.resp.headers.getlist(name))

    def close(self, reason):
        if not self.closed:
            self.closed = reason
            _skip("truncated: " + reason)

    def ok(self):
        if self.closed:
            return False
        if len(self.lines) >= MAX_LINES:
            self.close("session longer than %d lines" % MAX_LINES)
            return False
        return True

    def alloc(self, obj):
        for s, o in self.slots.items():
            if o is obj:
                return s
        self.nslot = self.nslot % 8 + 1
        old = self.slots.get(self.nslot)
        if old is not None:
            _unregister(old)
        self.slots[self.nslot] = obj
        return self.nslot

    def sync(self):
        """a direct edit of response.headers since the last recorded line"""
        cur = self.headers()
        if cur != self.last:
            ht, nh = cur
            self.lines.append(dict(self._filler(), i=len(self.lines), op="sync", k="", h=0, vw=0, ht=ht, nh=nh, nhh=0, nhb=0,
                                   ht2=ht, nh2=nh))
            self.what.append("sync")
            self.last = cur

    def emit(self, step, kind, name, vobj=None, exc="", rb=None, nhb=0, rprop=None):
        """one judge line for a step that was just performed (same fields as headerviews.run_trace)"""
        if step["op"] in ("get_view", "assign") and step.get("vw"):      # remember which property a slot came from
            _SLOT_PROP[(id(self), step["vw"])] = step["prop"]
            if step.get("n"):
                _SLOT_PROP[(id(self), step["n"])] = step["prop"]
        with _Busy():
            ln = dict(self._filler(), i=len(self.lines), op=step["op"], vw=step.get("vw", 0), a=hv._args(step))
            if rb is not None:
                ln["rb"] = rb
            if vobj is not None:
                try:
                    ln["vp"] = hv.project(kind, vobj)
                    ln["vt"] = hv.view_text(kind, vobj)
                except Exception:
                    ln["vp"], ln["vt"] = [], [hv.cps("<projection raised>")]
            if self.resp is None:
                ln["ht"], ln["nh"], ln["nhh"] = [], 0, 0
            else:
                ln["ht"], ln["nh"], ln["nhh"] = hv.header_state(self.resp, name)
                if rprop is not None:
                    try:
                        ln["rp"] = hv.project(kind, _ORIG[rprop].__get__(self.resp, type(self.resp)))
                    except Exception:
                        ln["rp"] = [hv.cps("<reread raised>")]
            ln["k"], ln["h"], ln["exc"], ln["nhb"] = kind, hv.HIDX[name.lower()], exc, nhb
            if self.resp is None:
                ln["ht2"], ln["nh2"] = [], 0
            else:
                ln["ht2"], ln["nh2"], _ = hv.header_state(self.resp, name)
            self.last = (ln["ht2"], ln["nh2"])
            self.lines.append(ln)
            self.what.append(f"{step.get('prop', '')}.{hv.step_key(step)}")
            if step["op"] not in ("adopt",):
                self.judged += 1


def _unregister(obj):
    _by_obj.pop(id(obj), None)
    p = getattr(obj, "_parameters", None)
    if p is not None:
        _by_obj.pop(id(p), None)


def _register(sess, slot, obj, kind):
    _by_obj[id(obj)] = (sess, slot, "", obj, kind)
    if kind == "wa":
        _by_obj[id(obj._parameters)] = (sess, slot, "p_", obj, kind)


def _entry(obj):
    if _busy():
        return None
    e = _by_obj.get(id(obj))
    if e is None:
        return None
    sess, slot, pfx, owner, kind = e
    if (owner is not obj and pfx == "") or not sess.ok():
        return None
    if pfx == "p_" and owner._parameters is not obj:
        return None
    return e


def _session_for(resp):
    s = _by_resp.get(id(resp))
    if s is None or s.resp is not resp:
        with _Busy():
            try:
                s = Session(resp)
            except Exception:
                _skip("response without usable headers")
                return None
        _by_resp[id(resp)] = s
    return s if s.ok() else None


def _cr_readable(resp):
    """reading content_range while the header does not parse rewrites the header: do not re-read then"""
    from werkzeug.http import parse_content_range_header

    t = resp.headers.get("Content-Range")
    return t is None or parse_content_range_header(t) is not None


# ---------------------------------------------------------------------- wrapped Response properties
_ORIG: dict = {}


class _ViewProp:
    def __init__(self, prop, orig):
        self.prop, self.orig = prop, orig
        self.kind, self.name = hv.VIEWS[prop]
        self.__doc__ = getattr(orig, "__doc__", None)

    def __get__(self, inst, owner=None):
        if inst is None:
            return self.orig.__get__(None, owner)
        if _busy() or self.prop in ("mimetype", "content_type"):
            return self.orig.__get__(inst, owner)
        s = _session_for(inst)
        if s is None or (self.kind == "cr" and not _cr_readable(inst)):
            return self.orig.__get__(inst, owner)
        s.sync()
        nhb = s.nlines(self.name)
        with _Busy():
            v = self.orig.__get__(inst, owner)
        slot = s.alloc(v)
        _register(s, slot, v, self.kind)
        s.emit({"op": "get_view", "prop": self.prop, "vw": slot}, self.kind, self.name, vobj=v, nhb=nhb, rprop=self.prop)
        return v

    def _assign_step(self, s, value):
        kind, prop = self.kind, self.prop
        step = {"op": "assign", "prop": prop}
        keep = None
        if prop == "mimetype":
            from werkzeug.utils import _charset_mimetypes

            if _text(value, "mimetype", empty_ok=False) in _charset_mimetypes:
                raise Unrep("mimetype from the special charset list")
            return dict(step, tag="mt", x=value), None
        if prop == "content_type":
            return dict(step, tag="text", x=_text(value, "content_type", empty_ok=False)), None
        if value is None:
            return dict(step, tag="none"), None
        if type(value) is str:
            return dict(step, tag="text", x=_text(value, "assigned text")), None
        tn = type(value).__name__
        e = _by_obj.get(id(value))
        if e is not None and e[0] is s and e[2] == "" and e[3] is value and e[4] == kind:
            # the assigned object is one this session already follows (a view read earlier, a kept object):
            # the assignment takes its value; the slot stays what it is (www_authenticate rebinds it)
            return dict(step, tag="alias", n=e[1]), None
        if kind == "set":
            if tn == "HeaderSet":
                if value.on_update is not None:
                    raise Unrep("assigned object already has a callback")
                keep = value
            elif type(value) not in (list, tuple):
                raise Unrep("set property assigned another type")
            step.update(tag="list", xs=[_text(x, "set item") for x in value])
        elif kind == "csp" and tn == "ContentSecurityPolicy":
            if value.on_update is not None:
                raise Unrep("assigned object already has a callback")
            keep = value
            step.update(tag="value", ps=_pairs(dict(value), None, "csp", False))
        elif kind == "cr" and tn == "ContentRange":
            if value.on_update is not None:
                raise Unrep("assigned object already has a callback")
            keep = value
            step.update(tag="value", m=[_int(value.start, "start"), _int(value.stop, "stop"), _int(value.length, "length")],
                        y=_opt_text(value.units, "units"))
        elif kind == "wa" and tn == "WWWAuthenticate":
            keep = value
            step.update(tag="value", w=_wa(value))
        elif kind == "wa" and type(value) is list and all(type(x).__name__ == "WWWAuthenticate" for x in value):
            if any(x._on_update is not None for x in value):
                raise Unrep("assigned list item already bound")
            step.update(tag="list", ws=[_wa(x) for x in value])
            keep = list(value[:2])
        else:
            raise Unrep("property assigned another type")
        return step, keep

    def __set__(self, inst, value):
        if _busy():
            return self.orig.__set__(inst, value)
        s = _session_for(inst)
        if s is None:
            return self.orig.__set__(inst, value)
        try:
            step, keep = self._assign_step(s, value)
        except Unrep as e:
            s.close(e.args[0])
            return self.orig.__set__(inst, value)
        s.sync()
        nhb = s.nlines(self.name)
        vobj = None
        if keep is not None:
            objs = keep if type(keep) is list else [keep]
            for o in objs:
                _unregister(o)
            slots = [s.alloc(o) for o in objs]
            step["vw"] = slots[0]
            if len(slots) > 1:
                step["n"] = slots[1]
            vobj = objs[0] if objs else None
        exc = ""
        try:
            with _Busy():
                self.orig.__set__(inst, value)
        except Exception as e:
            exc = type(e).__name__
            raise
        finally:
            if keep is not None:
                for o, sl in zip(objs, slots):
                    _register(s, sl, o, self.kind)
            rprop = "mimetype_params" if self.prop in ("mimetype", "content_type") else self.prop
            if self.kind == "cr" and not _cr_readable(inst):
                s.close("unparseable Content-Range")
            else:
                s.emit(step, self.kind, self.name, vobj=vobj, exc=exc, nhb=nhb, rprop=rprop)

    def __delete__(self, inst):
        if _busy():
            return self.orig.__delete__(inst)
        s = _session_for(inst)
        if s is None or self.prop in ("mimetype", "content_type"):
            if s is not None:
                s.close("del of content type")
            return self.orig.__delete__(inst)
        s.sync()
        nhb = s.nlines(self.name)
        exc = ""
        try:
            with _Busy():
                self.orig.__delete__(inst)
        except Exception as e:
            exc = type(e).__name__
            raise
        finally:
            s.emit({"op": "del_prop", "prop": self.prop}, self.kind, self.name, exc=exc, nhb=nhb, rprop=self.prop)


def _wa(w):
    return [_text(w.type, "auth type"), _opt_text(w.token, "token"), _pairs(dict(w.parameters), None, "auth parameter", True)]


class _ScalarProp:
    def __init__(self, prop, orig):
        self.prop, self.orig = prop, orig
        self.cls, self.name = hv.SCALARS[prop]
        self.__doc__ = getattr(orig, "__doc__", None)

    def __get__(self, inst, owner=None):
        return self.orig.__get__(inst, owner)

    def _do(self, inst, step, call):
        s = _session_for(inst)
        if s is None:
            return call()
        s.sync()
        nhb = s.nlines(self.name)
        exc = ""
        try:
            with _Busy():
                return call()
        except Exception as e:
            exc = type(e).__name__
            raise
        finally:
            with _Busy():
                try:
                    rb = hv.enc_read(self.orig.__get__(inst, type(inst)))
                except Exception as e:
                    rb = hv.U("raised:" + type(e).__name__)
            s.emit(step, self.cls, self.name, exc=exc, rb=rb, nhb=nhb)

    def __set__(self, inst, value):
        if _busy():
            return self.orig.__set__(inst, value)
        if self.prop == "retry_after" and value is None:
            return self._do(inst, {"op": "sc_del", "prop": self.prop}, lambda: self.orig.__set__(inst, value))
        try:
            tv = _tv(self.cls, self.prop, value)
        except Unrep as e:
            s = _session_for(inst)
            if s is not None:
                s.close(e.args[0])
            return self.orig.__set__(inst, value)
        return self._do(inst, {"op": "sc_assign", "prop": self.prop, "tv": tv}, lambda: self.orig.__set__(inst, value))

    def __delete__(self, inst):
        if _busy():
            return self.orig.__delete__(inst)
        return self._do(inst, {"op": "sc_del", "prop": self.prop}, lambda: self.orig.__delete__(inst))


# ---------------------------------------------------------------------- wrapped view mutators
def _wrap(cls, mname, conv, kinds):
    orig = cls.__dict__[mname]

    def wrapper(self, *a, **k):
        e = _entry(self)
        if e is None or e[4] not in kinds:
            return orig(self, *a, **k)
        sess, slot, pfx, owner, kind = e
        try:
            step = conv(self, kind, a, k)
        except Unrep as u:
            sess.close(u.args[0])
            return orig(self, *a, **k)
        except Exception:
            sess.close("unexpected call signature")
            return orig(self, *a, **k)
        name = STANDALONE_HEADER[kind] if sess.resp is None else _header_of(sess, slot, kind)
        sess.sync()
        nhb = sess.nlines(name)
        exc, rb = "", None
        try:
            with _Busy():
                return orig(self, *a, **k)
        except Exception as ex:
            exc = type(ex).__name__
            raise
        finally:
            if kind == "wa":
                _register(sess, slot, owner, "wa")      # w.parameters may be a new dict now
            if step["op"] in ("cc_set", "cc_del", "csp_set", "csp_del") and not exc:
                with _Busy():
                    try:
                        rb = hv.enc_read(getattr(owner, step["tag"]))
                    except Exception as ex2:
                        rb = hv.U("raised:" + type(ex2).__name__)
            rprop = None if sess.resp is None else _prop_of(sess, slot, kind)
            if kind == "cr" and sess.resp is not None and not _cr_readable(sess.resp):
                sess.close("unparseable Content-Range")
            else:
                sess.emit(dict(step, op=pfx + step["op"], vw=slot), kind, name, vobj=owner, exc=exc, rb=rb, nhb=nhb, rprop=rprop)

    wrapper.__name__ = mname
    wrapper.__doc__ = getattr(orig, "__doc__", None)
    wrapper.__wrapped__ = orig
    setattr(cls, mname, wrapper)


_SLOT_PROP: dict = {}   # (id(session), slot) -> property name


def _prop_of(sess, slot, kind):
    return _SLOT_PROP.get((id(sess), slot))


def _header_of(sess, slot, kind):
    p = _prop_of(sess, slot, kind)
    return hv.VIEWS[p][1] if p else STANDALONE_HEADER[kind]


def _c_set(op):
    def conv(self, kind, a, k):
        if op == "clear":
            return {"op": "clear"}
        if op == "update":
            (it,) = a
            if type(it).__name__ == "HeaderSet":
                it = list(it)
            if type(it) not in (list, tuple) and not (type(it) in (set, frozenset) and len(it) <= 1):
                raise Unrep("HeaderSet.update with an iterator / unordered argument")
            return {"op": "update", "xs": [_text(x, "set item") for x in it]}
        if op in ("setitem", "delitem"):
            if type(a[0]) is not int:
                raise Unrep("HeaderSet index that is not an int")
            return {"op": op, "n": a[0], "x": _text(a[1], "set item")} if op == "setitem" else {"op": op, "n": a[0]}
        (x,) = a
        return {"op": op, "x": _text(x, "set item")}

    return conv


_MISSING = object()


def _c_dict(op):
    def conv(self, kind, a, k):
        none_ok = kind in ("cc", "wa")
        if op in ("clear", "popitem"):
            return {"op": op}
        if op == "update":
            arg = a[0] if a else None
            return {"op": "update", "ps": _pairs(arg, k, "dict update", none_ok)}
        key = _text(a[0], "dict key", empty_ok=False)
        if op == "setitem":
            if a[1] is None and not none_ok:
                raise Unrep("None dict value")
            return {"op": "setitem", "x": key, "y": _opt_text(a[1], "dict value")}
        if op == "delitem":
            return {"op": "delitem", "x": key}
        if op == "pop":
            has_default = len(a) > 1 or "default" in k
            return {"op": "pop" if has_default else "delitem", "x": key}
        if op == "setdefault":
            d = a[1] if len(a) > 1 else k.get("default")
            if d is None and not none_ok:
                raise Unrep("None dict value")
            return {"op": "setdefault", "x": key, "y": _opt_text(d, "dict value")}
        raise Unrep("dict op " + op)

    return conv


_CC_TAG = {a.replace("_", "-"): a for a in hv.CC_ATTRS}
_CSP_TAG = {a.replace("_", "-"): a for a in hv.CSP_ATTRS}


def _c_cc_set(self, kind, a, k):
    key, value = a[0], a[1]
    if key not in _CC_TAG:
        raise Unrep("cache-control directive outside the documented set")
    if value is None:
        tv = {"tg": "none"}
    elif value is True or value is False:
        tv = {"tg": "true" if value else "false"}
    elif type(value) is int:
        tv = {"tg": "int", "n": _int(value, "directive value")}
    else:
        tv = {"tg": "str", "s": _text(value, "directive value")}
    return {"op": "cc_set", "tag": _CC_TAG[key], "tv": tv}


def _c_cc_del(self, kind, a, k):
    if a[0] not in _CC_TAG:
        raise Unrep("cache-control directive outside the documented set")
    return {"op": "cc_del", "tag": _CC_TAG[a[0]]}


def _c_csp_set(self, kind, a, k):
    if a[0] not in _CSP_TAG:
        raise Unrep("CSP directive outside the documented set")
    return {"op": "csp_set", "tag": _CSP_TAG[a[0]], "y": _opt_text(a[1], "CSP value")}


def _c_csp_del(self, kind, a, k):
    if a[0] not in _CSP_TAG:
        raise Unrep("CSP directive outside the documented set")
    return {"op": "csp_del", "tag": _CSP_TAG[a[0]]}


def _c_cr_set(self, kind, a, k):
    names = ["start", "stop", "length", "units"]
    v = dict(zip(names, a))
    v.update(k)
    return {"op": "set", "m": [_int(v.get("start"), "start"), _int(v.get("stop"), "stop"), _int(v.get("length"), "length")],
            "y": _opt_text(v.get("units", "bytes"), "units")}


def _c_cr_unset(self, kind, a, k):
    return {"op": "unset"}


def _c_wa_setattr(self, kind, a, k):
    name, value = a
    if name == "type":
        return {"op": "set_type", "x": _text(value, "auth type", empty_ok=False)}
    if name == "token":
        return {"op": "set_token", "y": _opt_text(value, "token")}
    if name == "parameters":
        return {"op": "set_params", "ps": _pairs(dict(value), None, "auth parameter", True)}
    return {"op": "setattr", "x": _text(name, "attribute", empty_ok=False), "y": _opt_text(value, "auth parameter")}


def _c_wa_item(op):
    def conv(self, kind, a, k):
        if op in ("setitem",):
            return {"op": op, "x": _text(a[0], "auth key", empty_ok=False), "y": _opt_text(a[1], "auth parameter")}
        return {"op": op, "x": _text(a[0], "auth key", empty_ok=False)}

    return conv


def _install():
    from werkzeug.datastructures import ContentRange, ContentSecurityPolicy, HeaderSet, WWWAuthenticate
    from werkzeug.datastructures.cache_control import _CacheControl
    from werkzeug.datastructures.mixins import ImmutableDictMixin, UpdateDictMixin
    from werkzeug.datastructures.range import _CallbackProperty
    from werkzeug.sansio.response import Response

    # Response properties
    for prop in list(hv.VIEWS):
        orig = Response.__dict__[prop]
        _ORIG[prop] = orig
        setattr(Response, prop, _ViewProp(prop, orig))
    for prop in hv.SCALARS:
        if prop == "etag":
            continue
        orig = Response.__dict__[prop]
        _ORIG[prop] = orig
        setattr(Response, prop, _ScalarProp(prop, orig))
    orig_set_etag = Response.set_etag

    def set_etag(self, etag, weak=False):
        if _busy():
            return orig_set_etag(self, etag, weak)
        s = _session_for(self)
        try:
            tv = {"tg": "str", "s": _text(etag, "etag"), "n": 1 if weak else 0}
        except Unrep as e:
            if s is not None:
                s.close(e.args[0])
            return orig_set_etag(self, etag, weak)
        if s is None:
            return orig_set_etag(self, etag, weak)
        s.sync()
        nhb = s.nlines("ETag")
        exc = ""
        try:
            with _Busy():
                return orig_set_etag(self, etag, weak)
        except Exception as e:
            exc = type(e).__name__
            raise
        finally:
            with _Busy():
                rb = hv.enc_read(self.get_etag())
            s.emit({"op": "sc_assign", "prop": "etag", "tv": tv}, "etag", "ETag", exc=exc, rb=rb, nhb=nhb)

    Response.set_etag = set_etag

    # view mutators
    for m, op in (("add", "add"), ("remove", "remove"), ("discard", "discard"), ("clear", "clear"), ("update", "update"),
                  ("__setitem__", "setitem"), ("__delitem__", "delitem")):
        _wrap(HeaderSet, m, _c_set(op), {"set"})
    dict_kinds = {"cc", "csp", "mtp", "wa"}
    for m, op in (("__setitem__", "setitem"), ("__delitem__", "delitem"), ("pop", "pop"), ("clear", "clear"),
                  ("update", "update"), ("setdefault", "setdefault"), ("popitem", "popitem"), ("__ior__", "update")):
        _wrap(UpdateDictMixin, m, _c_dict(op), dict_kinds)
    _wrap(_CacheControl, "_set_cache_value", _c_cc_set, {"cc"})
    _wrap(_CacheControl, "_del_cache_value", _c_cc_del, {"cc"})
    _wrap(ContentSecurityPolicy, "_set_value", _c_csp_set, {"csp"})
    _wrap(ContentSecurityPolicy, "_del_value", _c_csp_del, {"csp"})
    _wrap(ContentRange, "set", _c_cr_set, {"cr"})
    _wrap(ContentRange, "unset", _c_cr_unset, {"cr"})
    orig_cb_set = _CallbackProperty.__set__

    def cb_set(self, instance, value):
        e = _entry(instance)
        if e is None:
            return orig_cb_set(self, instance, value)
        sess, slot, pfx, owner, kind = e
        attr = self.attr
        try:
            if attr == "_units":
                step = {"op": "set_units", "y": _opt_text(value, "units")}
            else:
                step = {"op": {"_start": "set_start", "_stop": "set_stop", "_length": "set_length"}[attr],
                        "m": [_int(value, attr), None, None]}
        except (Unrep, KeyError) as u:
            sess.close(str(u.args[0]))
            return orig_cb_set(self, instance, value)
        name = _header_of(sess, slot, kind)
        sess.sync()
        nhb = sess.nlines(name)
        exc = ""
        try:
            with _Busy():
                return orig_cb_set(self, instance, value)
        except Exception as ex:
            exc = type(ex).__name__
            raise
        finally:
            if sess.resp is not None and not _cr_readable(sess.resp):
                sess.close("unparseable Content-Range")
            else:
                sess.emit(dict(step, vw=slot), kind, name, vobj=instance, exc=exc, nhb=nhb,
                          rprop=None if sess.resp is None else _prop_of(sess, slot, kind))

    _CallbackProperty.__set__ = cb_set

    orig_wa_setattr = WWWAuthenticate.__dict__["__setattr__"]
    _wrap(WWWAuthenticate, "__setattr__", _c_wa_setattr, {"wa"})
    wa_setattr_rec = WWWAuthenticate.__dict__["__setattr__"]

    def wa_setattr(self, name, value):
        if name.startswith("_"):          # internal state, also during construction
            return orig_wa_setattr(self, name, value)
        return wa_setattr_rec(self, name, value)

    WWWAuthenticate.__setattr__ = wa_setattr
    _wrap(WWWAuthenticate, "__setitem__", _c_wa_item("setitem"), {"wa"})
    _wrap(WWWAuthenticate, "__delitem__", _c_wa_item("delitem"), {"wa"})
    _wrap(WWWAuthenticate, "__delattr__", _c_wa_item("delattr"), {"wa"})

    # objects constructed by the tests themselves: followed as objects that are not views of a header
    def adopt_init(cls, kind, skip=None):
        orig = cls.__dict__["__init__"]

        def __init__(self, *a, **k):
            if _busy() or (skip is not None and isinstance(self, skip)):
                return orig(self, *a, **k)
            with _Busy():
                orig(self, *a, **k)
            try:
                with _Busy():
                    s = Session(None, kind)
                slot = s.alloc(self)
                _register(s, slot, self, kind)
                s.emit({"op": "adopt", "vw": slot}, kind, STANDALONE_HEADER[kind], vobj=self)
            except Exception:
                _skip("constructed object that cannot be projected")

        __init__.__wrapped__ = orig
        cls.__init__ = __init__

    adopt_init(HeaderSet, "set")
    adopt_init(_CacheControl, "cc", skip=ImmutableDictMixin)
    adopt_init(ContentSecurityPolicy, "csp")
    adopt_init(ContentRange, "cr")
    adopt_init(WWWAuthenticate, "wa")


def pytest_configure(config):
    _install()


def pytest_sessionfinish(session, exitstatus):
    out = os.environ.get("VERIF_TRACE_OUT")
    if not out:
        return
    data = []
    for s in _sessions:
        if s.judged == 0:
            continue
        data.append({"test": s.test, "kind": "response" if s.resp is not None else "object:" + str(s.kind),
                     "closed": s.closed, "lines": s.lines, "what": s.what})
    with open(out, "w") as f:
        json.dump({"sessions": data, "skipped": _skipped, "objects_seen": len(_sessions)}, f)
