"""Recorders and drivers for C14 (spec/pathsafety): safe_join, the static-file helpers over a real
temporary tree with sentinel files outside the served root, and secure_filename.

Nothing here decides a verdict: every function runs the real werkzeug code and records arguments,
results / exception class names and (for the end-to-end requests) which file's content came back.
The relations are in spec/pathsafety/PathSafetyTrace.tla.
"""
from __future__ import annotations

import itertools
import os
import posixpath
import random
import sys
import unicodedata
from urllib.parse import unquote_to_bytes

from .core import cps


def txt(codes) -> str:
    return "".join(chr(c) for c in codes)


# ------------------------------------------------------------------------------- safe_join
def join_line(directory: str, parts, exp=None) -> dict:
    from werkzeug.security import safe_join

    ln = {"op": "join", "dir": cps(directory), "cwd": cps(os.getcwd()), "parts": [cps(p) for p in parts], "np": [],
          "has_exp": exp is not None, "exp_ok": bool(exp and exp["ok"]), "exp_path": list(exp["path"]) if exp else []}
    try:
        r = safe_join(directory, *parts)
    except Exception as e:  # recorded, judged by TLC
        ln["r"] = {"kind": "exc", "v": [], "exc": type(e).__name__}
        return ln
    if r is None:
        ln["r"] = {"kind": "none", "v": [], "exc": ""}
    elif isinstance(r, str):
        ln["r"] = {"kind": "path", "v": cps(r), "exc": ""}
        ln["np"] = cps(posixpath.normpath(r))
    else:
        ln["r"] = {"kind": "exc", "v": [], "exc": "type:" + type(r).__name__}
    return ln


def join_case(case) -> dict:
    return join_line(case[0], case[1], case[2] if len(case) > 2 else None)


BASES = ["/srv/root", "rel", "", "/", "/srv/root/", "rel/", ".", "./rel", "/srv//root", "//net/share",
         "/srv/root/../root", "a/..", "../up", "/s/r", "r", "/srv/root.d", "/tmp/\u00e9"]

# the atoms of the property statement plus look-alikes
ATOMS = ["..", ".", "", "/", "//", "\\", "C:", "~", "%2e%2e", "\x00", "a", "a.b",
         "...", "..a", "%2f", "%5c", "..\\", "\\..", "C:\\", "~root", "%00", "///", "./", "/.", "/..", "../",
         "\uff0e\uff0e", "\uff0f", "\u2215", "\u2024\u2024", "\u00e9", "root", "rootx", " ", "\n", "\t.."]
CORE_ATOMS = ATOMS[:12]


def components(atoms, kmax):
    out = {""}
    for k in range(1, kmax + 1):
        for t in itertools.product(atoms, repeat=k):
            out.add("".join(t))
    return sorted(out)


def enum_join_cases(bases, comps, nparts):
    for b in bases:
        for t in itertools.product(comps, repeat=nparts):
            yield [b, list(t)]


def random_join_cases(rng: random.Random, n: int):
    out = []
    for _ in range(n):
        b = rng.choice(BASES)
        k = rng.choice([1, 1, 2, 2, 3, 3, 4, 0])
        parts = []
        for _ in range(k):
            na = rng.choice([1, 1, 2, 3, 3, 4, 5])
            pool = CORE_ATOMS if rng.random() < 0.6 else ATOMS
            parts.append("".join(rng.choice(pool) for _ in range(na)))
        out.append([b, parts])
    return out


# ------------------------------------------------------------------------------- end to end
PKG = "verifpkg_c14"

# (id, path relative to the package directory, inside the served root?)
TREE_FILES = [
    (1, "root/a.txt", True), (2, "root/sub/b.txt", True), (3, "root/sub/deep/c.txt", True),
    (4, "root/...", True), (5, "root/..a", True), (6, "root/.hidden", True), (7, "root/a\\b", True),
    (8, "root/~", True), (9, "root/%2e%2e", True), (10, "root/C:", True), (11, "root/sub/..b", True),
    (12, "root/sp ace.txt", True), (13, "root/secret.txt", True), (14, "root/\\..\\secret.txt", True),
    (15, "root/..\\secret.txt", True), (16, "root/\u00e9.txt", True),
    (101, "secret.txt", False), (102, "rootx/secret.txt", False), (103, "root.txt", False),
    (104, "../secret.txt", False), (105, "__init__.py", False), (106, "rootx/a.txt", False),
    (107, "a.txt", False), (108, "sub/b.txt", False),
]

APIS = ["sfd_abs", "sfd_rel", "sfd_empty", "sdm_abs", "sdm_slash", "sdm_rel", "sdm_pkg"]
# growth: more loader kinds / options / argument types.  api -> (exported root relative to the package dir,
# does the serving model "the file the normalised path names" apply?)
APIS2 = {"sdm_nocache": ("root", True), "sdm_timeout": ("root", True), "sdm_disallow": ("root", False),
         "sdm_file": ("root/a.txt", False), "sdm_pkg_sub": ("root/sub", True), "sdm_pkg_all": ("", True),
         "sfd_pathlike": ("root", True), "sfd_cwd": ("root", True),
         # every base form: '' and '.' relative to the working directory (safe_join answers './<path>': the leading
         # './' must survive later processing), '.' with _root_path, Path objects for directory / _root_path
         "sfd_empty_cwd": ("root", True), "sfd_dot_cwd": ("root", True), "sfd_dot": ("root", True),
         "sfd_pathdir": ("root", True), "sfd_pathdot_cwd": ("root", True), "sfd_path_rootpath": ("root", True),
         "sfd_dotslash_cwd": ("root", True)}
BASE_FORM_APIS = ["sfd_empty_cwd", "sfd_dot_cwd", "sfd_dot", "sfd_pathdir", "sfd_pathdot_cwd", "sfd_path_rootpath",
                  "sfd_dotslash_cwd", "sfd_pathlike", "sfd_cwd"]


def rootrel_of(api: str) -> str:
    return APIS2[api][0] if api in APIS2 else "root"


class Tree:
    """base/PKG/ is a python package; base/PKG/root is the served root; everything else is outside."""

    def __init__(self, base: str, extra=(), drop=(), pkg: str = PKG):
        """extra: further (id, path relative to the package dir, inside?) files; a file that cannot be created
        (name clash with a directory, NUL, too long) is left out and listed in self.not_created.
        drop: ids of TREE_FILES to leave out."""
        self.base = base
        self.pkg = pkg
        self.pkgdir = os.path.join(base, pkg)
        self.root = os.path.join(self.pkgdir, "root")
        self.by_content = {}
        self.files = []
        self.not_created = []
        for fid, rel, inside in [f for f in TREE_FILES if f[0] not in drop] + list(extra):
            p = os.path.normpath(os.path.join(self.pkgdir, rel))
            content = f"FILE:{fid}\n".encode() if fid != 105 else b"# FILE:105\n"
            try:
                os.makedirs(os.path.dirname(p), exist_ok=True)
                if os.path.lexists(p) and fid >= 200:
                    raise FileExistsError(p)
                with open(p, "wb") as f:
                    f.write(content)
            except (OSError, ValueError):
                if fid < 200:
                    raise
                self.not_created.append(rel)
                continue
            self.by_content[content] = fid
            self.files.append((fid, rel, inside))
        # growth (a): symbolic links inside the root that point outside (observation only, never a verdict)
        for name, target in (("link.txt", "../secret.txt"), ("linkdir", "../rootx")):
            lp = os.path.join(self.root, name)
            if not os.path.lexists(lp):
                os.symlink(target, lp)
        self.apps = None

    def line(self, rootrel: str = "root") -> dict:
        """the tree as seen from an exported root given relative to the package directory ("" = the package
        directory itself; a file path = a single exported file)"""
        files = []
        for fid, rel, _ in self.files:
            if rootrel == "":
                inside, r = not rel.startswith("../"), rel
            elif rel == rootrel:
                inside, r = True, "."
            else:
                inside, r = rel.startswith(rootrel + "/"), rel[len(rootrel) + 1:]
            files.append({"id": fid, "inside": inside, "rel": cps(r) if inside else cps("-")})
        return {"op": "tree", "files": files}

    def served_id(self, body: bytes) -> int:
        return self.by_content.get(body, 999)

    def sentinel_paths(self):
        return [os.path.join(self.pkgdir, "secret.txt"), os.path.join(self.base, "secret.txt"),
                os.path.join(self.pkgdir, "rootx", "secret.txt")]

    def _apps(self):
        if self.apps is None:
            from werkzeug.middleware.shared_data import SharedDataMiddleware

            def fallback(environ, start_response):
                start_response("404 NOT FOUND", [("Content-Type", "text/plain")])
                return [b"fallback"]

            if self.base not in sys.path:
                sys.path.insert(0, self.base)
            cwd = os.getcwd()
            os.chdir(self.pkgdir)
            try:
                rel = SharedDataMiddleware(fallback, {"/static": "root"})
            finally:
                os.chdir(cwd)
            self.apps = {
                "sdm_abs": (SharedDataMiddleware(fallback, {"/static": self.root}, cache=False), "/static/"),
                "sdm_slash": (SharedDataMiddleware(fallback, {"/": self.root}), "/"),
                "sdm_rel": (rel, "/static/"),
                "sdm_pkg": (SharedDataMiddleware(fallback, {"/pkg": (self.pkg, "root")}), "/pkg/"),
                "sdm_nocache": (SharedDataMiddleware(fallback, {"/static": self.root}, cache=False,
                                                     fallback_mimetype="text/x-verif"), "/static/"),
                "sdm_timeout": (SharedDataMiddleware(fallback, {"/static": self.root}, cache_timeout=1), "/static/"),
                "sdm_disallow": (SharedDataMiddleware(fallback, {"/static": self.root}, disallow="*.txt"), "/static/"),
                "sdm_file": (SharedDataMiddleware(fallback, {"/robots.txt": os.path.join(self.root, "a.txt")}), "/robots.txt/"),
                "sdm_pkg_sub": (SharedDataMiddleware(fallback, {"/pkgsub": (self.pkg, "root/sub")}), "/pkgsub/"),
                "sdm_pkg_all": (SharedDataMiddleware(fallback, [("/all", (self.pkg, ""))]), "/all/"),
            }
        return self.apps


def _environ(path_info_bytes: bytes) -> dict:
    from werkzeug.test import create_environ

    env = create_environ("/")
    env["PATH_INFO"] = path_info_bytes.decode("latin-1")  # what a WSGI server hands over
    env["REQUEST_METHOD"] = "GET"
    return env


def serve_line(tree: Tree, api: str, raw: str) -> dict:
    """One request.  `raw` is the untrusted part of the request target as sent on the wire (ASCII,
    percent-encoded); it is percent-decoded like a WSGI server does."""
    from werkzeug.exceptions import HTTPException
    from werkzeug.utils import send_from_directory

    decoded_bytes = unquote_to_bytes(raw)
    path = decoded_bytes.decode("utf-8", "replace")  # == get_path_info / what routing hands to a view
    ln = {"op": "serve", "api": api, "raw": cps(raw), "path": cps(path), "status": 0, "served": 0, "exc": "",
          "model": APIS2[api][1] if api in APIS2 else True}
    try:
        if api.startswith("sfd"):
            env = _environ(b"/" + decoded_bytes)
            try:
                if api == "sfd_pathlike":
                    import pathlib

                    pp = pathlib.PurePosixPath(path)
                    ln["path"] = cps(os.fspath(pp))      # what the helper is handed
                    rv = send_from_directory(pathlib.Path(tree.root), pp, env)
                elif api == "sfd_cwd":
                    cwd0 = os.getcwd()
                    os.chdir(tree.pkgdir)
                    try:
                        rv = send_from_directory("root", path, env)
                    finally:
                        os.chdir(cwd0)
                elif api in ("sfd_empty_cwd", "sfd_dot_cwd", "sfd_pathdot_cwd", "sfd_dotslash_cwd"):
                    import pathlib

                    d = {"sfd_empty_cwd": "", "sfd_dot_cwd": ".", "sfd_pathdot_cwd": pathlib.Path("."),
                         "sfd_dotslash_cwd": "./"}[api]
                    cwd0 = os.getcwd()
                    os.chdir(tree.root)
                    try:
                        rv = send_from_directory(d, path, env)
                    finally:
                        os.chdir(cwd0)
                elif api == "sfd_dot":
                    rv = send_from_directory(".", path, env, _root_path=tree.root)
                elif api == "sfd_pathdir":
                    import pathlib

                    rv = send_from_directory(pathlib.Path(tree.root), path, env)
                elif api == "sfd_path_rootpath":
                    import pathlib

                    rv = send_from_directory(pathlib.Path("root"), path, env, _root_path=pathlib.Path(tree.pkgdir))
                elif api == "sfd_abs":
                    rv = send_from_directory(tree.root, path, env)
                elif api == "sfd_rel":
                    rv = send_from_directory("root", path, env, _root_path=tree.pkgdir)
                else:
                    rv = send_from_directory("", path, env, _root_path=tree.root)
            except HTTPException as e:
                ln["status"] = e.code or 0
                return ln
            rv.direct_passthrough = False
            body = rv.get_data()
            ln["status"] = rv.status_code
            rv.close()
        else:
            app, prefix = tree._apps()[api]
            if api == "sdm_file" and raw == "":
                prefix = "/robots.txt"          # the exact export key
            env = _environ(prefix.encode() + decoded_bytes)
            got = {}

            def start_response(status, headers, exc_info=None):
                got["status"] = int(status.split()[0])
                return lambda b: None

            cwd = os.getcwd()
            if api == "sdm_rel":
                os.chdir(tree.pkgdir)
            try:
                it = app(env, start_response)
                try:
                    body = b"".join(it)
                finally:
                    if hasattr(it, "close"):
                        it.close()
            finally:
                if api == "sdm_rel":
                    os.chdir(cwd)
            ln["status"] = got.get("status", 0)
        if 400 <= ln["status"] <= 499:
            ln["served"] = 0      # an error page, not a file
        else:
            ln["served"] = tree.served_id(body)
    except Exception as e:
        ln["exc"] = type(e).__name__
    return ln


SEGS = ["..", ".", "", "a.txt", "sub", "b.txt", "...", "..a", "%2e%2e", "%2E%2e", "..%2f", "..%2fsecret.txt", "%2f",
        "%5c", "%5c..%5csecret.txt", "..%5csecret.txt", "%00", "C:", "~", "root", "rootx", "secret.txt", "deep",
        "%252e%252e", ".hidden", "sp%20ace.txt", "%c3%a9.txt", "%ff", "a.txt%00", "..%00", "%2e", "%2e%2e%2f%2e%2e"]
CORE_SEGS = ["..", ".", "", "a.txt", "sub", "b.txt", "%2e%2e", "..%2f", "%2f", "rootx", "secret.txt", "root"]


def enum_targets(segs, kmax):
    out = []
    for k in range(1, kmax + 1):
        for t in itertools.product(segs, repeat=k):
            out.append("/".join(t))
    return out


def sentinel_targets(tree: Tree):
    """absolute paths of the sentinels, raw and percent-encoded, alone and behind climbing prefixes"""
    from urllib.parse import quote

    out = []
    for s in tree.sentinel_paths():
        for form in (s, quote(s, safe=""), quote(s, safe="/"), s.lstrip("/"), "/" + s, "//" + s, "./" + s):
            out.append(form)
            out.append("sub/../" + form)
    depth = tree.root.count("/") + 1
    for up in ("../", "%2e%2e/", "..%2f", "%2e%2e%2f", "./../", "sub/../../", ".././", "..//"):
        out.append(up + "secret.txt")
        out.append(up + "rootx/secret.txt")
        out.append(up * 2 + "secret.txt")
        out.append(up * depth + "etc/passwd")
        out.append("sub/" + up * 2 + "secret.txt")
        out.append("a.txt/" + up * 2 + "secret.txt")
    out += ["..", "../", "../root/a.txt", "../root.txt", "../rootx/a.txt", "..\\secret.txt", "\\..\\secret.txt",
            "sub/../a.txt", "sub/./b.txt", "sub//b.txt", "sub/deep/../../a.txt", "./a.txt", "a.txt/", "a.txt/.",
            "sub/..b", "sub/", "sub", "", ".", "/", "//", "/a.txt", "//a.txt", "%2fa.txt", "a%5cb", "a\\b",
            "sub/../../root/a.txt", "../__init__.py", "__init__.py"]
    return out


def random_targets(rng: random.Random, n: int):
    out = []
    for _ in range(n):
        k = rng.choice([1, 2, 3, 4, 4, 5, 6])
        pool = CORE_SEGS if rng.random() < 0.6 else SEGS
        s = "/".join(rng.choice(pool) for _ in range(k))
        if rng.random() < 0.15:
            s = "/" + s
        out.append(s)
    return out


# ------------------------------------------------------------------------------- secure_filename
def san_line(x: str, exp=None) -> dict:
    from werkzeug.utils import secure_filename

    ln = {"op": "san", "x": cps(x), "nfkd": cps(unicodedata.normalize("NFKD", x)), "out": [], "out2": [], "exc": "",
          "has_exp": exp is not None, "exp": list(exp) if exp is not None else []}
    try:
        out = secure_filename(x)
        out2 = secure_filename(out)
        if not isinstance(out, str) or not isinstance(out2, str):
            raise TypeError("not a str")
        ln["out"], ln["out2"] = cps(out), cps(out2)
    except Exception as e:
        ln["exc"] = type(e).__name__
    return ln


def san_case(case) -> dict:
    return san_line(case[0], case[1] if len(case) > 1 else None)


SAN_POOL = (list("._-~ /\\\t\n\x00\x1f\x7fabZ09:;*?") +
            ["\x85", "\xa0", "\u2028", "\u3000", "\u1680", "\u200b", "\uff0f", "\uff0e", "\uff3f", "\uff3c", "\u2215",
             "\u2044", "\u2024", "\u2025", "\u2026", "\ufb01", "\u338f", "\xbd", "\u2100", "\u2101", "\u2488", "\xe9",
             "e\u0301", "\u0301", "\xfc", "\xdf", "\u212a", "\u017f", "\ufe52", "\uff61", "\u3002", "\ud800", "\udfff",
             "\U0001f600", "\U0001d400", "\u2160", "\u33c2", "\u2121", "\ufe68", "\ufe4d", "\ufe33"])


def codepoints(lo, hi):
    return [chr(c) for c in range(lo, hi)]


def san_context_cases(chars):
    """every char alone, in front of a name, inside a name and behind dots"""
    out = []
    for ch in chars:
        out += [[ch], [ch + "a"], ["a" + ch + "b"], ["." + ch + "a"], ["a" + ch]]
    return out


def random_san_cases(rng: random.Random, n: int):
    out = []
    for _ in range(n):
        k = rng.choice([1, 2, 3, 4, 5, 6, 8, 12])
        s = []
        for _ in range(k):
            r = rng.random()
            if r < 0.75:
                s.append(rng.choice(SAN_POOL))
            elif r < 0.9:
                s.append(chr(rng.randrange(0x110000)))
            else:
                s.append(chr(rng.randrange(0x3000)))
        out.append(["".join(s)])
    return out


# ------------------------------------------------------------------------------- growth: observations
LINK_TARGETS = ["link.txt", "linkdir/secret.txt", "linkdir/a.txt", "linkdir/../a.txt", "sub/../link.txt"]
WINDOWS_DEVICE_NAMES = ["CON", "PRN", "AUX", "NUL", "COM1", "COM2", "COM3", "COM4", "LPT1", "LPT2", "LPT3",
                        "con", "Con.txt", "nul.tar.gz", "COM1.", "LPT1 ", " aux", "CON/x", "a/NUL"]


def bytes_directory_probe(tree: Tree) -> dict:
    """send_from_directory with bytes arguments (outside the documented str / PathLike[str] domain)"""
    from werkzeug.utils import send_from_directory

    out = {}
    for name, d, p in (("bytes directory", os.fsencode(tree.root), "a.txt"), ("bytes path", tree.root, b"a.txt"),
                       ("both bytes", os.fsencode(tree.root), b"../secret.txt")):
        try:
            rv = send_from_directory(d, p, _environ(b"/"))
            rv.direct_passthrough = False
            out[name] = f"{rv.status_code} file id {tree.served_id(rv.get_data())}"
            rv.close()
        except Exception as e:
            out[name] = type(e).__name__
    return out


# ------------------------------------------------------------------------------- reinterpretable spellings
# Path texts that still spell dots / separators / home directories in some OTHER notation after the server's
# single percent-decoding.  A helper that decodes, normalises or expands once more after its containment test
# would reach a sentinel outside the root.  Each text is requested over two trees: one where the literal name
# exists inside the root (tree "L"), one where it does not (tree "N"); the sentinels outside exist in both.
DOTS_RAW = ["%252e%252e", "%252E%252E", ".%252e", "%252e.", "%25252e%25252e", "%c0%ae%c0%ae", "%e0%80%ae%e0%80%ae",
            "%ef%bc%8e%ef%bc%8e", "%e2%80%a4%e2%80%a4", "..%20", "..%2e", "..;", "..%2500", "%2e%2e%20", ".%20."]
SEPS_RAW = ["/", "%252f", "%252F", "%255c", "%5c", "%c0%af", "%ef%bc%8f", "%e2%88%95", "%25c0%25af"]
UPS_PLAIN = ["..%252f", "..%255c", "..%5c", "%2e%2e%255c", "%2e%2e%5c", "..%c0%af", "..%ef%bc%8f"]
HOMES_RAW = ["~", "~root", "$HOME", "$%7bHOME%7d", "%25HOME%25", "%7b%7d", "%7b0%7d", "%257e", "~%2f..", "$PWD"]


def home_raws():
    """home-directory / variable spellings (HOME and PWD point at the package directory while requesting, which holds
    the sentinels secret.txt and a.txt), bare, behind './' and behind a segment that normalises away"""
    out = []
    for h in HOMES_RAW:
        for tail in ("secret.txt", "a.txt", "root/../secret.txt"):
            out.append(h + "/" + tail)
        out.append(h)
        out.append("sub/../" + h + "/secret.txt")
        for lead in ("./", ".//", "././", "sub/./../", "%2e/"):
            out.append(lead + h + "/secret.txt")
            out.append(lead + h + "/a.txt")
        out.append("./" + h)
    return out


def reinterp_raws(tree: Tree, deep: bool):
    """raw request targets (wire form).  Targets behind the spelled '..' / home: the sentinel's own basename, the
    basename of a file that also exists inside, a sentinel directory, and (deep) two levels up."""
    from urllib.parse import quote

    tails = ["secret.txt", "a.txt", "rootx/secret.txt"]
    out = []
    for n, d in enumerate(DOTS_RAW):
        for m, sep in enumerate(SEPS_RAW):
            for k, tail in enumerate(tails[:2]):
                if deep or sep == "/" or (n + m + k) % 3 == 0:      # quick: every dot spelling with '/', a third of the rest
                    out.append(d + sep + tail)
        out.append(d + "/" + tails[2])
        out.append("sub/" + d + "/" + d + "/secret.txt")
        out.append(d)
        out.append(d + "/")
        if deep:
            for sep in SEPS_RAW:
                out.append(d + sep + d + sep + "secret.txt")
                out.append("sub/" + d + sep + "b.txt")
    for up in UPS_PLAIN:
        for tail in tails:
            out.append(up + tail)
        out.append(up + up + "secret.txt")
    out += home_raws()
    for s in tree.sentinel_paths()[:2]:      # an absolute sentinel path, encoded twice / with other separators
        q1 = quote(s, safe="")
        out += [quote(q1, safe=""), quote(quote(s, safe="/"), safe="/"), s.replace("/", "%255c"), s.replace("/", "%5c"),
                quote(s.replace("/", "\uff0f"), safe=""), "file:" + quote(q1, safe=""), "file:%252f%252f" + quote(q1, safe="")]
    for t in ("secret.txt.", "secret.txt%20", "a.txt%2520", "a.txt::$DATA", "a.txt%2500", "A.TXT", "a.txt;x", "a.txt%3f",
              "a.txt%23", "sub%252fb.txt", "sub%255cb.txt", "sub%5cb.txt"):
        out.append(t)
    seen, uniq = set(), []
    for r in out:
        if r not in seen:
            seen.add(r)
            uniq.append(r)
    return uniq


def literal_files(raws, first_id=200):
    """the names the raws spell after ONE percent-decoding, as files inside the root (where such a file can exist)"""
    out, seen = [], set()
    for raw in raws:
        t = unquote_to_bytes(raw).decode("utf-8", "replace")
        segs = t.split("/")
        if not t or t in seen or t.startswith("/") or any(sg in ("", ".", "..") for sg in segs) or "\x00" in t:
            continue
        if any(len(sg.encode("utf-8", "surrogatepass")) > 200 for sg in segs):
            continue
        seen.add(t)
        out.append((first_id + len(out), "root/" + t, True))
    return out


class _Where:
    """just the sentinel locations of a tree that is not built yet"""

    def __init__(self, base, pkg):
        self.base, self.pkgdir = base, os.path.join(base, pkg)

    sentinel_paths = Tree.sentinel_paths


def literal_tree(base: str, deep: bool):
    """-> (tree in which every spelling exists literally inside the root, its raw targets)"""
    raws = reinterp_raws(_Where(base, PKG + "_lit"), deep)
    # ids 8 and 9 (files named "~" and "%2e%2e") make room for directories of those names
    return Tree(base, extra=literal_files(raws), drop=(8, 9), pkg=PKG + "_lit"), raws


# ------------------------------------------------------------------------------- long names (size dimension)
# one representative per character class of the pipeline
SAN_CLASSES = {"alnum": "a", "dot": ".", "uscore": "_", "dash": "-", "space": " ", "sep": "/", "fold_letter": "\uff41",
               "fold_dot": "\uff0e", "combining": "\u0301", "stripped": "~", "dropped": "\u20ac", "fold_space": "\u3000"}
SAN_FILLERS = ["a", "\uff41", "e\u0301", "ab-"]


def _place(length, filler, placed):
    """a name of `length` characters made of `filler`, with the given characters at 1-based positions
    (negative = from the end)"""
    chars = list((filler * (length // len(filler) + 1))[:length])
    for pos, ch in placed.items():
        i = pos - 1 if pos > 0 else length + pos
        if 0 <= i < length:
            chars[i] = ch
    return "".join(chars)


def long_san_cases(rng: random.Random, quick: bool):
    cl = list(SAN_CLASSES.values())
    out = []
    # typical limit 255: every pair of classes at the last two positions, every length 250..260
    for length in range(250, 261):
        for a in cl:
            for b in cl:
                out.append(_place(length, "a", {-2: a, -1: b}))
    # every pair (quick) / triple (thorough) of classes at positions 253..256 of a longer name, the documented examples
    for a in cl:
        for b in cl:
            out.append(_place(262, "a", {255: a, 256: b}))
            out.append(_place(262, "a", {254: a, 255: b}))
            out.append(_place(262, "a", {253: a, 254: b}))
            out.append(_place(258, "a", {1: a, 2: b}))
            out.append(_place(258, "\uff41", {255: a, 256: b}))
            if not quick:
                for c in cl:
                    out.append(_place(262, "a", {254: a, 255: b, 256: c}))
                    out.append(_place(259, "a", {1: a, 2: b, 3: c}))
                    out.append(_place(259, "a", {-3: a, -2: b, -1: c}))
    out += ["a" * 254 + ".txt", "a" * 254 + "_final.txt", "\uff41" * 254 + "\uff0e", "\uff41" * 254 + "\uff0etxt",
            "a" * 255, "a" * 256, "." + "a" * 255, "a" * 255 + ".", "_" * 255 + "a", "a" + "." * 255 + "a", " " * 255 + "a",
            "a" * 250 + ".tar.gz", "e\u0301" * 255 + ".e\u0301", "a" * 251 + ". . .", "a" * 253 + "/.b", "/" * 256, "." * 256]
    # names whose sanitised form is exactly n characters with a strip character right behind / at the cut
    for n in (255, 256):
        for tail in (".", "_", "._", "-.", ".a", "_a", " a", "/a", "\uff0ea", "\u20ac.a"):
            out.append("a" * (n - 1) + tail)
            out.append("a" * n + tail)
            out.append("~" * 7 + "a" * (n - 1) + tail)
            out.append("\uff41" * (n - 1) + tail)
    # a strip character at EVERY position: whatever the cut position, one of these ends in '.' or '_' there
    for total in (300, 4100):
        for head in ("a", "aa"):
            for pair in (".a", "_a", "._a"):
                out.append((head + pair * total)[:total])
    # around 4096
    ks = cl[:5] if quick else cl
    for length in (range(4095, 4098) if quick else range(4090, 4101)):
        for a in ks:
            out.append(_place(length, "a", {-1: a}))
            if not quick and 4095 <= length <= 4097:
                for b in cl:
                    out.append(_place(length, "a", {-2: a, -1: b}))
    for a in ks:
        for b in ks:
            out.append(_place(4102, "a", {4095: a, 4096: b}))
            if not quick:
                out.append(_place(4102, "a", {4096: a, 4097: b}))
                out.append(_place(4102, "\uff41", {4095: a, 4096: b}))
    # random lengths 8..300, random class at every position (dots and underscores frequent)
    weights = [6, 3, 3, 1, 2, 1, 2, 1, 1, 1, 1, 1]
    for _ in range(600 if quick else 30000):
        length = rng.randrange(8, 301)
        out.append("".join(rng.choices(cl, weights)[0] for _ in range(length)))
    return [[x] for x in dict.fromkeys(out)]


# ------------------------------------------------------------------------------- NUL-then-dotdot component grammar
# characters at which a C-level / wide-character normpath might stop or miscount
TRUNC_CHARS = ["\x00", "\x00\x00", "\n", "\r", "\x1a", "\x7f", "\xff", "\udc80", "\uffff", "\U00010000", "%00", "\ud800"]
NUL_HEADS = ["", "a", "name.txt", "sub/b", ".", "a/", "..a", "a/.."]
NUL_MIDS = ["", ".png", "x"]
NUL_CLIMBS = ["/..", "/../..", "/../../..", "/../../../etc/passwd", "/../../outside.txt", "/../a", "/./../..", "//../..",
              "/../../", "/..//../x"]


def nul_components(quick: bool):
    heads = NUL_HEADS[:5] if quick else NUL_HEADS
    mids = NUL_MIDS[:2] if quick else NUL_MIDS
    tcs = TRUNC_CHARS[:8] if quick else TRUNC_CHARS
    out = []
    for h in heads:
        for tc in tcs:
            for m in mids:
                for c in NUL_CLIMBS:
                    out.append(h + tc + m + c)
    out += ["a\x00/../../outside.txt", "name.txt\x00.png/../../../etc/passwd", "\x00/..", "\x00/../..", "a\x00b/../../..",
            "a/\x00/../../..", "\x00", "a\x00", "\x00/a", "..\x00", "..\x00/..", "../\x00", "\x00../..", "a\x00/..\x00/../.."]
    return list(dict.fromkeys(out))


def nul_join_cases(quick: bool):
    """each component as the only, the first and a later component, for absolute / relative / empty / '.' / root bases"""
    bases = ["/srv/root", "rel", "", ".", "/"] if quick else BASES
    cases = []
    for n, comp in enumerate(nul_components(quick)):
        for k, b in enumerate(bases):
            cases.append([b, [comp]])
            if not quick or (n + k) % 2 == 0:
                cases.append([b, [comp, "x"]])
                cases.append([b, ["ok", comp]])
            if not quick:
                cases.append([b, ["a", "b", comp]])
                cases.append([b, [comp, comp]])
    return cases
