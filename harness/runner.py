"""./check <property-id> quick|thorough [--replay FILE]

exit 0: property held on everything explored (known findings are printed as KNOWN-FINDING)
exit 1: at least one unlisted violation (a line `VIOLATION property=<id> replay=<path>` each)
exit 2: machinery failure (TLC crash, parse error, vacuous coverage) -- never a verdict
"""
from __future__ import annotations

import importlib
import json
import os
import sys
import traceback

os.environ.setdefault("PYTHONHASHSEED", "0")

from .core import Ctx, use_repo
from .tlc import MachineryError


def main(argv):
    if len(argv) < 2:
        print(__doc__)
        return 2
    pid = argv[0].upper()
    tier = argv[1]
    replay = None
    if "--replay" in argv:
        replay = argv[argv.index("--replay") + 1]
        if tier == "--replay":
            tier = "quick"
    if tier not in ("quick", "thorough"):
        print(__doc__)
        return 2
    seed = int(os.environ.get("VERIF_SEED", "20261002"))
    try:
        mod = importlib.import_module(f"harness.props.{pid.lower()}")
    except ModuleNotFoundError as e:
        print(f"no check for {pid}: {e}")
        return 2
    ctx = Ctx(pid, tier, seed, level=getattr(mod, "LEVEL", "model_checking"))
    # every temporary file of this run (the harness's own, werkzeug's, those of the repository tests run under the
    # recording plug-ins) goes into the check's scratch directory, which is removed at the end
    os.environ["TMPDIR"] = ctx.tmp
    import tempfile
    tempfile.tempdir = None
    try:
        use_repo()
        if replay:
            data = json.load(open(replay))
            mod.replay(ctx, data)
        else:
            mod.run(ctx)
        return ctx.finish()
    except MachineryError as e:
        print(f"MACHINERY-FAILURE property={pid}: {e}", file=sys.stderr)
        ctx.cleanup()
        return 2
    except Exception:
        traceback.print_exc()
        print(f"MACHINERY-FAILURE property={pid}: unexpected exception in harness", file=sys.stderr)
        ctx.cleanup()
        return 2


if __name__ == "__main__":
    sys.exit(main(sys.argv[1:]))
