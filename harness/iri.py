"""Recorders and generators for C15 (IRI <-> URI conversion, EnvironBuilder -> Request, DispatcherMiddleware).

Nothing here decides a verdict: the functions run the real werkzeug code and record arguments, results
(code points), exception class names; the relations are in spec/iri/IriTrace.tla.
"""
from __future__ import annotations

import random
import unicodedata

from .core import cps

SCHEMES = ["http", "https", "ws", "wss", "ftp"]
_HOST_NAMES = ["example.com", "localhost", "a.b-c.example", "127.0.0.1", "[::1]", "[2001:db8::1]",
               "bücher.example", "☃.net", "föö.com", "日本語.jp", "xn--n3h.net"]
_hosts = None


def hosts():
    """(unicode form, IDNA form) pairs; the IDNA codec of Python is an environment fact, not code under test"""
    global _hosts
    if _hosts is None:
        out = []
        for h in _HOST_NAMES:
            if h.startswith("["):
                out.append((h, h))
                continue
            a = h.encode("idna").decode("ascii")
            u = a.encode("ascii").decode("idna")
            out.append((u, a))
        _hosts = out
    return _hosts


# ------------------------------------------------------------------------------------------ generators
NONASCII = "éßÿĀ߿ࠀ€￿\U00010000\U0001f600\U0010ffff\u0080\u009f�℀ 　"
RESERVED = {"path": "/?#", "query": "&=+#", "frag": "", "user": ":@/?#"}
FORBIDDEN = {"path": "?#", "query": "#", "frag": "", "user": ":@/?#[]"}
PORTS = ["", "", "80", "443", "8080", "1", "9999"]


def _esc(b: bytes, rng: random.Random) -> str:
    up = rng.random() < 0.7
    return "".join(("%%%02X" if up else "%%%02x") % x for x in b)


def gen_component(rng: random.Random, kind: str, maxlen=8, escapes=True) -> str:
    n = rng.choice([0, 1, 1, 2, 3, 4, maxlen])
    out = []
    for _ in range(n):
        r = rng.random()
        if r < 0.22:
            out.append(rng.choice("abcXYZ0123456789abcdefABCDEF"))
        elif r < 0.30:
            out.append(rng.choice("-._~!$&'()*+,;=:@/?"))
        elif r < 0.36:
            out.append(rng.choice(" \"<>[]\\^`{|}\x00\x01\x1f\x7f\t\n"))
        elif r < 0.50:
            out.append(rng.choice(NONASCII) if rng.random() < 0.8 else chr(rng.choice([rng.randrange(0x80, 0xD800), rng.randrange(0xE000, 0x110000)])))
        elif not escapes:
            out.append(rng.choice("abc/%"))
        elif r < 0.60:
            out.append(_esc(rng.choice(NONASCII.replace("℀", "") if kind == "user" else NONASCII).encode(), rng))
        elif r < 0.70:
            out.append(_esc(rng.choice(RESERVED[kind] + "%% /?#&=+:@\x00\x1f\x7f\t\n").encode(), rng))
        elif r < 0.78:
            out.append(_esc(rng.choice("0123456789abcdefABCDEFxyz~-").encode(), rng))
        elif r < 0.88:
            out.append(_esc(rng.choice([b"\xff", b"\xc3", b"\xa9", b"\xe2\x82", b"\xed\xa0\x80", b"\xc0\x80", b"\xf4\x90\x80\x80",
                                        b"\xf0\x9f\x98", b"\x80", b"\xc3\xa9\xa9"]), rng))
        elif r < 0.96:
            out.append(rng.choice(["%", "%%", "%4", "%z", "%zz", "%2", "%c", "%%3", "%2%", "%4%"]))
        else:
            out.append("%" + _esc(rng.choice("0123456789abcdefABCDEF").encode(), rng) + rng.choice(["1", "a", "F", _esc(b"5", rng), ""]))
    s = "".join(c for c in "".join(out) if c not in FORBIDDEN[kind])
    if kind == "user":
        # urllib.parse.urlsplit refuses a netloc whose NFKC form gains a delimiter (outside the model: assumption)
        s = "".join(c for c in s if not (set(unicodedata.normalize("NFKC", c)) & set("/?#@:[]")))
    return s


def gen_url(rng: random.Random):
    hu, ha = rng.choice(hosts())
    host = hu if rng.random() < 0.6 else ha
    s = rng.choice(SCHEMES) + "://"
    if rng.random() < 0.3:
        s += gen_component(rng, "user", 5)
        if rng.random() < 0.5:
            s += ":" + gen_component(rng, "user", 5)
        s += "@"
    s += host
    port = rng.choice(PORTS)
    if port:
        s += ":" + port
    if rng.random() < 0.85:
        s += "/" + gen_component(rng, "path", 10)
    if rng.random() < 0.5:
        s += "?" + gen_component(rng, "query", 8)
    if rng.random() < 0.4:
        s += "#" + gen_component(rng, "frag", 6)
    return s, hu, ha


def wrap(kind: str, comp: str) -> str:
    """embed one component into a URL (spec -> code replay of the component table)"""
    return {"path": "http://h.example/" + comp, "query": "http://h.example/p?" + comp, "frag": "http://h.example/p#" + comp,
            "user": "http://" + comp + "@h.example/p"}[kind]


def gen_env(rng: random.Random):
    hu, ha = rng.choice(hosts())
    segs = []
    for _ in range(rng.choice([0, 1, 2, 3])):
        segs.append(gen_component(rng, "path", 4, escapes=rng.random() < 0.25).replace("/", ""))
    path = "/" + "/".join(segs) + rng.choice(["", "", "/"])
    if path.startswith("//"):
        path = "/x" + path[1:]
    root = rng.choice(["", "", "/app", "/äpp/v1", "/a b", "/rööt", "/100%", "/a;b=c"])
    pairs = [(gen_component(rng, "frag", 4, escapes=rng.random() < 0.3), gen_component(rng, "frag", 5, escapes=rng.random() < 0.3))
             for _ in range(rng.choice([0, 1, 2, 3]))]
    return {"path": path, "pairs": pairs, "scheme": rng.choice(["http", "https", "ws", "wss"]), "hostU": hu, "hostA": ha,
            "use_ascii_host": rng.random() < 0.4, "port": rng.choice(PORTS), "root": root}


def gen_disp(rng: random.Random):
    segs = ["a", "b", "ab", "é", "a.b", "", "api", "v1"]
    mounts = set()
    for _ in range(rng.choice([1, 2, 3, 4])):
        depth = rng.choice([0, 1, 1, 2, 2, 3])
        m = "".join("/" + rng.choice(segs) for _ in range(depth))
        if rng.random() < 0.1:
            m += "/"
        if rng.random() < 0.08:
            m = m.lstrip("/")
        mounts.add(m)
    mounts = sorted(mounts)
    base = rng.choice(mounts + [""])
    tail = "".join(rng.choice(["/", "/", ""]) + rng.choice(segs) for _ in range(rng.choice([0, 0, 1, 2, 3])))
    p = base + rng.choice(["", "/", "x", ""]) + tail
    if rng.random() < 0.15:
        p = p.lstrip("/")
    return {"mounts": mounts, "script0": rng.choice(["", "", "/root", "/r/s"]), "p": p}


# ------------------------------------------------------------------------------------------ recorders
_IRI_FIELDS = ["U", "UU", "I", "II", "IU", "UIU", "IUIU", "UI", "IUI", "UIUI"]


def rec_iri(x: str, hu: str, ha: str) -> dict:
    from werkzeug.urls import iri_to_uri, uri_to_iri

    v = dict.fromkeys(_IRI_FIELDS, "")
    err = ""
    try:
        v["U"] = iri_to_uri(x)
        v["UU"] = iri_to_uri(v["U"])
        v["I"] = uri_to_iri(x)
        v["II"] = uri_to_iri(v["I"])
        v["IU"] = uri_to_iri(v["U"])
        v["UIU"] = iri_to_uri(v["IU"])
        v["IUIU"] = uri_to_iri(v["UIU"])
        v["UI"] = iri_to_uri(v["I"])
        v["IUI"] = uri_to_iri(v["UI"])
        v["UIUI"] = iri_to_uri(v["IUI"])
    except Exception as ex:  # recorded, judged by TLC
        err = type(ex).__name__
    ln = {"op": "iri", "x": cps(x), "err": err, "hostU": cps(hu), "hostA": cps(ha)}
    for k in _IRI_FIELDS:
        ln[k] = cps(v[k])
    return ln


def rec_dance(s: str) -> dict:
    from werkzeug._internal import _wsgi_decoding_dance, _wsgi_encoding_dance

    d, back, err = "", "", ""
    try:
        d = _wsgi_encoding_dance(s)
        back = _wsgi_decoding_dance(d)
    except Exception as ex:
        err = type(ex).__name__
    return {"op": "dance", "s": cps(s), "d": cps(d), "back": cps(back), "err": err}


def rec_env(c: dict) -> dict:
    from werkzeug.datastructures import MultiDict
    from werkzeug.test import EnvironBuilder
    from werkzeug.wrappers import Request
    from werkzeug.wsgi import get_current_url

    host = c["hostA"] if c["use_ascii_host"] else c["hostU"]
    base = f"{c['scheme']}://{host}{':' + c['port'] if c['port'] else ''}{c['root']}/"
    given = MultiDict([tuple(p) for p in c["pairs"]])
    out = {"rpath": "", "rhost": "", "rurl": "", "rroot": "", "wurl": "", "rbase": ""}
    rargs, err = [], ""
    try:
        b = EnvironBuilder(path=c["path"], base_url=base, query_string=given)
        try:
            env = b.get_environ()
            req = Request(env)
            out = {"rpath": req.path, "rhost": req.host, "rurl": req.url, "rroot": req.root_path,
                   "wurl": get_current_url(env), "rbase": req.base_url}
            rargs = list(req.args.items(multi=True))
        finally:
            b.close()
    except Exception as ex:
        err = type(ex).__name__
    ln = {"op": "env", "path": cps(c["path"]), "pairs": [[cps(k), cps(v)] for k, v in given.items(multi=True)],
          "scheme": cps(c["scheme"]), "hostU": cps(c["hostU"]), "hostA": cps(c["hostA"]), "port": cps(c["port"]),
          "root": cps(c["root"]), "err": err, "rargs": [[cps(k), cps(v)] for k, v in rargs]}
    for k, v in out.items():
        ln[k] = cps(v)
    return ln


def rec_disp(c: dict) -> dict:
    from werkzeug.middleware.dispatcher import DispatcherMiddleware

    seen = {}

    def mk(name):
        def app(environ, start_response):
            seen.update(app=name, s=environ.get("SCRIPT_NAME", ""), p=environ.get("PATH_INFO", ""))
            return []
        return app

    err = ""
    try:
        mw = DispatcherMiddleware(mk(None), {m: mk(m) for m in c["mounts"]})
        mw({"SCRIPT_NAME": c["script0"], "PATH_INFO": c["p"], "REQUEST_METHOD": "GET"}, lambda *a, **k: None)
        if "app" not in seen:
            err = "NoAppCalled"
    except Exception as ex:
        err = type(ex).__name__
    app = seen.get("app")
    return {"op": "disp", "mounts": [cps(m) for m in c["mounts"]], "script0": cps(c["script0"]), "p": cps(c["p"]), "err": err,
            "app": [0] if app is None else cps(app), "script1": cps(seen.get("s", "")), "pinfo1": cps(seen.get("p", ""))}


def run_job(job):
    """job = [kind, payload]; returns one trace line"""
    kind, a = job
    if kind == "iri":
        return rec_iri(a["x"], a["hu"], a["ha"])
    if kind == "dance":
        return rec_dance(a["s"])
    if kind == "env":
        return rec_env(a)
    if kind == "disp":
        return rec_disp(a)
    if kind == "envhist":
        return rec_history(a)     # a list of env lines, one per get_environ of the history
    if kind == "urlrec":
        return rec_urlrec(a)
    raise ValueError(kind)


# ====================================================================== growth: from_environ round trip, bind_to_environ
def gen_envrt(rng: random.Random):
    c = gen_env(rng)
    if rng.random() < 0.5:   # decoded PATH_INFO / SCRIPT_NAME with characters that are URL syntax
        extra = rng.choice(["%3F", "%23", "%2541", "%25", "%09", "%0A", "%3Fa=b", ";p=1", "%2F", "%C3%A9", "%2520"])
        c["path"] = c["path"].rstrip("/") + "/" + extra + rng.choice(["", "x", "/y"])
    c["root"] = rng.choice(["", "", "/app", "/app/", "/äpp/v1", "/a b", "/a%3Fb", "/r%2541", "/a%23", "/a;b=c", "/100%", "/x%09y"])
    c["method"] = rng.choice(["GET", "GET", "POST", "PUT", "DELETE", "PATCH"])
    c["headers"] = rng.choice([[], [["X-One", "1"]], [["X-Multi", "a"], ["X-Multi", "b"]], [["Cookie", "a=b"], ["Cookie", "c=d"]],
                               [["Accept-Language", "de, en;q=0.5"], ["X-Ünï", "x"]][:1], [["User-Agent", "t/1"], ["X-One", "é"]]])
    c["body"] = rng.choice(["none", "none", "form", "formmulti", "json", "raw", "file"]) if c["method"] != "GET" else "none"
    c["flags"] = [rng.random() < 0.5, rng.random() < 0.3, rng.random() < 0.2]
    return c


def gen_bind(rng: random.Random):
    c = gen_env(rng)
    c["root"] = rng.choice(["", "", "/app", "/äpp/v1", "/a b", "/a%3Fb"])
    c["hm"] = rng.random() < 0.25
    hu, ha = c["hostU"], c["hostA"]
    port = c["port"]
    cands = [None, None, ha, hu, ha.upper(), "example.org", "com", ha + (":" + port if port else ""), ha + ":80", ha + ":443", ha + ":8080"]
    if "." in ha and not ha.startswith("["):
        parent = ha.split(".", 1)[1]
        cands += [parent, parent, parent.upper(), parent + (":" + port if port else ""), "x." + ha]
    c["arg"] = rng.choice(cands)
    c["ws"] = rng.random() < 0.15
    return c


def _env_view(env, sfx, body):
    flags = [bool(env.get("wsgi.multithread")), bool(env.get("wsgi.multiprocess")), bool(env.get("wsgi.run_once"))]
    hdrs = sorted([cps(k), cps(v)] for k, v in env.items() if k.startswith("HTTP_") and k != "HTTP_HOST")
    v = {"pi": cps(env.get("PATH_INFO", "")), "sn": cps(env.get("SCRIPT_NAME", "")), "qs": cps(env.get("QUERY_STRING", "")),
         "host": cps(env.get("HTTP_HOST", "")), "sname": cps(env.get("SERVER_NAME", "")), "sport": cps(str(env.get("SERVER_PORT", ""))),
         "scheme": cps(env.get("wsgi.url_scheme", "")), "meth": cps(env.get("REQUEST_METHOD", "")),
         "ctype": cps(env.get("CONTENT_TYPE", "")), "clen": cps(str(env.get("CONTENT_LENGTH", ""))), "hdrs": hdrs,
         "body": list(body), "flags": flags}
    return {k + sfx: x for k, x in v.items()}


_EMPTY_VIEW = {"pi": [], "sn": [], "qs": [], "host": [], "sname": [], "sport": [], "scheme": [], "meth": [], "ctype": [], "clen": [],
               "hdrs": [], "body": [], "flags": [False, False, False]}


def _builder_kwargs(c):
    import io

    from werkzeug.datastructures import MultiDict

    host = c["hostA"] if c["use_ascii_host"] else c["hostU"]
    base = f"{c['scheme']}://{host}{':' + c['port'] if c['port'] else ''}{c['root']}/"
    given = MultiDict([tuple(p) for p in c["pairs"]])
    kw = {"path": c["path"], "base_url": base, "query_string": given, "method": c.get("method", "GET"),
          "headers": [tuple(h) for h in c.get("headers", [])]}
    body = c.get("body", "none")
    if body == "form":
        kw["data"] = {"a": "b", "é": "ü &="}
    elif body == "formmulti":
        kw["data"] = MultiDict([("a", "1"), ("a", "2"), ("b", "")])
    elif body == "json":
        kw["json"] = {"a": [1, 2, "é"]}
    elif body == "raw":
        kw["data"] = b"\x00raw\xffbytes"
        kw["content_type"] = "application/octet-stream"
    elif body == "file":
        kw["data"] = {"f": (io.BytesIO(b"file\r\ncontent"), "n.txt"), "a": "b"}
    fl = c.get("flags", [False, False, False])
    kw.update(multithread=fl[0], multiprocess=fl[1], run_once=fl[2])
    return kw, given


def _read_body(env):
    s = env["wsgi.input"]
    pos = s.tell()
    data = s.read()
    s.seek(pos)
    return data


def rec_envrt(c: dict) -> dict:
    from werkzeug.test import EnvironBuilder

    ln = {"op": "envrt", "path": cps(c["path"]), "root": cps(c["root"]), "scheme": cps(c["scheme"]), "hostU": cps(c["hostU"]),
          "hostA": cps(c["hostA"]), "port": cps(c["port"]), "err1": "", "err2": ""}
    v1 = {k + "1": v for k, v in _EMPTY_VIEW.items()}
    v2 = {k + "2": v for k, v in _EMPTY_VIEW.items()}
    given = []
    b = b2 = None
    try:
        kw, given = _builder_kwargs(c)
        try:
            b = EnvironBuilder(**kw)
            e1 = b.get_environ()
            v1 = _env_view(e1, "1", _read_body(e1))
        except Exception as ex:
            ln["err1"] = type(ex).__name__
        if not ln["err1"]:
            try:
                b2 = EnvironBuilder.from_environ(e1)
                e2 = b2.get_environ()
                v2 = _env_view(e2, "2", _read_body(e2))
            except Exception as ex:
                ln["err2"] = type(ex).__name__
    finally:
        for x in (b2, b):
            if x is not None:
                x.close()
    ln["pairs"] = [[cps(k), cps(v)] for k, v in (given.items(multi=True) if hasattr(given, "items") else [])]
    ln.update(v1)
    ln.update(v2)
    return ln


def rec_bind(c: dict) -> dict:
    import warnings

    from werkzeug.routing import Map, Rule
    from werkzeug.test import EnvironBuilder

    ln = {"op": "bind", "path": cps(c["path"]), "root": cps(c["root"]), "scheme": cps(c["scheme"]), "hostU": cps(c["hostU"]),
          "hostA": cps(c["hostA"]), "port": cps(c["port"]), "hm": bool(c["hm"]), "arg": [-2] if c["arg"] is None else cps(c["arg"]),
          "ws": bool(c["ws"]), "err": "", "warned": False, "sub": [], "sname": [], "uscheme": [], "script": [], "pinfo": [],
          "qargs": [], "whost": []}
    given = []
    b = None
    try:
        kw, given = _builder_kwargs(c)
        if c["ws"]:
            kw["headers"] = [("Connection", "keep-alive, Upgrade"), ("Upgrade", "WebSocket")]
        b = EnvironBuilder(**kw)
        env = b.get_environ()
        m = Map([Rule("/", endpoint="i", host="<h>") if c["hm"] else Rule("/", endpoint="i")], host_matching=bool(c["hm"]))
        with warnings.catch_warnings(record=True) as w:
            warnings.simplefilter("always")
            a = m.bind_to_environ(env, server_name=c["arg"])
        from werkzeug.wsgi import get_host
        q = a.query_args
        ln.update(warned=any("doesn't match configured" in str(x.message) for x in w),
                  sub=[-2] if a.subdomain is None else cps(a.subdomain), sname=cps(a.server_name), uscheme=cps(a.url_scheme),
                  script=cps(a.script_name), pinfo=cps(a.path_info), qargs=cps(q if isinstance(q, str) else repr(q)),
                  whost=cps(get_host(env).lower()))
    except Exception as ex:
        ln["err"] = type(ex).__name__
    finally:
        if b is not None:
            b.close()
    ln["pairs"] = [[cps(k), cps(v)] for k, v in (given.items(multi=True) if hasattr(given, "items") else [])]
    return ln


def run_job2(job):
    kind, a = job
    return rec_envrt(a) if kind == "envrt" else rec_bind(a)


# ====================================================================== growth: multi-step builder histories (attribute assignment)
def _plain_text(rng: random.Random, maxlen=4) -> str:
    """Unicode text without URL syntax: what a caller assigns verbatim to builder attributes"""
    pool = "abcXY09-._~éßÿĀ߿ࠀ€￿\U00010000\U0001f600\U0010ffff\u0080 ;:@!'()*,"
    return "".join(rng.choice(pool) for _ in range(rng.choice([1, 1, 2, 3, maxlen])))


def gen_history(rng: random.Random):
    """steps: ['new', kwargs-case] first, then assignments ['path', p], ['base_url', scheme, hostidx, ascii?, port, root],
    ['script_root', r], ['host', hostidx, ascii?, port], ['url_scheme', s], ['query_string', pairs, raw?], ['args', pairs],
    ['args_add', k, v], and ['emit'] (get_environ + Request); one builder, two or three emits"""
    nh = len(hosts())

    def path():
        segs = [_plain_text(rng) for _ in range(rng.choice([0, 1, 2, 3]))]
        if rng.random() < 0.15:
            segs.append(rng.choice(["%C3%A9", "%41", "100%", "a%2Fb", "%e2%82%ac"]))
        return "/" + "/".join(segs) + rng.choice(["", "", "/"])

    def root():
        return rng.choice(["", "", "/app", "/röot", "/" + _plain_text(rng), "/a b/" + _plain_text(rng, 2)])

    def pairs():
        return [[_plain_text(rng, 3), rng.choice(["", _plain_text(rng), "a&b=c+d #%", "x y"])] for _ in range(rng.choice([0, 1, 2, 3]))]

    steps = []
    if rng.random() < 0.5:
        steps.append(["new", None])
    else:
        c = gen_env(rng)
        c["path"] = path()
        steps.append(["new", c])
    emits = 0
    nsteps = rng.choice([3, 5, 8])
    for k in range(nsteps):
        if k == nsteps // 2 and rng.random() < 0.7:
            steps.append(["emit"])
            emits += 1
        r = rng.random()
        if r < 0.24:
            steps.append(["path", path()])
        elif r < 0.40:
            steps.append(["base_url", rng.choice(["http", "https", "ws", "wss"]), rng.randrange(nh), rng.random() < 0.4, rng.choice(PORTS), root()])
        elif r < 0.52:
            steps.append(["script_root", root()])
        elif r < 0.62:
            steps.append(["host", rng.randrange(nh), rng.random() < 0.4, rng.choice(PORTS)])
        elif r < 0.68:
            steps.append(["url_scheme", rng.choice(["http", "https"])])
        elif r < 0.78:
            ps, seen = [], set()
            for kv in pairs():       # a literal query string keeps its own order in the URL: keys are kept distinct here
                if kv[0] not in seen:
                    seen.add(kv[0])
                    ps.append(kv)
            steps.append(["query_string", ps, rng.random() < 0.5])
        elif r < 0.86:
            steps.append(["args", pairs()])
        elif r < 0.92:
            steps.append(["args_add", _plain_text(rng, 2), _plain_text(rng)])
        elif emits < 2:
            steps.append(["emit"])
            emits += 1
    steps.append(["emit"])
    return {"steps": steps}


def _raw_query(pairs) -> str:
    """a query string as a caller would write it: literal non-ASCII, only the query syntax itself escaped"""
    esc = {"%": "%25", "&": "%26", "=": "%3D", "+": "%2B", "#": "%23", " ": "+"}
    return "&".join("".join(esc.get(c, c) for c in k) + "=" + "".join(esc.get(c, c) for c in v) for k, v in pairs)


def rec_history(h: dict) -> list:
    from urllib.parse import urlencode

    from werkzeug.datastructures import MultiDict
    from werkzeug.test import EnvironBuilder
    from werkzeug.wrappers import Request
    from werkzeug.wsgi import get_current_url

    hs = hosts()
    st = {"path": "/", "root": "", "scheme": "http", "hostU": "localhost", "hostA": "localhost", "port": "", "pairs": []}
    mode = "args"
    lines = []
    b = None
    fatal = ""
    try:
        for step in h["steps"]:
            op = step[0]
            try:
                if op == "new":
                    c = step[1]
                    if c is None:
                        b = EnvironBuilder()
                    else:
                        host = c["hostA"] if c["use_ascii_host"] else c["hostU"]
                        b = EnvironBuilder(path=c["path"], base_url=f"{c['scheme']}://{host}{':' + c['port'] if c['port'] else ''}{c['root']}/",
                                           query_string=MultiDict([tuple(p) for p in c["pairs"]]))
                        st = {"path": c["path"], "root": c["root"], "scheme": c["scheme"], "hostU": c["hostU"], "hostA": c["hostA"],
                              "port": c["port"], "pairs": [list(p) for p in c["pairs"]]}
                elif op == "path":
                    b.path = step[1]
                    st["path"] = step[1]
                elif op == "base_url":
                    _, scheme, hi, asc, port, root = step
                    hu, ha = hs[hi]
                    b.base_url = f"{scheme}://{ha if asc else hu}{':' + port if port else ''}{root}/"
                    st.update(scheme=scheme, hostU=hu, hostA=ha, port=port, root=root)
                elif op == "script_root":
                    b.script_root = step[1]
                    st["root"] = step[1]
                elif op == "host":
                    _, hi, asc, port = step
                    hu, ha = hs[hi]
                    b.host = f"{ha if asc else hu}{':' + port if port else ''}"
                    st.update(hostU=hu, hostA=ha, port=port)
                elif op == "url_scheme":
                    b.url_scheme = step[1]
                    st["scheme"] = step[1]
                elif op == "query_string":
                    b.query_string = _raw_query(step[1]) if step[2] else urlencode([tuple(p) for p in step[1]])
                    st["pairs"] = [list(p) for p in step[1]]
                    mode = "str"
                elif op == "args":
                    b.args = MultiDict([tuple(p) for p in step[1]])
                    st["pairs"] = [list(p) for p in step[1]]
                    mode = "args"
                elif op == "args_add":
                    if mode == "args":
                        b.args.add(step[1], step[2])
                        st["pairs"] = st["pairs"] + [[step[1], step[2]]]
                elif op == "emit":
                    out = {"rpath": "", "rhost": "", "rurl": "", "rroot": "", "wurl": "", "rbase": ""}
                    rargs, err = [], ""
                    try:
                        env = b.get_environ()
                        req = Request(env)
                        out = {"rpath": req.path, "rhost": req.host, "rurl": req.url, "rroot": req.root_path,
                               "wurl": get_current_url(env), "rbase": req.base_url}
                        rargs = list(req.args.items(multi=True))
                    except Exception as ex:
                        err = type(ex).__name__
                    given = MultiDict([tuple(p) for p in st["pairs"]])
                    ln = {"op": "env", "path": cps(st["path"]), "pairs": [[cps(k), cps(v)] for k, v in given.items(multi=True)],
                          "scheme": cps(st["scheme"]), "hostU": cps(st["hostU"]), "hostA": cps(st["hostA"]), "port": cps(st["port"]),
                          "root": cps(st["root"]), "err": err, "rargs": [[cps(k), cps(v)] for k, v in rargs]}
                    for k, v in out.items():
                        ln[k] = cps(v)
                    lines.append(ln)
            except Exception as ex:  # an assignment itself raised: recorded on the next emitted line
                fatal = fatal or f"{op}:{type(ex).__name__}"
    finally:
        if b is not None:
            b.close()
    if fatal:
        for ln in lines:
            ln["err"] = ln["err"] or fatal.replace(":", "_")
    return lines


# ====================================================================== growth: host spelling variants, URL reconstruction entry points
def spell_host(rng: random.Random, hu: str, ha: str):
    """another spelling of the same host: ASCII letter case (ACE prefix and labels, names, IPv6 hex digits), trailing dot.
    Returns (spelled, unicode fact, IDNA fact); the facts stay lower case and come from Python's idna codec."""
    base = ha if rng.random() < 0.7 else hu
    if not base.startswith("[") and rng.random() < 0.3:
        hu2 = hu + "."
        try:
            ha2 = hu2.encode("idna").decode("ascii")
            if ha2.encode("ascii").decode("idna") == hu2:
                hu, ha, base = hu2, ha2, base + "."
        except UnicodeError:
            pass
    how = rng.choice(["upper", "upper", "mixed", "title", "aceprefix", "same"])
    if how == "upper":
        s = "".join(c.upper() if c.isascii() else c for c in base)
    elif how == "mixed":
        s = "".join((c.upper() if rng.random() < 0.5 else c) if c.isascii() else c for c in base)
    elif how == "title":
        s = ".".join((lab[:1].upper() + lab[1:]) if lab.isascii() else lab for lab in base.split("."))
    elif how == "aceprefix":
        s = ".".join(("XN--" + lab[4:] if rng.random() < 0.6 else "Xn--" + lab[4:]) if lab.startswith("xn--") else lab for lab in base.split("."))
    else:
        s = base
    return s, hu, ha


def gen_url_hostcase(rng: random.Random):
    hu, ha = rng.choice(hosts())
    host, hu, ha = spell_host(rng, hu, ha)
    s = rng.choice(SCHEMES) + "://"
    if rng.random() < 0.4:
        s += gen_component(rng, "user", 4)
        if rng.random() < 0.5:
            s += ":" + gen_component(rng, "user", 4)
        s += "@"
    s += host
    port = rng.choice(PORTS)
    if port:
        s += ":" + port
    if rng.random() < 0.8:
        s += "/" + gen_component(rng, "path", 5)
    if rng.random() < 0.4:
        s += "?" + gen_component(rng, "query", 4)
    if rng.random() < 0.3:
        s += "#" + gen_component(rng, "frag", 3)
    return s, hu, ha


BOUNDARY_PATHS = ["", "", "/", "/", "/x", "/x/", "x", "/a b/é", "/€/\U0001f600;p=1"]


def gen_urlrec(rng: random.Random):
    """an environ for all URL reconstruction entry points: boundary PATH_INFO values, non-empty queries, script roots with and
    without trailing slash, optionally passed through DispatcherMiddleware with a request that names a mount exactly,
    optionally a Host header in another spelling"""
    hu, ha = rng.choice(hosts())
    c = {"kind": rng.choice(["builder", "builder", "mount", "mount"]), "scheme": rng.choice(["http", "https", "ws", "wss"]),
         "hostU": hu, "hostA": ha, "use_ascii_host": rng.random() < 0.4, "port": rng.choice(PORTS), "hostspell": None,
         "root": rng.choice(["", "", "/app", "/app", "/äpp/v1", "/a b"]), "rootslash": rng.random() < 0.3,
         "path": rng.choice(BOUNDARY_PATHS) if rng.random() < 0.7 else "/" + "/".join(_plain_text(rng) for _ in range(rng.choice([1, 2]))),
         "pairs": [[_plain_text(rng, 3), rng.choice(["", _plain_text(rng), "a&b=c+d #%", "x y"])] for _ in range(rng.choice([0, 1, 1, 2, 3]))]}
    if c["kind"] == "mount":
        c["mount"] = rng.choice(["/m", "/m/é", "/api/v1", "/" + _plain_text(rng, 2).replace("/", "")])
        c["rest"] = rng.choice(["", "", "", "/", "/x", "/x/é"])
    if rng.random() < 0.3:
        c["hostspell"], c["hostU"], c["hostA"] = spell_host(rng, hu, ha)
    return c


def _outs_for_environ(env, out):
    """call every entry point on one environ; out(hr, hp, wq, url)"""
    from werkzeug._internal import _wsgi_decoding_dance
    from werkzeug.sansio.utils import get_current_url as sansio_url
    from werkzeug.wrappers import Request
    from werkzeug.wsgi import get_current_url

    req = Request(env)
    out(True, True, True, req.url)
    out(True, True, False, req.base_url)
    out(True, False, False, req.root_url)
    out(True, False, False, req.url_root)
    out(False, False, False, req.host_url)
    for root_only in (False, True):
        for strip in (False, True):
            for host_only in (False, True):
                u = get_current_url(env, root_only=root_only, strip_querystring=strip, host_only=host_only)
                out(not host_only, not host_only and not root_only, not host_only and not root_only and not strip, u)
    scheme, host = env["wsgi.url_scheme"], req.host
    root = _wsgi_decoding_dance(env.get("SCRIPT_NAME", ""))
    path = _wsgi_decoding_dance(env.get("PATH_INFO", ""))
    qs = env.get("QUERY_STRING", "").encode("latin1")
    out(False, False, False, sansio_url(scheme, host))
    out(True, False, False, sansio_url(scheme, host, root))
    out(True, False, False, sansio_url(scheme, host, root, None, qs))
    out(True, True, False, sansio_url(scheme, host, root, path))
    out(True, True, False, sansio_url(scheme, host, root, path, b""))
    out(True, True, True, sansio_url(scheme, host, root, path, qs))
    return qs


def rec_urlrec(c: dict) -> dict:
    from werkzeug.datastructures import MultiDict
    from werkzeug.urls import uri_to_iri

    ln = {"op": "urlrec", "scheme": cps(c["scheme"]), "hostU": cps(c["hostU"]), "hostA": cps(c["hostA"]), "port": cps(c["port"]),
          "root": [-2], "path": [-2], "pairs": [], "qraw": [-2], "err": "", "outs": []}
    outs = []

    def out(hr, hp, wq, u):
        outs.append({"hr": hr, "hp": hp, "wq": wq, "u": cps(u), "again": cps(uri_to_iri(u))})

    b = None
    try:
        if c["kind"] == "direct":
            from werkzeug.sansio.utils import get_current_url as sansio_url

            root, path, q = c["root"], c["path"], bytes(c["q"])
            host = c["hostA"] + (":" + c["port"] if c["port"] else "")
            ln.update(root=[-2] if root is None else cps(root), path=[-2] if path is None else cps(path),
                      pairs=[[cps(k), cps(v)] for k, v in c["pairs"]], qraw=list(q))
            out(True, True, True, sansio_url(c["scheme"], host, root, path, q))
            out(True, True, False, sansio_url(c["scheme"], host, root, path))
            out(True, True, False, sansio_url(c["scheme"], host, root, path, None))
            out(True, False, False, sansio_url(c["scheme"], host, root))
            out(False, False, False, sansio_url(c["scheme"], host))
        else:
            from werkzeug.test import EnvironBuilder

            host = c["hostA"] if c["use_ascii_host"] else c["hostU"]
            if c["hostspell"]:
                host = c["hostA"].rstrip(".") if c["hostA"].endswith(".") and not c["hostspell"].endswith(".") else c["hostA"]
            base = f"{c['scheme']}://{host}{':' + c['port'] if c['port'] else ''}{c['root']}{'/' if c['rootslash'] or not c['root'] else ''}"
            given = MultiDict([tuple(p) for p in c["pairs"]])
            path = c["path"] if c["kind"] == "builder" else c["mount"] + c["rest"]
            b = EnvironBuilder(path=path, base_url=base, query_string=given)
            env = b.get_environ()
            root_exp, path_exp = c["root"], path
            if c["hostspell"]:
                env["HTTP_HOST"] = c["hostspell"] + (":" + c["port"] if c["port"] else "")
            if c["kind"] == "mount":
                from werkzeug.middleware.dispatcher import DispatcherMiddleware

                seen = {}

                def app(environ, start_response):
                    seen["env"] = environ
                    return []

                # environ strings are latin-1 views of UTF-8 bytes: the mount key is written the same way
                key = c["mount"].encode("utf-8").decode("latin1")
                DispatcherMiddleware(lambda e, s: [], {key: app, "/other": lambda e, s: []})(env, lambda *a, **k: None)
                if "env" not in seen:
                    raise RuntimeError("MountNotChosen")
                env = seen["env"]
                root_exp, path_exp = c["root"] + c["mount"], c["rest"]
            ln.update(root=cps(root_exp), path=cps(path_exp), pairs=[[cps(k), cps(v)] for k, v in given.items(multi=True)])
            ln["qraw"] = list(_outs_for_environ(env, out))
    except Exception as ex:
        ln["err"] = type(ex).__name__
    finally:
        if b is not None:
            b.close()
    ln["outs"] = outs
    return ln
