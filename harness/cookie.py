"""Drivers / recorders for the cookie area (C13).

A *case* is JSON: {"key": [cps], "value": [cps], "a": {attribute record of spec/cookie/Cookie.tla},
"x": {harness-only call details the judge ignores}}.  The functions below perform the calls on the real
werkzeug code and record what happened (arguments, returned header, parse results, exception class names,
the jar's view).  Nothing here decides a verdict: spec/cookie/CookieTrace.tla does.
"""
from __future__ import annotations

import random
import time
from datetime import datetime, timedelta, timezone

from .core import cps


def text(cp) -> str:
    return "".join(chr(c) for c in cp)


NO_ATTRS = {
    "path_set": False, "path": [], "dom_set": False, "domain": [], "ma_kind": "none", "ma_neg": False, "ma_digits": [0],
    "exp_kind": "none", "exp_days": 0, "exp_secs": 0, "exp_text": [], "sync": False, "secure": False, "httponly": False,
    "ss_set": False, "samesite": [], "partitioned": False, "idna": [],
}


def idna_log(domain: str):
    """trusted input for the judge: the IDNA codec applied to every non-ASCII label of the BARE host (no port, no leading dots),
    label by label -- never to the domain argument as a whole"""
    host = domain.partition(":")[0].lstrip(".")
    out = []
    for lab in host.split("."):
        if lab and not lab.isascii() and not any(cps(lab) == p[0] for p in out):
            out.append([cps(lab), cps(lab.encode("idna").decode("ascii"))])
    return out


def with_idna(a):
    a = dict(a)
    a.setdefault("idna", [])
    if a["dom_set"] and not a["idna"]:
        try:
            a["idna"] = idna_log(text(a["domain"]))
        except UnicodeError:
            a["idna"] = []
    return a


def attrs(**kw):
    a = dict(NO_ATTRS)
    a.update(kw)
    return a


def _ma_value(a, x):
    n = int("".join(str(d) for d in a["ma_digits"]))
    if a["ma_neg"]:
        n = -n
    if a["ma_kind"] == "td":
        us = x.get("td_us", 0) if n >= 0 else 0  # a fraction of a second is dropped (whole seconds are documented)
        return timedelta(seconds=n, microseconds=us)
    return n


def call_kwargs(a, x, *, for_response=False):
    kw = {"path": text(a["path"]) if a["path_set"] else None}
    if a["dom_set"]:
        kw["domain"] = text(a["domain"])
    if a["ma_kind"] != "none":
        kw["max_age"] = _ma_value(a, x)
    if a["exp_kind"] == "dt":
        # the requested instant is (exp_days, exp_secs); how it is handed over is a harness detail: naive (= UTC, as documented),
        # aware UTC, a fixed offset ("+05:30"), or a zoneinfo zone ("zone:Europe/Berlin")
        inst = datetime(1970, 1, 1, tzinfo=timezone.utc) + timedelta(days=a["exp_days"], seconds=a["exp_secs"])
        spec = x.get("exp_tz") or ("naive" if x.get("exp_naive") else "utc")
        if spec == "naive":
            inst = inst.replace(tzinfo=None)
        elif spec.startswith("zone:"):
            import zoneinfo

            inst = inst.astimezone(zoneinfo.ZoneInfo(spec[5:]))
        elif spec != "utc":
            sign = -1 if spec[0] == "-" else 1
            inst = inst.astimezone(timezone(sign * timedelta(hours=int(spec[1:3]), minutes=int(spec[4:6]))))
        kw["expires"] = inst
    elif a["exp_kind"] == "ts":
        ts = a["exp_days"] * 86400 + a["exp_secs"]
        kw["expires"] = float(ts) if x.get("exp_float") else ts
    elif a["exp_kind"] == "str":
        kw["expires"] = text(a["exp_text"])
    kw["secure"] = a["secure"]
    kw["httponly"] = a["httponly"]
    if a["ss_set"]:
        kw["samesite"] = text(a["samesite"])
    kw["partitioned"] = a["partitioned"]
    if not for_response:
        kw["sync_expires"] = a["sync"]
    return kw


def _clock():
    t = int(time.time())
    return t // 86400, t % 86400


NO_JX = {"want": False, "has": False, "exp_set": False, "exp_days": 0, "exp_secs": 0, "ma_set": False, "ma_neg": False, "ma_digits": [0]}


class process_tz:
    """run a block with the process time zone set (TZ + tzset), restored afterwards"""

    def __init__(self, tz):
        self.tz = tz

    def __enter__(self):
        import os

        if self.tz:
            self.old = os.environ.get("TZ")
            os.environ["TZ"] = self.tz
            time.tzset()

    def __exit__(self, *exc):
        import os

        if self.tz:
            if self.old is None:
                os.environ.pop("TZ", None)
            else:
                os.environ["TZ"] = self.old
            time.tzset()


def _pairs(md):
    return [[cps(k), cps(v)] for k, v in md.items(multi=True)]


def run_dump(case):
    """dump_cookie (or Response.set_cookie) -> header; the header parsed as a request cookie three ways."""
    import warnings

    from werkzeug import http
    from werkzeug.sansio import http as sansio_http

    key, value, x = text(case["key"]), text(case["value"]), case.get("x", {})
    a = with_idna(case["a"])
    via = x.get("via", "dump_cookie")
    if via in ("response", "response-delete"):
        a["sync"] = True  # Response.set_cookie has no sync_expires switch
    if via == "response-delete":  # Response.delete_cookie = set_cookie(key, expires=0, max_age=0, ...) with an empty value
        value, case = "", dict(case, value=[])
        a.update(ma_kind="int", ma_neg=False, ma_digits=[0], exp_kind="ts", exp_days=0, exp_secs=0)
    if via == "client":  # Client.set_cookie: domain defaults to "localhost", path to "/"
        if not a["dom_set"]:
            a.update(dom_set=True, domain=cps("localhost"))
        if not a["path_set"]:
            a.update(path_set=True, path=cps("/"))
    line = {"op": "dump", "flow": via, "key": case["key"], "value": case["value"], "a": a, "exc": "", "hdr": [],
            "full": [], "req": [], "ps": [], "pe": [], "perr": "", "jx": dict(NO_JX)}
    line["t0d"], line["t0s"] = _clock()
    hdr = None
    try:
        with warnings.catch_warnings(), process_tz(x.get("proc_tz")):
            warnings.simplefilter("ignore")
            if via in ("response", "response-delete"):
                from werkzeug.wrappers import Response

                resp = Response()
                resp.max_cookie_size = 0
                kw = call_kwargs(a, x, for_response=True)
                if via == "response":
                    resp.set_cookie(key, value, **kw)
                else:
                    resp.delete_cookie(key, **{k: v for k, v in kw.items() if k in ("path", "domain", "secure", "httponly", "samesite", "partitioned")})
                hdr = resp.headers.getlist("Set-Cookie")[0]
            elif via == "client":
                import werkzeug.test as wtest

                seen, orig = [], wtest.dump_cookie

                def recording(*args, **kwargs):  # the header Client.set_cookie hands to its jar
                    seen.append(orig(*args, **kwargs))
                    return seen[-1]

                kw = call_kwargs(a, x)
                wtest.dump_cookie = recording
                client = wtest.Client(lambda e, s: None)
                try:
                    client.set_cookie(key, value, domain=kw.pop("domain"), path=kw.pop("path"), max_size=0, **kw)
                finally:
                    wtest.dump_cookie = orig
                hdr = seen[0]
                if x.get("jar_lookup"):  # only for plain lower-case ASCII domains and unreserved paths: the key is the argument itself
                    jx = line["jx"]
                    jx["want"] = True
                    got = client.get_cookie(key, domain=text(a["domain"]), path=text(a["path"]))
                    if got is not None:
                        jx["has"] = True
                        if got.expires is not None:
                            e = got.expires if got.expires.tzinfo is not None else got.expires.replace(tzinfo=timezone.utc)
                            d = e - datetime(1970, 1, 1, tzinfo=timezone.utc)  # aware arithmetic, independent of the process time zone
                            jx.update(exp_set=True, exp_days=d.days, exp_secs=d.seconds)
                        if got.max_age is not None:
                            jx.update(ma_set=True, ma_neg=got.max_age < 0, ma_digits=[int(c) for c in str(abs(got.max_age))])
            else:
                hdr = http.dump_cookie(key, value, max_size=0, **call_kwargs(a, x))
    except Exception as e:
        line["exc"] = type(e).__name__
    line["t1d"], line["t1s"] = _clock()
    if hdr is None:
        return line
    line["hdr"] = cps(hdr)
    # the user agent: the cookie pair is the text before the first ';' (RFC 6265 5.2); it is sent back verbatim
    req = hdr.split(";", 1)[0]
    line["req"] = cps(req)
    try:
        line["full"] = _pairs(sansio_http.parse_cookie(hdr))
        line["ps"] = _pairs(sansio_http.parse_cookie(req))
        line["pe"] = _pairs(http.parse_cookie({"HTTP_COOKIE": req}))
    except Exception as e:
        line["perr"] = type(e).__name__
    return line


def jar_eligible(case):
    a, x = case["a"], case.get("x", {})
    if a["path_set"]:
        p = text(a["path"])
        if not p.startswith("/") or any(not (c.isascii() and (c.isalnum() or c in "/_.-")) for c in p):
            return False
    if a["dom_set"] and not x.get("jar_host"):
        return False
    if a["exp_kind"] == "str":
        return False
    return True


def run_jar(case):
    """Response.set_cookie -> test client jar -> Cookie header of the next request -> request.cookies."""
    import warnings

    key, value, x = text(case["key"]), text(case["value"]), case.get("x", {})
    a = with_idna(case["a"])
    a["sync"] = True
    host = x.get("jar_host") or "localhost"
    path = text(a["path"]) if a["path_set"] else "/"
    line = {"op": "jar", "flow": "client-jar", "key": case["key"], "value": case["value"], "a": a, "host": cps(host), "exc": "",
            "found": False, "dk": [], "dv": [], "echoed": [], "jsecure": False, "jhttponly": False, "jss_set": False,
            "jsamesite": [], "jpath": [], "jdomain": [], "jma_set": False, "jma_neg": False, "jma_digits": [0]}
    try:
        from werkzeug.test import Client
        from werkzeug.wrappers import Request, Response

        seen = []
        kw = call_kwargs(a, x, for_response=True)

        def app(environ, start_response):
            req = Request(environ)
            seen.append(_pairs(req.cookies))
            resp = Response("ok")
            resp.max_cookie_size = 0
            if len(seen) == 1:
                resp.set_cookie(key, value, **kw)
            return resp(environ, start_response)

        with warnings.catch_warnings():
            warnings.simplefilter("ignore")
            client = Client(app)
            base = f"http://{host}/"
            client.get(path, base_url=base).close()
            client.get(path, base_url=base).close()
            ck = client.get_cookie(key, domain=host, path=path)
        line["echoed"] = seen[1]
        if ck is not None:
            line.update(found=True, dk=cps(ck.decoded_key), dv=cps(ck.decoded_value), jsecure=bool(ck.secure),
                        jhttponly=bool(ck.http_only), jss_set=ck.same_site is not None, jsamesite=cps(ck.same_site or ""),
                        jpath=cps(ck.path), jdomain=cps(ck.domain), jma_set=ck.max_age is not None)
            if ck.max_age is not None:
                line["jma_neg"] = ck.max_age < 0
                line["jma_digits"] = [int(c) for c in str(abs(ck.max_age))]
    except Exception as e:
        line["exc"] = type(e).__name__
    return line


# ---------------------------------------------------------------------- generators (seeded)
KEYS = ["k", "session", "a-b", "Path", "secure", "$Version", "x.y", "~", "!#$%&'*+-.^_`|~", "K1", "max-age", "0"]
SPECIAL = ['"', ";", ",", "\\", "=", " ", "\t", "\r", "\n", "\x00", "\x7f", "%"]
ATTACKS = ["; Secure", "x\r\nSet-Cookie: a=b", '"', "\\", "\\073", 'a\\"', '"quoted"', " lead", "trail ", "=", "a=b; c=d", "%3B",
           "\\0731", "\\", "\\\\", '\\"', "a;Path=/admin", "a\"; Domain=evil.example; x=\"", "\x1f", "\x1a;\x1b", "é;", "\\400",
           "\\08", "'", "a b", " ", "\x85", "\xa0x\xa0", "", "x" * 300 + ";"]
# (domain text, ASCII host a request must use so that the jar returns the cookie; None = not exercised through the jar:
# the test client compares the IRI form of the request host with the A-label Domain attribute, and is case sensitive)
DOMAINS = [("example.com", "example.com"), (".example.com", "example.com"), ("example.com:8080", "example.com"),
           ("☃.com", None), ("sub.b\xfccher.example", None), ("localhost", "localhost"),
           ("..a.b.example.org:1", "a.b.example.org"), ("例え.jp", None), ("m\xfcnchen.example", None),
           ("Example.COM", None), ("127.0.0.1:5000", "127.0.0.1")]
PATHS = ["/", "/app", "/a/b.c-d_e", "/a b", "/;x", "/\xe9", "/%41", "/a,b=c", "/p\n", "/\U0001f600", "/a;Secure", "/x\x7f\x00", "/q?r#s",
         "/" + "seg/" * 20]
SAMESITES = ["strict", "lax", "none", "Strict", "LAX", "nOnE", "bad", "Strict; Secure", ""]


def _rand_value(rng: random.Random):
    r = rng.random()
    if r < 0.12:
        return rng.choice(ATTACKS)
    n = rng.choice([0, 1, 1, 2, 2, 3, 4, 6, 9, 14, 40])
    out = []
    for _ in range(n):
        r = rng.random()
        if r < 0.30:
            out.append(rng.choice(SPECIAL))
        elif r < 0.45:
            out.append(chr(rng.randrange(0x01, 0x20)))
        elif r < 0.65:
            out.append(rng.choice("abcXYZ019!#$&'()*+-./:<>?@[]^_`{|}~"))
        elif r < 0.75:
            out.append(chr(rng.randrange(0x80, 0x100)))
        elif r < 0.85:
            out.append(rng.choice("\xe9߿ࠀ€  　﻿�￿퟿"))
        elif r < 0.93:
            out.append(chr(rng.choice([0x10000, 0x1F600, 0x10FFFF, rng.randrange(0x10000, 0x110000)])))
        else:
            c = rng.randrange(0, 0x110000)
            out.append(chr(c if not 0xD800 <= c <= 0xDFFF else 0xFFFD))
    return "".join(out)


def _rand_attrs(rng: random.Random):
    a, x = dict(NO_ATTRS), {}
    if rng.random() < 0.75:
        a["path_set"], a["path"] = True, cps(rng.choice(PATHS))
    if rng.random() < 0.5:
        d, host = rng.choice(DOMAINS)
        a["dom_set"], a["domain"] = True, cps(d)
        if host:
            x["jar_host"] = host
    r = rng.random()
    if r < 0.55:
        n = rng.choice([0, 1, 59, 3600, 86400, 31536000, 99999999, rng.randrange(0, 10**6)])
        neg = rng.random() < 0.15 and n > 0
        a.update(ma_kind=rng.choice(["int", "int", "td"]), ma_neg=neg, ma_digits=[int(c) for c in str(n)])
        x["td_us"] = rng.choice([0, 0, 1, 500000, 999999])
    r = rng.random()
    if r < 0.25:
        a.update(exp_kind=rng.choice(["dt", "ts"]), exp_days=rng.choice([0, 1, 59, 60, 365, 789, 10956, 11016, 11017, 19358, 24836, 24837,
                                                                        47540, 2932896, rng.randrange(0, 2932897), rng.randrange(0, 40000)]),
                 exp_secs=rng.choice([0, 1, 59, 60, 3599, 3600, 43200, 86399, rng.randrange(0, 86400)]))
        x["exp_naive"] = rng.random() < 0.4
        x["exp_float"] = rng.random() < 0.3
    elif r < 0.32:
        a.update(exp_kind="str", exp_text=cps(rng.choice(["Thu, 01 Jan 2030 00:00:00 GMT", "Wed, 21 Oct 2015 07:28:00 GMT"])))
    a["sync"] = rng.random() < 0.7
    a["secure"] = rng.random() < 0.4
    a["httponly"] = rng.random() < 0.4
    a["partitioned"] = rng.random() < 0.3
    if rng.random() < 0.5:
        a["ss_set"], a["samesite"] = True, cps(rng.choice(SAMESITES))
    x["via"] = rng.choice(["dump_cookie", "dump_cookie", "response"])
    return a, x


def rand_case(seed):
    rng = random.Random(seed)
    a, x = _rand_attrs(rng) if rng.random() < 0.7 else (dict(NO_ATTRS), {"via": rng.choice(["dump_cookie", "response"])})
    return {"key": cps(rng.choice(KEYS)), "value": cps(_rand_value(rng)), "a": a, "x": x}


BOUNDARY = sorted(set(list(range(0, 0x180)) + [0x7FF, 0x800, 0x1680, 0x1FFF, 0x2000, 0x200A, 0x200B, 0x2028, 0x2029, 0x202F, 0x205F, 0x3000,
                                                0xD7FF, 0xE000, 0xFEFF, 0xFFFD, 0xFFFF, 0x10000, 0x1F600, 0x10FFFF]))


def sweep_cases():
    """every single code point of BOUNDARY alone, between letters, doubled, and next to a quote / backslash"""
    out = []
    for c in BOUNDARY:
        ch = chr(c)
        for v in (ch, "a" + ch + "b", ch + ch, '"' + ch, ch + "\\", " " + ch + " "):
            out.append({"key": cps("k"), "value": cps(v), "a": dict(NO_ATTRS), "x": {"via": "dump_cookie"}})
    return out


def classes(value_cps):
    """input-class tag of a value (part of a violation key; not a verdict)"""
    tags = set()
    for c in value_cps:
        if c in (0x21, *range(0x23, 0x2C), *range(0x2D, 0x3B), *range(0x3C, 0x5C), *range(0x5D, 0x7F)):
            continue
        tags.add("sp" if c == 0x20 else "dquote" if c == 0x22 else "comma" if c == 0x2C else "semicolon" if c == 0x3B else
                 "backslash" if c == 0x5C else "ctl00-19" if c < 0x1A else "ctl1a-1f" if c < 0x20 else "del" if c == 0x7F else
                 "latin1" if c < 0x100 else "bmp" if c < 0x10000 else "astral")
    return "+".join(sorted(tags)) or "cookie-octets"


# ---------------------------------------------------------------------- request cookie strings (model drift only)
PARSE_ATOMS = ["a", "b", "k", "=", "=", ";", "; ", " ", "\t", '"', '"', "\\", "\\073", "\\\"", "\\\\", "\\400", "\\08", "\n", "\r\n", "\x0b", "\x1c",
               "\xa0", " ", "é", "\\303\\251", "\\303", ",", "==", ";;", ' "x" ', "v=1", "\x00", "😀"]


def rand_cookie_string(seed):
    rng = random.Random(seed)
    return "".join(rng.choice(PARSE_ATOMS) for _ in range(rng.choice([1, 2, 3, 4, 6, 9, 14])))


def run_parse(s):
    """an arbitrary Cookie header through sansio parse_cookie; compared with the scanner model (drift only)"""
    from werkzeug.sansio import http as sansio_http

    line = {"op": "parse", "flow": "parse_cookie", "hdr": cps(s), "got": [], "perr": ""}
    try:
        line["got"] = _pairs(sansio_http.parse_cookie(s))
    except Exception as e:
        line["perr"] = type(e).__name__
    return line


# ====================================================================== test client jar as a state machine (ClientJar.tla)
# A history = list of steps {"op": .., "a": {unified argument record}}; times are ticks (1 h) of a model clock that starts at
# tick 1 = JAR_BASE + 1 h; -1 = absent, -2 = the Unix epoch.
ABSENT, EPOCH = -1, -2
JAR_A = {"host": [], "rp": [], "rp2": [], "https": False, "has_sc": False, "name": [], "val": [], "domattr": [], "pathattr": [],
         "ma": ABSENT, "exp": ABSENT, "secure": False, "httponly": False, "ss": [], "dom": [], "path": [], "oo": True}
NO_GOT = {"dom": [], "path": [], "name": [], "val": [], "ho": False, "secure": False, "httponly": False, "ss": [], "ma": ABSENT, "exp": ABSENT}


def jar_a(**kw):
    a = dict(JAR_A)
    a.update(kw)
    return a


def _jar_base():
    return datetime(2030, 1, 1, tzinfo=timezone.utc)


def _cookie_rec(ck):
    exp = ABSENT
    if ck.expires is not None:
        if ck.expires.timestamp() == 0:
            exp = EPOCH
        else:
            d = (ck.expires - _jar_base()).total_seconds()
            exp = int(d // 3600) if d % 3600 == 0 and abs(d) < 10**9 else -3
    return {"dom": cps(ck.domain), "path": cps(ck.path), "name": cps(ck.decoded_key), "val": cps(ck.decoded_value), "ho": bool(ck.origin_only),
            "secure": bool(ck.secure), "httponly": bool(ck.http_only), "ss": cps(ck.same_site or ""),
            "ma": ABSENT if ck.max_age is None else max(min(ck.max_age, 10**9), -10**9), "exp": exp}


def _sc_kwargs(a):
    kw = {"secure": a["secure"], "httponly": a["httponly"]}
    if a["ma"] != ABSENT:
        kw["max_age"] = a["ma"] * 3600
    if a["exp"] == EPOCH:
        kw["expires"] = 0
    elif a["exp"] != ABSENT:
        kw["expires"] = _jar_base() + timedelta(hours=a["exp"])
    if a["ss"]:
        kw["samesite"] = text(a["ss"])
    return kw


def _path_prefixes(p):
    out = {"/", p}
    for i, c in enumerate(p):
        if c == "/" and i > 0:
            out.add(p[:i])
            out.add(p[: i + 1])
    return out


def run_jar_history(steps):
    """Execute a history on one werkzeug.test.Client with an echo app and a patched clock; one recorded line per step."""
    import warnings

    import werkzeug.http as whttp
    from werkzeug.test import Client
    from werkzeug.utils import redirect
    from werkzeug.wrappers import Request, Response

    state = {"now": 1, "plan": None, "seen": []}
    real_dt = whttp.datetime

    class _Meta(type):  # isinstance(x, datetime) inside werkzeug.http must keep accepting ordinary datetimes
        def __instancecheck__(cls, inst):
            return isinstance(inst, real_dt)

    class ModelClock(real_dt, metaclass=_Meta):  # dump_cookie derives Expires from datetime.now() when only max_age is given
        @classmethod
        def now(cls, tz=None):
            return _jar_base() + timedelta(hours=state["now"])

    def app(environ, start_response):
        req = Request(environ)
        state["seen"].append(_pairs(req.cookies))
        plan, state["plan"] = state["plan"], None
        resp = redirect(text(plan["rp2"])) if plan and plan.get("redirect") else Response("ok")
        resp.max_cookie_size = 0
        if plan and plan.get("sc"):
            a = plan["sc"]
            resp.set_cookie(text(a["name"]), text(a["val"]), domain=text(a["domattr"]) or None, path=text(a["pathattr"]) or None, **_sc_kwargs(a))
        return resp(environ, start_response)

    doms, paths, names = set(), {"/"}, set()
    for s in steps:
        a = s["a"]
        doms.update(x for x in (text(a["host"]), text(a["domattr"]), text(a["dom"])) if x)
        for p in (text(a["rp"]), text(a["rp2"]), text(a["pathattr"]), text(a["path"])):
            if p:
                paths |= _path_prefixes(p)
        if a["name"]:
            names.add(text(a["name"]))
    lines = [{"op": "init", "a": dict(JAR_A), "sent": [], "sent2": [], "found": False, "got": dict(NO_GOT), "proj": [], "exc": ""}]
    whttp.datetime = ModelClock
    try:
        with warnings.catch_warnings():
            warnings.simplefilter("ignore")
            client = Client(app)
            for s in steps:
                op, a = s["op"], s["a"]
                ln = {"op": op, "a": a, "sent": [], "sent2": [], "found": False, "got": dict(NO_GOT), "proj": [], "exc": ""}
                try:
                    if op in ("req", "redir"):
                        state["seen"] = []
                        state["plan"] = {"sc": a if a["has_sc"] else None, "redirect": op == "redir", "rp2": a["rp2"]}
                        base = f"{'https' if a['https'] else 'http'}://{text(a['host'])}/"
                        client.get(text(a["rp"]), base_url=base, follow_redirects=op == "redir").close()
                        ln["sent"] = state["seen"][0]
                        if op == "redir":
                            ln["sent2"] = state["seen"][1]
                    elif op == "cset":
                        client.set_cookie(text(a["name"]), text(a["val"]), domain=text(a["dom"]), origin_only=a["oo"], path=text(a["path"]), **_sc_kwargs(a))
                    elif op == "cdel":
                        client.delete_cookie(text(a["name"]), domain=text(a["dom"]), path=text(a["path"]))
                    elif op == "cget":
                        ck = client.get_cookie(text(a["name"]), domain=text(a["dom"]), path=text(a["path"]))
                        if ck is not None:
                            ln["found"], ln["got"] = True, _cookie_rec(ck)
                    elif op == "tick":
                        state["now"] += 1
                    for d in sorted(doms):
                        for p in sorted(paths):
                            for n in sorted(names):
                                ck = client.get_cookie(n, domain=d, path=p)
                                if ck is not None:
                                    ln["proj"].append(_cookie_rec(ck))
                except Exception as e:
                    ln["exc"] = type(e).__name__
                lines.append(ln)
    finally:
        whttp.datetime = real_dt
    return lines


def jar_step_from_model(act):
    """a transition label exported by MCClientJar -> harness step"""
    op = act["op"]
    if op in ("req", "redir"):
        sc = act["sc"]
        return {"op": op, "a": jar_a(host=act["host"], rp=act["rp"], rp2=act.get("rp2", []), has_sc=act.get("has_sc", True), name=sc["name"], val=sc["val"],
                                     domattr=sc["domattr"], pathattr=sc["pathattr"], ma=sc["ma"], exp=sc["exp"], secure=sc["secure"],
                                     httponly=sc["httponly"], ss=sc["ss"])}
    if op == "cset":
        a = act["a"]
        return {"op": op, "a": jar_a(name=a["name"], val=a["val"], dom=a["dom"], path=a["path"], oo=a["oo"], ma=a["ma"], exp=a["exp"],
                                     secure=a["secure"], httponly=a["httponly"], ss=a["ss"])}
    if op == "cdel":
        return {"op": op, "a": jar_a(name=act["name"], dom=act["dom"], path=act["path"])}
    return {"op": "tick", "a": jar_a()}


JAR_HOSTS = ["a.test", "sub.a.test", "deep.sub.a.test", "ba.test", "b.test", "localhost"]
JAR_PATHS = ["/", "/app", "/app/", "/app/x", "/app/x/y", "/apple", "/a"]
JAR_NAMES = ["n", "m", "Path"]
JAR_VALUES = ["1", "2", "3", "a;b", 'é "q"', " sp ", "", "x=y", "\x1a\\", "; Secure", "😀,"]
JAR_LIVES = [(ABSENT, ABSENT), (ABSENT, ABSENT), (0, ABSENT), (ABSENT, EPOCH), (0, EPOCH), (1, ABSENT), (2, ABSENT), (3, 0), (ABSENT, 0), (ABSENT, 2),
             (ABSENT, 6), (-1, ABSENT), (2, 9)]


def rand_jar_history(seed):
    rng = random.Random(seed)
    hosts = rng.sample(JAR_HOSTS, rng.choice([1, 2, 3]))
    if rng.random() < 0.6 and "a.test" not in hosts:
        hosts.append("a.test")
    steps = []
    known = []  # (name, domain, path) of cookies probably stored: delete / get mostly aim at these

    def life_flags():
        ma, exp = rng.choice(JAR_LIVES)
        return dict(ma=ma, exp=exp, secure=rng.random() < 0.2, httponly=rng.random() < 0.3, ss=cps(rng.choice(["", "", "Strict", "Lax", "None"])))

    for _ in range(rng.choice([2, 4, 6, 9, 12])):
        r = rng.random()
        host = rng.choice(hosts)
        if r < 0.55:
            a = jar_a(host=cps(host), rp=cps(rng.choice(JAR_PATHS)), https=rng.random() < 0.3)
            op = "req"
            if r < 0.10:
                op, a["rp2"] = "redir", cps(rng.choice(JAR_PATHS))
            if op == "redir" or rng.random() < 0.6:
                parents = [host] + [host[i + 1:] for i, c in enumerate(host) if c == "." and "." in host[i + 1:]]
                a.update(has_sc=True, name=cps(rng.choice(JAR_NAMES)), val=cps(rng.choice(JAR_VALUES)),
                         domattr=cps(rng.choice(parents)) if rng.random() < 0.5 else [], pathattr=cps(rng.choice(JAR_PATHS)) if rng.random() < 0.5 else [],
                         **life_flags())
            steps.append({"op": op, "a": a})
            if a["has_sc"] and a["pathattr"]:
                known.append((a["name"], a["domattr"] or a["host"], a["pathattr"]))
        elif r < 0.67:
            steps.append({"op": "cset", "a": jar_a(name=cps(rng.choice(JAR_NAMES)), val=cps(rng.choice(JAR_VALUES)), dom=cps(host),
                                                   path=cps(rng.choice(JAR_PATHS)), oo=rng.random() < 0.6, **life_flags())})
            known.append((steps[-1]["a"]["name"], steps[-1]["a"]["dom"], steps[-1]["a"]["path"]))
        elif r < 0.85:
            n, d, p = rng.choice(known) if known and rng.random() < 0.7 else (cps(rng.choice(JAR_NAMES)), cps(host), cps(rng.choice(JAR_PATHS)))
            steps.append({"op": "cdel" if r < 0.75 else "cget", "a": jar_a(name=n, dom=d, path=p)})
        else:
            steps.append({"op": "tick", "a": jar_a()})
    return steps


# ====================================================================== repository-test traces (harness/pytest_cookie_plugin.py)
def _is_token(s):
    return bool(s) and all(c.isascii() and (c.isalnum() or c in "!#$%&'*+-.^_`|~") for c in s)


IDNA_KNOWN = {"☃", "b\xfccher", "例え", "m\xfcnchen"}


def _instant(v):
    """datetime / number -> whole seconds since the epoch (naive = UTC), None if not representable"""
    import math

    if isinstance(v, bool):
        return None
    if isinstance(v, datetime):
        if v.tzinfo is None:
            v = v.replace(tzinfo=timezone.utc)
        d = v - datetime(1970, 1, 1, tzinfo=timezone.utc)
        return d.days * 86400 + d.seconds
    if isinstance(v, (int, float)):
        if isinstance(v, float) and not math.isfinite(v):
            return None
        return math.floor(v)
    return None


def attrs_from_call(b):
    """bound dump_cookie arguments (dict) -> (attribute record, reason); reason != '' = outside the judged domain"""
    a = dict(NO_ATTRS)
    key, value = b.get("key"), b.get("value", "")
    if not isinstance(key, str) or not _is_token(key):
        return a, "key is not an RFC 7230 token"
    if not isinstance(value, str) or any(0xD800 <= ord(c) <= 0xDFFF for c in value):
        return a, "value is not a text of scalar values"
    if len(value) > 1000:
        return a, "value longer than 1000 characters (cost of the recursive judge operators)"
    path, domain = b.get("path", "/"), b.get("domain")
    if path is not None:
        if not isinstance(path, str) or path == "":
            return a, "path empty or not text"
        a["path_set"], a["path"] = True, cps(path)
    if domain is not None:
        if not isinstance(domain, str) or domain == "":
            return a, "domain empty or not text"
        host = domain.partition(":")[0].lstrip(".")
        if any(c in host for c in ";, \t\r\n\u3002\uff0e\uff61") or any(lab == "" for lab in host.split(".")):
            return a, "domain not a host name"
        try:
            a["idna"] = idna_log(domain)
        except UnicodeError:
            return a, "domain label the IDNA codec rejects"
        a["dom_set"], a["domain"] = True, cps(domain)
    ma = b.get("max_age")
    if ma is not None:
        if isinstance(ma, timedelta):
            if ma.microseconds and ma < timedelta(0):
                return a, "negative fractional max_age"
            n, kind = int(ma.total_seconds()), "td"
        elif isinstance(ma, int) and not isinstance(ma, bool):
            n, kind = ma, "int"
        else:
            return a, "max_age neither int nor timedelta"
        a.update(ma_kind=kind, ma_neg=n < 0, ma_digits=[int(c) for c in str(abs(n))])
    ex = b.get("expires")
    if ex is not None:
        if isinstance(ex, str):
            a.update(exp_kind="str", exp_text=cps(ex))
        else:
            t = _instant(ex)
            if t is None or not (-62135596800 <= t <= 253402300799):
                return a, "expires not representable"
            a.update(exp_kind="dt" if isinstance(ex, datetime) else "ts", exp_days=t // 86400, exp_secs=t % 86400)
    ss = b.get("samesite")
    if ss is not None:
        if not isinstance(ss, str):
            return a, "samesite not text"
        a["ss_set"], a["samesite"] = True, cps(ss)
    a["sync"] = bool(b.get("sync_expires", True))
    a["secure"], a["httponly"], a["partitioned"] = bool(b.get("secure")), bool(b.get("httponly")), bool(b.get("partitioned"))
    return a, ""


def dump_line_from_record(rec):
    """a dump_cookie call recorded in the repository's tests -> CookieTrace line; the parse-back is performed here, on the recorded header"""
    from werkzeug import http
    from werkzeug.sansio import http as sansio_http

    line = {"op": "dump", "flow": "repo-tests:" + rec["via"], "key": cps(rec["key"]), "value": cps(rec["value"]), "a": rec["a"], "exc": rec["exc"],
            "hdr": cps(rec["hdr"]), "full": [], "req": [], "ps": [], "pe": [], "perr": "", "jx": dict(NO_JX),
            "t0d": rec["t0"] // 86400, "t0s": rec["t0"] % 86400, "t1d": rec["t1"] // 86400, "t1s": rec["t1"] % 86400}
    if rec["exc"] == "":
        req = rec["hdr"].split(";", 1)[0]
        line["req"] = cps(req)
        try:
            line["full"] = _pairs(sansio_http.parse_cookie(rec["hdr"]))
            line["ps"] = _pairs(sansio_http.parse_cookie(req))
            line["pe"] = _pairs(http.parse_cookie({"HTTP_COOKIE": req}))
        except Exception as e:
            line["perr"] = type(e).__name__
    return line


JAR_CLAMP = 2_000_000_000


def jar_time(t, base):
    """absolute seconds -> seconds relative to the session base, clamped into TLC's integers, avoiding the sentinels"""
    if t == 0:
        return EPOCH
    r = max(min(t - base, JAR_CLAMP), -JAR_CLAMP)
    return -3 if r in (ABSENT, EPOCH) else r


def jar_sc_from_dump(b, base):
    """bound dump_cookie arguments -> the Set-Cookie part of a ClientJar argument record (or a reason why the session stops being judged)"""
    import email.utils

    key, value = b.get("key"), b.get("value", "")
    if not isinstance(key, str) or not isinstance(value, str) or key == "":
        return None, "cookie name / value not text"
    out = {"name": cps(key), "val": cps(value), "domattr": [], "pathattr": [], "ma": ABSENT, "exp": ABSENT, "ss": []}
    dom, path = b.get("domain"), b.get("path", "/")
    if dom:
        if not (dom.isascii() and dom == dom.lower() and ":" not in dom and not dom.startswith(".")):
            return None, "domain is normalised by dump_cookie (port / dot / case / IDNA)"
        out["domattr"] = cps(dom)
    if path is not None:
        if not path or any(not (c.isascii() and (c.isalnum() or c in "/_.-~")) for c in path):
            return None, "path is quoted by dump_cookie"
        out["pathattr"] = cps(path)
    ma = b.get("max_age")
    if ma is not None:
        n = int(ma.total_seconds()) if isinstance(ma, timedelta) else ma
        if isinstance(n, bool) or not isinstance(n, int) or abs(n) > 10**8:
            return None, "max_age not a small int"
        out["ma"] = n
    ex = b.get("expires")
    if ex is not None:
        if isinstance(ex, str):
            try:
                ex = email.utils.parsedate_to_datetime(ex)
            except Exception:
                return None, "expires text not a date"
        t = _instant(ex)
        if t is None:
            return None, "expires not representable"
        out["exp"] = jar_time(t, base)
    ss = b.get("samesite")
    if ss is not None:
        if not isinstance(ss, str) or ss.title() not in ("Strict", "Lax", "None"):
            return None, "samesite invalid"
        out["ss"] = cps(ss.title())
    out["secure"] = bool(b.get("secure")) or bool(b.get("partitioned"))
    out["httponly"] = bool(b.get("httponly"))
    return out, ""


def jar_cookie_rec(ck, base):
    """a werkzeug.test.Cookie -> projected record in seconds relative to the session base"""
    exp = ABSENT
    if ck.expires is not None:
        exp = jar_time(_instant(ck.expires), base)
    ma = ABSENT if ck.max_age is None else max(min(ck.max_age, JAR_CLAMP), -JAR_CLAMP)
    return {"dom": cps(ck.domain), "path": cps(ck.path), "name": cps(ck.decoded_key), "val": cps(ck.decoded_value), "ho": bool(ck.origin_only),
            "secure": bool(ck.secure), "httponly": bool(ck.http_only), "ss": cps(ck.same_site or ""), "ma": ma, "exp": exp}


# ====================================================================== attribute grammar products (Domain, Path)
DOM_ASCII = ["example", "com", "sub", "a-1", "localhost"]
DOM_MIXED = ["ExAmple", "COM", "Sub", "LocalHost"]
DOM_NONASCII = ["b\xfccher", "\u4f8b\u3048", "\u043f\u0440\u0438\u043c\u0435\u0440", "\u2603", "B\xdcCHER", "m\xfcnchen"]   # first / inner labels
DOM_IDN_TLD = ["\u30c6\u30b9\u30c8", "\u0440\u0444", "\u4e2d\u56fd", "\u0939\u093f\u0928\u094d\u0926\u0940"]                  # last label (IDN TLDs)
DOM_FLOWS = ["dump_cookie", "response", "response-delete", "client"]


def domain_product(thorough=False):
    """domain arguments as a product of independent features: leading dot x port x number of labels (1-3) x script pattern
    (ASCII / non-ASCII first label / non-ASCII last label = IDN TLD / all non-ASCII / mixed-case ASCII) x call path."""
    cases, n = [], 0
    for nlab in (1, 2, 3):
        for pattern in ("ascii", "first", "last", "all", "mixed"):
            variants = range(len(DOM_NONASCII) if thorough else 2)
            for v in variants:
                labs = []
                for i in range(nlab):
                    last, first = i == nlab - 1, i == 0
                    non = pattern == "all" or (pattern == "first" and first) or (pattern == "last" and last)
                    if non:
                        pool = DOM_IDN_TLD if (last and nlab > 1) else DOM_NONASCII
                    else:
                        pool = DOM_MIXED if pattern == "mixed" else DOM_ASCII
                    labs.append(pool[(v + i + n) % len(pool)])
                host = ".".join(labs)
                for dot in ("", ".", ".."):
                    for port in ("", ":80", ":8443") if thorough or dot != ".." else ("",):
                        for flow in DOM_FLOWS:
                            n += 1
                            a = attrs(dom_set=True, domain=cps(dot + host + port), path_set=True, path=cps("/"), idna=idna_log(host))
                            if n % 3 == 0:
                                a.update(secure=True, httponly=True)
                            if n % 4 == 0:
                                a.update(ss_set=True, samesite=cps("lax"))
                            cases.append({"key": cps("k"), "value": cps("v;" if n % 5 == 0 else "v"), "a": a, "x": {"via": flow}})
                if pattern in ("ascii", "mixed") and v >= 1:
                    break
    return cases


PATH_FEATURES = {"nonascii": "\xe9\u4f8b", "space": "a b", "semi": "x;y", "pct": "100%", "pctenc": "%41%3b", "ctl": "t\tn\n", "astral": "\U0001f600",
                 "sep": "q?r#s", "safe": "!$&'()*+,:=@", "quote": '"\\'}


def path_product(thorough=False):
    """path arguments as a product of independent features spread over 1-3 segments x call path"""
    import itertools

    names = sorted(PATH_FEATURES)
    combos = [c for r in (1, 2, 3) for c in itertools.combinations(names, r)] if thorough else \
             [c for r in (1, 2) for c in itertools.combinations(names, r)] + [tuple(names[i:i + 3]) for i in range(len(names) - 2)]
    cases, n = [], 0
    for combo in combos:
        for nseg in (1, 2, 3):
            segs = ["" for _ in range(nseg)]
            for i, f in enumerate(combo):
                segs[i % nseg] += PATH_FEATURES[f]
            path = "/" + "/".join(sg or "p" for sg in segs) + ("/" if n % 4 == 0 else "")
            for flow in ("dump_cookie", "response", "client") if thorough else (("dump_cookie", "response", "client")[n % 3],):
                a = attrs(path_set=True, path=cps(path))
                if n % 2:
                    a.update(dom_set=True, domain=cps("example.com"))
                cases.append({"key": cps("k"), "value": cps("v"), "a": a, "x": {"via": flow}})
            n += 1
    return cases


# ====================================================================== Expires / Max-Age value kinds x process time zone
TIME_TZSPECS = ["naive", "utc", "+05:30", "-08:00", "+14:00", "-12:00", "zone:America/New_York", "zone:Europe/Berlin", "zone:Asia/Kolkata",
                "zone:Australia/Lord_Howe"]
PROC_TZS = ["UTC", "EST+5", "Asia/Kolkata"]


def _time_instants():
    """(days, secs) of instants at DST edges of the zones above (+-1 s), calendar corners, and ordinary times"""
    utc = timezone.utc
    edges = [datetime(2026, 3, 8, 7, 0, tzinfo=utc), datetime(2026, 11, 1, 6, 0, tzinfo=utc), datetime(2026, 3, 29, 1, 0, tzinfo=utc),
             datetime(2026, 10, 25, 1, 0, tzinfo=utc), datetime(2026, 4, 4, 15, 0, tzinfo=utc), datetime(2026, 10, 3, 15, 30, tzinfo=utc)]
    pts = []
    for e in edges:
        pts += [e - timedelta(seconds=1), e, e + timedelta(seconds=1)]
    pts += [datetime(1970, 1, 1, 0, 0, 1, tzinfo=utc), datetime(2000, 2, 29, 23, 59, 59, tzinfo=utc), datetime(2026, 7, 15, 12, 34, 56, tzinfo=utc),
            datetime(2026, 12, 31, 23, 59, 59, tzinfo=utc), datetime(2027, 1, 1, 0, 0, 0, tzinfo=utc), datetime(2038, 1, 19, 3, 14, 8, tzinfo=utc),
            datetime(9999, 12, 30, 11, 59, 59, tzinfo=utc), datetime(2024, 2, 29, 5, 29, 59, tzinfo=utc), datetime(2026, 6, 1, 18, 30, 0, tzinfo=utc)]
    out = []
    for p in pts:
        d = p - datetime(1970, 1, 1, tzinfo=utc)
        out.append((d.days, d.seconds))
    return out


def time_product(thorough=False):
    """Expires kinds (naive / aware in several zones / timestamp int, float, 0 / string / absent) x Max-Age kinds (absent, int, timedelta,
    0, negative) x process time zone x call path.  Quick: flows and Max-Age kinds rotate; thorough: the full product of flows."""
    flows = ["dump_cookie", "response", "client"]
    mas = [("none", False, [0], 0), ("int", False, [3, 6, 0, 0], 0), ("td", False, [3, 6, 0, 1], 500000), ("int", False, [0], 0),
           ("int", True, [6, 0], 0), ("td", True, [8, 6, 4, 0, 0], 0)]
    cases, n = [], 0

    def add(a_kw, x_kw, flow):
        a = attrs(path_set=True, path=cps("/"), dom_set=True, domain=cps("example.com"), **a_kw)
        cases.append({"key": cps("k"), "value": cps("v"), "a": a, "x": dict(x_kw, via=flow, jar_lookup=flow == "client")})

    for ptz in PROC_TZS:
        for (d, s) in _time_instants():
            for spec in TIME_TZSPECS:
                kind, neg, digits, us = mas[n % len(mas)]
                for flow in flows if thorough else (flows[n % 3],):
                    add(dict(exp_kind="dt", exp_days=d, exp_secs=s, ma_kind=kind, ma_neg=neg, ma_digits=digits, sync=True),
                        {"exp_tz": spec, "proc_tz": ptz, "td_us": us}, flow)
                n += 1
        for (d, s) in [(0, 0), (0, 1), (11016, 86399), (20520, 25200), (24855, 11648), (2932895, 43199)]:
            for fl in (False, True):
                kind, neg, digits, us = mas[n % len(mas)]
                for flow in flows if thorough else (flows[n % 3],):
                    add(dict(exp_kind="ts", exp_days=d, exp_secs=s, ma_kind=kind, ma_neg=neg, ma_digits=digits, sync=True),
                        {"exp_float": fl, "proc_tz": ptz, "td_us": us}, flow)
                n += 1
        for kind, neg, digits, us in mas[1:]:            # Expires derived from the clock
            for flow in flows:
                add(dict(ma_kind=kind, ma_neg=neg, ma_digits=digits, sync=True), {"proc_tz": ptz, "td_us": us}, flow)
        add(dict(ma_kind="int", ma_neg=False, ma_digits=[6, 0], sync=False), {"proc_tz": ptz}, "dump_cookie")
        add(dict(exp_kind="str", exp_text=cps("Wed, 21 Oct 2015 07:28:00 GMT")), {"proc_tz": ptz}, "dump_cookie")
        add(dict(), {"proc_tz": ptz}, "response-delete")
        add(dict(), {"proc_tz": ptz}, "client")
    return cases
