"""Drivers / recorders for the cookie area (C13).

A *case* is JSON: {"key": [cps], "value": [cps], "a": {attribute record of spec/cookie/Cookie.tla},
"x": {harness-only call details the judge ignores}}.  The functions below perform the calls on the real
werkzeug code and record what happened (arguments, returned header, parse results, exception class names,
the jar's view).  Nothing here decides a verdict: spec/cookie/CookieTrace.tla does.
"""
from __future__ import annotations

import random
import time
from datetime import datetime, timedelta, timezone

from .core import cps


def text(cp) -> str:
    return "".join(chr(c) for c in cp)


NO_ATTRS = {
    "path_set": False, "path": [], "dom_set": False, "domain": [], "ma_kind": "none", "ma_neg": False, "ma_digits": [0],
    "exp_kind": "none", "exp_days": 0, "exp_secs": 0, "exp_text": [], "sync": False, "secure": False, "httponly": False,
    "ss_set": False, "samesite": [], "partitioned": False,
}


def attrs(**kw):
    a = dict(NO_ATTRS)
    a.update(kw)
    return a


def _ma_value(a, x):
    n = int("".join(str(d) for d in a["ma_digits"]))
    if a["ma_neg"]:
        n = -n
    if a["ma_kind"] == "td":
        us = x.get("td_us", 0) if n >= 0 else 0  # a fraction of a second is dropped (whole seconds are documented)
        return timedelta(seconds=n, microseconds=us)
    return n


def call_kwargs(a, x, *, for_response=False):
    kw = {"path": text(a["path"]) if a["path_set"] else None}
    if a["dom_set"]:
        kw["domain"] = text(a["domain"])
    if a["ma_kind"] != "none":
        kw["max_age"] = _ma_value(a, x)
    if a["exp_kind"] == "dt":
        tz = None if x.get("exp_naive") else timezone.utc
        kw["expires"] = datetime(1970, 1, 1, tzinfo=tz) + timedelta(days=a["exp_days"], seconds=a["exp_secs"])
    elif a["exp_kind"] == "ts":
        ts = a["exp_days"] * 86400 + a["exp_secs"]
        kw["expires"] = float(ts) if x.get("exp_float") else ts
    elif a["exp_kind"] == "str":
        kw["expires"] = text(a["exp_text"])
    kw["secure"] = a["secure"]
    kw["httponly"] = a["httponly"]
    if a["ss_set"]:
        kw["samesite"] = text(a["samesite"])
    kw["partitioned"] = a["partitioned"]
    if not for_response:
        kw["sync_expires"] = a["sync"]
    return kw


def _clock():
    t = int(time.time())
    return t // 86400, t % 86400


def _pairs(md):
    return [[cps(k), cps(v)] for k, v in md.items(multi=True)]


def run_dump(case):
    """dump_cookie (or Response.set_cookie) -> header; the header parsed as a request cookie three ways."""
    import warnings

    from werkzeug import http
    from werkzeug.sansio import http as sansio_http

    key, value, x = text(case["key"]), text(case["value"]), case.get("x", {})
    a = dict(case["a"])
    via = x.get("via", "dump_cookie")
    if via == "response":
        a["sync"] = True  # Response.set_cookie has no sync_expires switch
    line = {"op": "dump", "flow": via, "key": case["key"], "value": case["value"], "a": a, "exc": "", "hdr": [],
            "full": [], "req": [], "ps": [], "pe": [], "perr": ""}
    line["t0d"], line["t0s"] = _clock()
    hdr = None
    try:
        with warnings.catch_warnings():
            warnings.simplefilter("ignore")
            if via == "response":
                from werkzeug.wrappers import Response

                resp = Response()
                resp.max_cookie_size = 0
                resp.set_cookie(key, value, **call_kwargs(a, x, for_response=True))
                hdr = resp.headers.getlist("Set-Cookie")[0]
            else:
                hdr = http.dump_cookie(key, value, max_size=0, **call_kwargs(a, x))
    except Exception as e:
        line["exc"] = type(e).__name__
    line["t1d"], line["t1s"] = _clock()
    if hdr is None:
        return line
    line["hdr"] = cps(hdr)
    # the user agent: the cookie pair is the text before the first ';' (RFC 6265 5.2); it is sent back verbatim
    req = hdr.split(";", 1)[0]
    line["req"] = cps(req)
    try:
        line["full"] = _pairs(sansio_http.parse_cookie(hdr))
        line["ps"] = _pairs(sansio_http.parse_cookie(req))
        line["pe"] = _pairs(http.parse_cookie({"HTTP_COOKIE": req}))
    except Exception as e:
        line["perr"] = type(e).__name__
    return line


def jar_eligible(case):
    a, x = case["a"], case.get("x", {})
    if a["path_set"]:
        p = text(a["path"])
        if not p.startswith("/") or any(not (c.isascii() and (c.isalnum() or c in "/_.-")) for c in p):
            return False
    if a["dom_set"] and not x.get("jar_host"):
        return False
    if a["exp_kind"] == "str":
        return False
    return True


def run_jar(case):
    """Response.set_cookie -> test client jar -> Cookie header of the next request -> request.cookies."""
    import warnings

    key, value, x = text(case["key"]), text(case["value"]), case.get("x", {})
    a = dict(case["a"])
    a["sync"] = True
    host = x.get("jar_host") or "localhost"
    path = text(a["path"]) if a["path_set"] else "/"
    line = {"op": "jar", "flow": "client-jar", "key": case["key"], "value": case["value"], "a": a, "host": cps(host), "exc": "",
            "found": False, "dk": [], "dv": [], "echoed": [], "jsecure": False, "jhttponly": False, "jss_set": False,
            "jsamesite": [], "jpath": [], "jdomain": [], "jma_set": False, "jma_neg": False, "jma_digits": [0]}
    try:
        from werkzeug.test import Client
        from werkzeug.wrappers import Request, Response

        seen = []
        kw = call_kwargs(a, x, for_response=True)

        def app(environ, start_response):
            req = Request(environ)
            seen.append(_pairs(req.cookies))
            resp = Response("ok")
            resp.max_cookie_size = 0
            if len(seen) == 1:
                resp.set_cookie(key, value, **kw)
            return resp(environ, start_response)

        with warnings.catch_warnings():
            warnings.simplefilter("ignore")
            client = Client(app)
            base = f"http://{host}/"
            client.get(path, base_url=base).close()
            client.get(path, base_url=base).close()
            ck = client.get_cookie(key, domain=host, path=path)
        line["echoed"] = seen[1]
        if ck is not None:
            line.update(found=True, dk=cps(ck.decoded_key), dv=cps(ck.decoded_value), jsecure=bool(ck.secure),
                        jhttponly=bool(ck.http_only), jss_set=ck.same_site is not None, jsamesite=cps(ck.same_site or ""),
                        jpath=cps(ck.path), jdomain=cps(ck.domain), jma_set=ck.max_age is not None)
            if ck.max_age is not None:
                line["jma_neg"] = ck.max_age < 0
                line["jma_digits"] = [int(c) for c in str(abs(ck.max_age))]
    except Exception as e:
        line["exc"] = type(e).__name__
    return line


# ---------------------------------------------------------------------- generators (seeded)
KEYS = ["k", "session", "a-b", "Path", "secure", "$Version", "x.y", "~", "!#$%&'*+-.^_`|~", "K1", "max-age", "0"]
SPECIAL = ['"', ";", ",", "\\", "=", " ", "\t", "\r", "\n", "\x00", "\x7f", "%"]
ATTACKS = ["; Secure", "x\r\nSet-Cookie: a=b", '"', "\\", "\\073", 'a\\"', '"quoted"', " lead", "trail ", "=", "a=b; c=d", "%3B",
           "\\0731", "\\", "\\\\", '\\"', "a;Path=/admin", "a\"; Domain=evil.example; x=\"", "\x1f", "\x1a;\x1b", "é;", "\\400",
           "\\08", "'", "a b", " ", "\x85", "\xa0x\xa0", "", "x" * 300 + ";"]
# (domain text, ASCII host a request must use so that the jar returns the cookie; None = not exercised through the jar:
# the test client compares the IRI form of the request host with the A-label Domain attribute, and is case sensitive)
DOMAINS = [("example.com", "example.com"), (".example.com", "example.com"), ("example.com:8080", "example.com"),
           ("☃.com", None), ("sub.b\xfccher.example", None), ("localhost", "localhost"),
           ("..a.b.example.org:1", "a.b.example.org"), ("例え.jp", None), ("m\xfcnchen.example", None),
           ("Example.COM", None), ("127.0.0.1:5000", "127.0.0.1")]
PATHS = ["/", "/app", "/a/b.c-d_e", "/a b", "/;x", "/\xe9", "/%41", "/a,b=c", "/p\n", "/\U0001f600", "/a;Secure", "/x\x7f\x00", "/q?r#s",
         "/" + "seg/" * 20]
SAMESITES = ["strict", "lax", "none", "Strict", "LAX", "nOnE", "bad", "Strict; Secure", ""]


def _rand_value(rng: random.Random):
    r = rng.random()
    if r < 0.12:
        return rng.choice(ATTACKS)
    n = rng.choice([0, 1, 1, 2, 2, 3, 4, 6, 9, 14, 40])
    out = []
    for _ in range(n):
        r = rng.random()
        if r < 0.30:
            out.append(rng.choice(SPECIAL))
        elif r < 0.45:
            out.append(chr(rng.randrange(0x01, 0x20)))
        elif r < 0.65:
            out.append(rng.choice("abcXYZ019!#$&'()*+-./:<>?@[]^_`{|}~"))
        elif r < 0.75:
            out.append(chr(rng.randrange(0x80, 0x100)))
        elif r < 0.85:
            out.append(rng.choice("\xe9߿ࠀ€  　﻿�￿퟿"))
        elif r < 0.93:
            out.append(chr(rng.choice([0x10000, 0x1F600, 0x10FFFF, rng.randrange(0x10000, 0x110000)])))
        else:
            c = rng.randrange(0, 0x110000)
            out.append(chr(c if not 0xD800 <= c <= 0xDFFF else 0xFFFD))
    return "".join(out)


def _rand_attrs(rng: random.Random):
    a, x = dict(NO_ATTRS), {}
    if rng.random() < 0.75:
        a["path_set"], a["path"] = True, cps(rng.choice(PATHS))
    if rng.random() < 0.5:
        d, host = rng.choice(DOMAINS)
        a["dom_set"], a["domain"] = True, cps(d)
        if host:
            x["jar_host"] = host
    r = rng.random()
    if r < 0.55:
        n = rng.choice([0, 1, 59, 3600, 86400, 31536000, 99999999, rng.randrange(0, 10**6)])
        neg = rng.random() < 0.15 and n > 0
        a.update(ma_kind=rng.choice(["int", "int", "td"]), ma_neg=neg, ma_digits=[int(c) for c in str(n)])
        x["td_us"] = rng.choice([0, 0, 1, 500000, 999999])
    r = rng.random()
    if r < 0.25:
        a.update(exp_kind=rng.choice(["dt", "ts"]), exp_days=rng.choice([0, 1, 59, 60, 365, 789, 10956, 11016, 11017, 19358, 24836, 24837,
                                                                        47540, 2932896, rng.randrange(0, 2932897), rng.randrange(0, 40000)]),
                 exp_secs=rng.choice([0, 1, 59, 60, 3599, 3600, 43200, 86399, rng.randrange(0, 86400)]))
        x["exp_naive"] = rng.random() < 0.4
        x["exp_float"] = rng.random() < 0.3
    elif r < 0.32:
        a.update(exp_kind="str", exp_text=cps(rng.choice(["Thu, 01 Jan 2030 00:00:00 GMT", "Wed, 21 Oct 2015 07:28:00 GMT"])))
    a["sync"] = rng.random() < 0.7
    a["secure"] = rng.random() < 0.4
    a["httponly"] = rng.random() < 0.4
    a["partitioned"] = rng.random() < 0.3
    if rng.random() < 0.5:
        a["ss_set"], a["samesite"] = True, cps(rng.choice(SAMESITES))
    x["via"] = rng.choice(["dump_cookie", "dump_cookie", "response"])
    return a, x


def rand_case(seed):
    rng = random.Random(seed)
    a, x = _rand_attrs(rng) if rng.random() < 0.7 else (dict(NO_ATTRS), {"via": rng.choice(["dump_cookie", "response"])})
    return {"key": cps(rng.choice(KEYS)), "value": cps(_rand_value(rng)), "a": a, "x": x}


BOUNDARY = sorted(set(list(range(0, 0x180)) + [0x7FF, 0x800, 0x1680, 0x1FFF, 0x2000, 0x200A, 0x200B, 0x2028, 0x2029, 0x202F, 0x205F, 0x3000,
                                                0xD7FF, 0xE000, 0xFEFF, 0xFFFD, 0xFFFF, 0x10000, 0x1F600, 0x10FFFF]))


def sweep_cases():
    """every single code point of BOUNDARY alone, between letters, doubled, and next to a quote / backslash"""
    out = []
    for c in BOUNDARY:
        ch = chr(c)
        for v in (ch, "a" + ch + "b", ch + ch, '"' + ch, ch + "\\", " " + ch + " "):
            out.append({"key": cps("k"), "value": cps(v), "a": dict(NO_ATTRS), "x": {"via": "dump_cookie"}})
    return out


def classes(value_cps):
    """input-class tag of a value (part of a violation key; not a verdict)"""
    tags = set()
    for c in value_cps:
        if c in (0x21, *range(0x23, 0x2C), *range(0x2D, 0x3B), *range(0x3C, 0x5C), *range(0x5D, 0x7F)):
            continue
        tags.add("sp" if c == 0x20 else "dquote" if c == 0x22 else "comma" if c == 0x2C else "semicolon" if c == 0x3B else
                 "backslash" if c == 0x5C else "ctl00-19" if c < 0x1A else "ctl1a-1f" if c < 0x20 else "del" if c == 0x7F else
                 "latin1" if c < 0x100 else "bmp" if c < 0x10000 else "astral")
    return "+".join(sorted(tags)) or "cookie-octets"


# ---------------------------------------------------------------------- request cookie strings (model drift only)
PARSE_ATOMS = ["a", "b", "k", "=", "=", ";", "; ", " ", "\t", '"', '"', "\\", "\\073", "\\\"", "\\\\", "\\400", "\\08", "\n", "\r\n", "\x0b", "\x1c",
               "\xa0", " ", "é", "\\303\\251", "\\303", ",", "==", ";;", ' "x" ', "v=1", "\x00", "😀"]


def rand_cookie_string(seed):
    rng = random.Random(seed)
    return "".join(rng.choice(PARSE_ATOMS) for _ in range(rng.choice([1, 2, 3, 4, 6, 9, 14])))


def run_parse(s):
    """an arbitrary Cookie header through sansio parse_cookie; compared with the scanner model (drift only)"""
    from werkzeug.sansio import http as sansio_http

    line = {"op": "parse", "flow": "parse_cookie", "hdr": cps(s), "got": [], "perr": ""}
    try:
        line["got"] = _pairs(sansio_http.parse_cookie(s))
    except Exception as e:
        line["perr"] = type(e).__name__
    return line
