"""pytest plugin (loaded with `-p harness.pytest_response_plugin`) that records what the repository's own
tests hand to a WSGI server (C05):

* every `Response.get_wsgi_response(environ)` (and therefore `Response.__call__`, exception responses,
  redirect(), send_file(), the test client): the request method, the status line as set, the body shape and
  items when the body is a list / tuple, whether werkzeug computed the Content-Length (see below), the
  produced status line and header list, and -- through the *unchanged* returned iterable -- the chunks the test
  pulled, whether it reached the end, how often it closed it and how often each registered close callback
  then ran;
* every outermost mutator call on a `Headers` object: the header list before, the call, the exception class,
  the header list after.

Transparency: the returned app_iter keeps its identity and type.  For a `ClosingIterator` the instance's
`_next` callable is replaced by a forwarding recorder and a recorder is appended to its callbacks; other
iterables (direct passthrough) are not touched, their body is "not observed".  Registered close callbacks are
replaced in `_on_close` by forwarding counters.  Nothing in /repo is modified; no verdict is taken here: the
records are converted to `rfin` / `hdr` trace lines by harness/props/c05.py and judged by ResponseTrace.tla.

"werkzeug computed the Content-Length": the header is absent before get_wsgi_response and present after, or
it is the value `set_data` stored for the very list object that is still the body.  Every other
Content-Length counts as set by the application (no claim)."""
from __future__ import annotations

import json
import os
import threading

_fin: list = []
_hdr: dict = {}       # dedup key -> [line, count]
_skipped: dict = {}
_tl = threading.local()
MAX_HDR = 60000


def _skip(reason):
    _skipped[reason] = _skipped.get(reason, 0) + 1


def _cps(s):
    return [ord(c) for c in s]


def _hlist(headers):
    out = []
    for item in list(headers):
        k, v = item[0], item[1]
        out.append({"n": _cps(str(k)), "v": _cps(v if isinstance(v, str) else repr(v)), "s": type(v) is str and type(k) is str})
    return out


def _test():
    return os.environ.get("PYTEST_CURRENT_TEST", "")[:160]


# ---------------------------------------------------------------------------- finalisation
def _items(body):
    if type(body) not in (list, tuple):
        return None
    out = []
    for x in body:
        if type(x) is str:
            if any(0xD800 <= ord(c) <= 0xDFFF for c in x):
                return None
            out.append({"k": "s", "v": _cps(x)})
        elif type(x) in (bytes, bytearray):
            out.append({"k": "b", "v": list(x)})
        else:
            return None
    return out


def _wrap_get_wsgi_response(orig, ClosingIterator):
    def get_wsgi_response(self, environ):
        if getattr(_tl, "busy", False):
            return orig(self, environ)
        rec = None
        try:
            before = [(k.lower(), v) for k, v in list(self.headers)]
            cl_before = [v for k, v in before if k == "content-length"]
            mark = getattr(self, "_verif_set_data", None)
            body = self.response
            rec = {
                "test": _test(), "method": str(environ.get("REQUEST_METHOD", "")), "status_in": _cps(str(self.status)),
                "shape": type(body).__name__, "items": _items(body), "pt": bool(self.direct_passthrough),
                "cl_before": len(cl_before), "set_data_cl": bool(mark and cl_before == [mark[1]] and mark[0] is body),
                "set_data_stale": bool(mark and cl_before == [mark[1]] and mark[0] is not body),
                "hdrs": [{"n": _cps(k), "v": _cps(v)} for k, v in list(self.headers) if type(k) is str and type(v) is str],
                "ac": bool(self.autocorrect_location_header), "pulled": [], "allbytes": True, "exhausted": False, "closes": 0,
                "cb": [], "observed": False, "exc": "", "status": [], "headers": [],
            }
            counts = rec["cb"]
            for i, fn in enumerate(list(self._on_close)):
                if getattr(fn, "_verif_counter", None) is None:
                    def counted(fn=fn, cell=[0]):
                        cell[0] += 1
                        return fn()
                    counted._verif_counter = counted.__defaults__[1]
                    counted._verif_orig = fn
                    self._on_close[i] = counted
                else:
                    fn._verif_counter[0] = 0
            cells = [fn._verif_counter for fn in self._on_close]
        except Exception:
            _skip("could not project the response before finalisation")
            return orig(self, environ)
        try:
            app_iter, status, headers = orig(self, environ)
        except Exception as e:
            rec["exc"] = type(e).__name__
            _fin.append(rec)
            raise
        try:
            rec["status"] = _cps(str(status))
            rec["headers"] = _hlist(headers)
            if type(app_iter) is ClosingIterator:
                inner = app_iter._next

                def recording_next():
                    try:
                        chunk = inner()
                    except StopIteration:
                        rec["exhausted"] = True
                        raise
                    if type(chunk) in (bytes, bytearray):
                        rec["pulled"].append(list(chunk))
                    else:
                        rec["allbytes"] = False
                        rec["pulled"].append(list(str(chunk).encode("utf-8", "replace")))
                    return chunk

                def closed():
                    rec["closes"] += 1
                    rec["cb"] = [c[0] for c in cells]
                app_iter._next = recording_next
                app_iter._callbacks.append(closed)
                rec["observed"] = True
            _fin.append(rec)
        except Exception:
            _skip("could not instrument the returned iterable")
        return app_iter, status, headers
    return get_wsgi_response


def _wrap_set_data(orig):
    def set_data(self, value):
        rv = orig(self, value)
        try:
            cl = self.headers.get("Content-Length")
            self._verif_set_data = (self.response, cl) if cl is not None else None
        except Exception:
            pass
        return rv
    return set_data


# ---------------------------------------------------------------------------- Headers mutators
C0 = {"m": "", "n": [], "i": 0, "j": 0, "vs": [], "ps": [], "kn": [], "kv": [], "form": ""}


class Unrep(Exception):
    pass


def _text(v):
    s = v if isinstance(v, str) else str(v)
    if any(0xD800 <= ord(c) <= 0xDFFF for c in s):
        raise Unrep("surrogate in a value")
    return _cps(s)


def _name(k):
    if type(k) is not str:
        raise Unrep("header name that is not a str")
    return _cps(k)


def _pairs_arg(arg, allow_multi):
    """-> (form, ps) for the argument of extend / update"""
    from werkzeug.datastructures import Headers, MultiDict

    if isinstance(arg, Headers):
        if not allow_multi:
            keys = list(arg.keys())
            return "dictlist", [{"n": _name(k), "vs": [_text(v) for v in arg.getlist(k)]} for k in keys]
        return "pairs", [{"n": _name(k), "vs": [_text(v)]} for k, v in list(arg)]
    if isinstance(arg, MultiDict):
        raise Unrep("MultiDict argument")
    if type(arg) is dict:
        lists = [type(v) in (list, tuple, set) for v in arg.values()]
        if any(type(v) is set and len(v) > 1 for v in arg.values()):
            raise Unrep("set argument (iteration order)")
        if all(lists) and lists:
            return "dictlist", [{"n": _name(k), "vs": [_text(x) for x in v]} for k, v in arg.items()]
        if not any(lists):
            return "dict", [{"n": _name(k), "vs": [_text(v)]} for k, v in arg.items()]
        raise Unrep("dict argument mixing scalars and lists")
    if type(arg) in (list, tuple):
        ps = []
        for p in arg:
            if type(p) not in (list, tuple) or len(p) != 2:
                raise Unrep("pair list with other elements")
            ps.append({"n": _name(p[0]), "vs": [_text(p[1])]})
        return "pairs", ps
    raise Unrep("argument of another type (iterator, mapping subclass ...)")


def _call(name, args, kwargs, nlen):
    c = dict(C0)
    if name in ("add", "add_header", "set"):
        if len(args) != 2:
            raise Unrep("unexpected arity")
        base = "add" if name != "set" else "set"
        kw = {k: v for k, v in kwargs.items()}
        if not kw:
            c.update(m=base, n=_name(args[0]), vs=[_text(args[1])])
        elif len(kw) == 1 and type(args[1]) is str:
            (k, v), = kw.items()
            if v is None or k.endswith("*"):
                raise Unrep("None / extended keyword parameter")
            c.update(m=base + "_kw", n=_name(args[0]), vs=[_text(args[1])], kn=_cps(k), kv=_text(v))
        else:
            raise Unrep("several keyword parameters")
        return c
    if kwargs and name not in ("extend", "update"):
        raise Unrep("unexpected keyword arguments")
    if name == "__setitem__":
        key, value = args
        if type(key) is str:
            c.update(m="setitem", n=_cps(key), vs=[_text(value)])
        elif type(key) is int:
            i = key if key >= 0 else nlen + key
            if not 0 <= i < nlen or type(value) not in (tuple, list) or len(value) != 2:
                raise Unrep("index assignment out of range / not a pair")
            c.update(m="setitem_int", i=i, n=_name(value[0]), vs=[_text(value[1])])
        elif type(key) is slice:
            i, j, step = key.indices(nlen)
            if step != 1:
                raise Unrep("extended slice")
            if type(value) not in (list, tuple):
                raise Unrep("slice assignment from an iterator")
            form, ps = _pairs_arg(value, True)
            c.update(m="setitem_slice", i=i, j=max(i, j), ps=ps)
        else:
            raise Unrep("item key of another type")
        return c
    if name in ("setdefault",):
        c.update(m=name, n=_name(args[0]), vs=[_text(args[1])])
        return c
    if name in ("setlist", "setlistdefault"):
        if type(args[1]) not in (list, tuple):
            raise Unrep("value iterable of another type")
        c.update(m=name, n=_name(args[0]), vs=[_text(v) for v in args[1]])
        return c
    if name in ("extend", "update"):
        if len(args) > 1:
            raise Unrep("unexpected arity")
        arg = args[0] if args else None
        if arg is not None and kwargs:
            raise Unrep("positional and keyword arguments together")
        if arg is None:
            lists = [type(v) in (list, tuple, set) for v in kwargs.values()]
            if any(type(v) is set for v in kwargs.values()):
                raise Unrep("set argument (iteration order)")
            if lists and all(lists):
                form = "kwargs" if name == "update" else "dictlist"
                ps = [{"n": _cps(k), "vs": [_text(x) for x in v]} for k, v in kwargs.items()]
            elif not any(lists):
                form, ps = "dict", [{"n": _cps(k), "vs": [_text(v)]} for k, v in kwargs.items()]
            else:
                raise Unrep("keyword arguments mixing scalars and lists")
        else:
            form, ps = _pairs_arg(arg, name == "extend")
        c.update(m=name, ps=ps, form=form)
        return c
    raise Unrep("mutator outside the vocabulary")


def _wrap_mutator(Headers, name, orig):
    def wrapper(self, *args, **kwargs):
        if getattr(_tl, "busy", False) or type(self) is not Headers:
            return orig(self, *args, **kwargs)
        try:
            pre = [{"n": _cps(k), "v": _cps(v)} for k, v in list(self._list) if type(k) is str and type(v) is str]
            if len(pre) != len(self._list):
                raise Unrep("header list with non-str entries before the call")
            call = _call(name, args, kwargs, len(pre))
        except Unrep as e:
            _skip("Headers." + name + ": " + str(e))
            call = None
        except Exception:
            _skip("Headers." + name + ": arguments could not be projected")
            call = None
        _tl.busy = True
        exc = ""
        try:
            return orig(self, *args, **kwargs)
        except BaseException as e:
            exc = type(e).__name__
            raise
        finally:
            _tl.busy = False
            if call is not None:
                try:
                    line = {"op": "hdr", "target": "repo-test", "pre": pre, "c": call, "exc": exc, "post": _hlist(self._list)}
                    key = json.dumps(line, sort_keys=True)
                    if key in _hdr:
                        _hdr[key][1] += 1
                    elif len(_hdr) < MAX_HDR:
                        _hdr[key] = [dict(line, test=_test()), 1]
                    else:
                        _skip("Headers: more than %d distinct calls" % MAX_HDR)
                except Exception:
                    _skip("Headers." + name + ": result could not be projected")
    wrapper.__name__ = getattr(orig, "__name__", name)
    wrapper.__doc__ = getattr(orig, "__doc__", None)
    wrapper.__wrapped__ = orig
    return wrapper


MUTATORS = ["add", "set", "setlist", "setdefault", "setlistdefault", "__setitem__", "extend", "update"]


def pytest_configure(config):
    from werkzeug.datastructures import Headers
    from werkzeug.wrappers.response import Response
    from werkzeug.wsgi import ClosingIterator

    Response.get_wsgi_response = _wrap_get_wsgi_response(Response.get_wsgi_response, ClosingIterator)
    Response.set_data = _wrap_set_data(Response.set_data)
    Response.data = property(Response.get_data, Response.set_data, doc=Response.data.__doc__)
    for name in MUTATORS:
        setattr(Headers, name, _wrap_mutator(Headers, name, Headers.__dict__[name]))


def pytest_sessionfinish(session, exitstatus):
    out = os.environ.get("VERIF_TRACE_OUT")
    if out:
        with open(out, "w") as f:
            json.dump({"fin": _fin, "hdr": [dict(v[0], count=v[1]) for v in _hdr.values()], "skipped": _skipped}, f)
