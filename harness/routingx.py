"""Routing extension area X07: WebSocket rules, redirect_to, build_only, host matching, the adapter's other
methods, rule factories / templates and converters registered on the Map.

Reuses the rule records, rule strings and encoders of harness/routing.py (C03 / C12); an X rule is such a record
with four more fields (ws, bo, rt, host) and variable segments may carry min / max / a custom converter tag.
Nothing here decides a verdict: real `Map` objects are built from the records the TLA+ spec reads, the public
methods are called and what happened is recorded (rule index, typed argument texts, exception class names, URLs
as code points); spec/routingx/RoutingXTrace.tla (TLC) judges every line."""
from __future__ import annotations

import itertools
import random

from . import routing as rt
from .core import cps

# ---------------------------------------------------------------------------- records
NORT = {"k": "none", "items": []}


def xvar(conv, name, pre="", post="", n=0, m=0, signed=False, items=(), lo=None, hi=None, cust=""):
    s = rt.var(conv, name, pre, post, n, m, signed, items)
    s.update(haslo=lo is not None, lo=lo or 0, hashi=hi is not None, hi=hi or 0, cust=cust)
    return s


def tpl(kind, *items):
    """redirect_to template: items are plain strings (literal text) or ("v", name) placeholders"""
    out = []
    for it in items:
        if isinstance(it, str):
            out.append({"k": "lit", "t": it, "name": ""})
        else:
            out.append({"k": "var", "t": "", "name": it[1]})
    return {"k": kind, "items": out}


def xrule(segs, branch=False, methods=None, strict="d", merge="d", endpoint=None, ws=False, bo=False, rto=None, host=None,
          defaults=()):
    r = rt.rule(segs, branch=branch, methods=methods, strict=strict, merge=merge, endpoint=endpoint, defaults=defaults)
    r.update(ws=ws, bo=bo, rt=rto or NORT, host=[host] if host else [])
    return r


def hostlit(text):
    return rt.lit(text)


def _conv_text(s):
    """converter spelling in a rule string, incl. min / max and the names custom converters are registered under"""
    c, cust = s["conv"], s.get("cust", "")
    if cust in ("bool", "boolm"):
        return "bool(maybe=True)" if cust == "boolm" else "bool"
    if cust in ("wiki", "wiki2"):
        return cust
    if cust == "code":
        return f"code({s['n']})"
    if cust == "dflt":
        return None          # the map's "default" converter: <name> without a converter
    if cust == "late":
        return f"late({s['n']})"
    if c == "any":
        # AnyConverter: "Items can either be Python identifiers or strings"
        plain = lambda i: i.isidentifier() and i.lower() not in ("true", "false", "none", "nan", "inf", "infinity")
        return "any(" + ", ".join(i if plain(i) else '"' + i + '"' for i in s["items"]) + ")"
    base = rt._conv_text(s)
    extra = []
    if s.get("haslo"):
        extra.append(f"min={_num(s, s['lo'])}")
    if s.get("hashi"):
        extra.append(f"max={_num(s, s['hi'])}")
    if not extra:
        return base
    if base.endswith(")"):
        return base[:-1] + ", " + ", ".join(extra) + ")"
    return base + "(" + ", ".join(extra) + ")"


def _num(s, v):
    if s["conv"] == "float":          # thousandths
        return f"{v // 1000}.{v % 1000:03d}".rstrip("0") if v % 1000 else f"{v // 1000}.0"
    return str(v)


def seg_text(s):
    if s["k"] == "lit":
        return s["pre"]
    c = _conv_text(s)
    return f"{s['pre']}<{s['name']}>{s['post']}" if c is None else f"{s['pre']}<{c}:{s['name']}>{s['post']}"


def rule_string(r):
    return "/" + "/".join(seg_text(s) for s in r["segs"]) + ("/" if r["branch"] and r["segs"] else "")


def host_string(r):
    return seg_text(r["host"][0]) if r["host"] else None


def rt_string(t):
    return "".join(i["t"] if i["k"] == "lit" else f"<{i['name']}>" for i in t["items"])


def describe(r):
    bits = [rule_string(r)]
    if r["host"]:
        bits.append("host=" + host_string(r))
    if r["methods"] is not None:
        bits.append("methods=" + ",".join(r["methods"]))
    for k in ("ws", "bo"):
        if r[k]:
            bits.append(k)
    if r["rt"]["k"] != "none":
        bits.append(f"redirect_to[{r['rt']['k']}]={rt_string(r['rt'])}")
    for k in ("strict", "merge"):
        if r[k] != "d":
            bits.append(f"{k}={r[k]}")
    return " ".join(bits)


# ---------------------------------------------------------------------------- encoders (records -> what the spec reads)
def enc_seg(s):
    d = rt.enc_seg(s)
    return d


def enc_rt(t):
    return {"k": t["k"], "items": [{"k": i["k"], "t": cps(i["t"]), "name": i["name"]} for i in t["items"]]}


def enc_rule(r, i):
    return {"segs": [enc_seg(s) for s in r["segs"]], "branch": r["branch"], "anym": r["methods"] is None,
            "methods": list(r["methods"] or []), "strict": r["strict"], "merge": r["merge"],
            "endpoint": r["endpoint"] or f"e{i + 1}",
            "defaults": [{"name": d["name"], "ty": d["ty"], "v": cps(d["v"])} for d in r["defaults"]], "alias": False,
            "ws": r["ws"], "bo": r["bo"], "rt": enc_rt(r["rt"]), "host": [enc_seg(s) for s in r["host"]]}


def enc_bind(b):
    return {"scheme": cps(b["scheme"]), "server": cps(b["server"].lower()), "script": cps(b["script"]), "sub": cps(b["sub"])}


def enc_cfg(cfg):
    return {"op": "cfg", "rules": [enc_rule(r, i) for i, r in enumerate(cfg["rules"])], "map": cfg["map"], "bind": enc_bind(cfg["bind"])}


def make_cfg(rules, strict=True, merge=True, hm=False, bind=None):
    b = dict(bind or rt.DEFAULT_BIND)
    rules = [dict(r, endpoint=r["endpoint"] or f"e{i + 1}") for i, r in enumerate(rules)]
    return {"rules": rules, "map": {"strict": strict, "merge": merge, "rd": True, "hm": hm}, "bind": b}


# ---------------------------------------------------------------------------- the model's rule universe (MCRoutingXU.tla)
def universe():
    """Rules over the alphabet {a, b, 12, 007} and the hosts {h.x, g.x}: every new field alone and in the combinations
    the matcher treats in different branches (exact / one slash further / only a trailing slash left)."""
    L, V = rt.lit, xvar
    S = lambda: V("string", "s")
    hx, gx = hostlit("h.x"), hostlit("g.x")
    ux = V("string", "u", post=".x")
    U = [
        xrule([L("a")]),                                                          # 1
        xrule([L("a")], ws=True),                                                 # 2
        xrule([L("a")], branch=True),                                             # 3
        xrule([L("a")], branch=True, ws=True),                                    # 4
        xrule([L("a")], methods=["GET"]),                                         # 5
        xrule([L("a")], methods=["POST"]),                                        # 6
        xrule([L("a")], branch=True, methods=["POST"]),                           # 7
        xrule([L("a")], ws=True, methods=["GET"]),                                # 8
        xrule([S()]),                                                             # 9
        xrule([S()], ws=True),                                                    # 10
        xrule([S()], branch=True),                                                # 11
        xrule([V("int", "n")]),                                                   # 12
        xrule([L("a")], bo=True),                                                 # 13
        xrule([S()], bo=True),                                                    # 14
        xrule([L("a")], rto=tpl("str", "t/x")),                                   # 15
        xrule([S()], rto=tpl("str", "t/", ("v", "s"))),                           # 16
        xrule([S()], rto=tpl("fn", "f/", ("v", "s"))),                            # 17
        xrule([S()], methods=["POST"], rto=tpl("str", "t/", ("v", "s"))),         # 18
        xrule([V("int", "n", n=3)], rto=tpl("str", "/r/", ("v", "n"))),           # 19
        xrule([L("a")], branch=True, rto=tpl("str", "t/")),                       # 20
        xrule([L("a")], host=hx),                                                 # 21
        xrule([L("a")], host=gx),                                                 # 22
        xrule([L("a")], host=ux),                                                 # 23
        xrule([S()], host=hx),                                                    # 24
        xrule([L("a")], branch=True, ws=True, host=hx),                           # 25
        xrule([S()], host=ux, rto=tpl("str", "t/", ("v", "u"), "/", ("v", "s"))),  # 26
        xrule([L("a")], ws=True, bo=True),                                        # 27
        xrule([L("a")], branch=True, ws=True, methods=["GET"]),                   # 28
        xrule([L("a")], branch=True, methods=["GET"]),                            # 29
        xrule([V("int", "n", lo=10)]),                                            # 30
        xrule([S()], ws=True, rto=tpl("str", "t/", ("v", "s"))),                  # 31
        xrule([L("a")], branch=True, strict="f", ws=True),                        # 32
        xrule([L("a")], host=hx, bo=True),                                        # 33
        xrule([S()], branch=True, ws=True),                                       # 34
        xrule([L("a")], methods=["POST"], rto=tpl("fn", "f/x")),                  # 35
        xrule([L("a"), S()], ws=True),                                            # 36
    ]
    return U


def universe_tla():
    rules = [enc_rule(r, i) for i, r in enumerate(universe())]
    body = ",\n  ".join(rt._tla(r) for r in rules)
    return ("---------------------------- MODULE MCRoutingXU ----------------------------\n"
            "(* GENERATED by harness/routingx.py universe_tla() from universe(): do not edit.          *)\n"
            "(* The same rule universe is replayed on real Map objects by harness/props/x07.py.        *)\n"
            f"XUniverse == <<\n  {body}\n>>\n"
            "=============================================================================\n")


# ---------------------------------------------------------------------------- records -> real Map
def custom_converters():
    """Converters registered on the Map (docs 'Custom Converters'): the BooleanConverter of the documentation (made
    deterministic), a slash-matching converter with part_isolating=False and its own weight, a converter that takes an
    argument and builds its own regex."""
    from werkzeug.routing import BaseConverter, ValidationError

    class BooleanConverter(BaseConverter):
        regex = r"(?:yes|no|maybe)"

        def __init__(self, url_map, maybe=False):
            super().__init__(url_map)
            self.maybe = maybe

        def to_python(self, value):
            if value == "maybe":
                if self.maybe:
                    return False
                raise ValidationError
            return value == "yes"

        def to_url(self, value):
            return "yes" if value else "no"

    class WikiConverter(BaseConverter):
        regex = "[^/].*?"
        part_isolating = False
        weight = 200

    class CodeConverter(BaseConverter):
        weight = 100

        def __init__(self, url_map, n=2):
            super().__init__(url_map)
            self.regex = "[^/]{%d}" % int(n)

    class Wiki2Converter(BaseConverter):
        # BaseConverter: "part_isolating defaults to False if regex contains a /"
        regex = "[^/].*?"
        weight = 200

    return {"bool": BooleanConverter, "wiki": WikiConverter, "wiki2": Wiki2Converter, "code": CodeConverter}


def _fn(idx, template, log):
    def redirect_target(adapter, **values):
        log.append({"rule": idx, "adapter": adapter, "values": dict(values)})
        return "".join(i["t"] if i["k"] == "lit" else rt._val_text(values[i["name"]]) for i in template["items"])

    return redirect_target


def build_xmap(cfg):
    """cfg = {rules, map:{strict, merge, rd, hm, [dflt]}, bind:{scheme, server, script, sub}, [decoy]} -> (Map, adapter, [Rule], fnlog)
    hm map: Rule(host=pattern) (+ a decoy subdomain when cfg['decoy']); plain map: Rule(subdomain=pattern) (+ decoy host)."""
    from werkzeug.routing import IntegerConverter, Map, Rule

    hm = cfg["map"]["hm"]
    log, objs = [], []
    for i, r in enumerate(cfg["rules"]):
        kw = {}
        if r["defaults"]:
            kw["defaults"] = {d["name"]: rt._default_value(d) for d in r["defaults"]}
        pat = host_string(r)
        if hm:
            kw["host"] = pat
            if cfg.get("decoy"):
                kw["subdomain"] = "decoy"
        else:
            if pat is not None:
                kw["subdomain"] = pat
            if cfg.get("decoy"):
                kw["host"] = "decoy.example"
        t = r["rt"]
        if t["k"] == "str":
            kw["redirect_to"] = rt_string(t)
        elif t["k"] == "fn":
            kw["redirect_to"] = _fn(i + 1, t, log)
        ep = r["endpoint"] or f"e{i + 1}"
        string = rule_string(r)
        via = cfg.get("via")
        if via in ("submount", "template"):
            # the record carries the prefix segment the factory adds (sm / usr): the wrapped rule is written without it
            rest = dict(r, segs=r["segs"][1:])
            string = rule_string(rest)
            if via == "template":
                string, ep = "/$name" + (string if rest["segs"] else "/"), "$name." + ep[4:]
        elif via == "prefix":
            ep = ep[3:]                                   # the record's endpoint is "pf." + this
        objs.append(Rule(string, endpoint=ep, methods=r["methods"],
                         strict_slashes=rt._TRI[r["strict"]], merge_slashes=rt._TRI[r["merge"]],
                         websocket=r["ws"], build_only=r["bo"], **kw))
    conv = custom_converters()
    if cfg["map"].get("dflt") == "int":
        conv["default"] = IntegerConverter
    facs = objs[:-1] if cfg.get("late") else objs
    if cfg.get("via") == "submount":
        from werkzeug.routing import Submount
        facs = [Submount("/sm", objs[:1]), Submount("/sm/", objs[1:])]
    elif cfg.get("via") == "prefix":
        from werkzeug.routing import EndpointPrefix
        facs = [EndpointPrefix("pf.", objs)]
    elif cfg.get("via") == "template":
        from werkzeug.routing import RuleTemplate
        facs = [RuleTemplate(objs)(name="usr")]
    m = Map(facs, strict_slashes=cfg["map"]["strict"], merge_slashes=cfg["map"]["merge"], host_matching=hm, converters=conv)
    if cfg.get("late"):
        # Map.converters: "This can be modified after the class was created, but will only affect rules added after the
        # modification."  The last rule uses a converter registered after the map was created.
        m.converters["late"] = conv["code"]
        m.add(objs[-1])
    if cfg.get("via"):
        # the factories put copies into the map: find them by their (unique) endpoints
        byep = {}
        for o in m.iter_rules():
            byep.setdefault(str(o.endpoint), []).append(o)
        objs = [byep.get(r["endpoint"], [None])[0] for r in cfg["rules"]]
    b = cfg["bind"]
    if hm:
        ad = m.bind(b["server"], b["script"], url_scheme=b["scheme"])
    else:
        ad = m.bind(b["server"], b["script"], url_scheme=b["scheme"], subdomain=b["sub"] or None)
    return m, ad, objs, log


def _args(d):
    return [{"name": k, "ty": type(v).__name__, "v": cps(rt._val_text(v))} for k, v in sorted(d.items())]


def observe(ad, objs, log, path, method, wsarg="none"):
    """One MapAdapter.match call -> outcome record (all fields always present)."""
    from werkzeug.exceptions import MethodNotAllowed, NotFound
    from werkzeug.routing import RequestRedirect, WebsocketMismatch

    out = {"kind": "other", "rule": 0, "args": [], "url": [], "methods": [], "exc": "", "fnrule": 0, "fnargs": [], "fnadapter": False}
    del log[:]
    kw = {} if wsarg == "none" else {"websocket": wsarg == "t"}
    try:
        rl, args = ad.match(path, method, return_rule=True, **kw)
    except RequestRedirect as e:
        out.update(kind="redirect", url=cps(e.new_url), exc=type(e).__name__)
    except MethodNotAllowed as e:
        out.update(kind="mna", methods=sorted(e.valid_methods or []), exc=type(e).__name__)
    except WebsocketMismatch as e:
        out.update(kind="wsm", exc=type(e).__name__)
    except NotFound as e:
        out.update(kind="notfound", exc=type(e).__name__)
    except Exception as e:  # recorded, judged as UnexpectedException
        out.update(kind="other", exc=type(e).__name__)
    else:
        idx = [i for i, o in enumerate(objs) if o is rl]
        out.update(kind="match", rule=(idx[0] + 1) if idx else 0, args=_args(args))
    if log:
        c = log[-1]
        out.update(fnrule=c["rule"], fnargs=_args(c["values"]), fnadapter=c["adapter"] is ad)
    return out


class Boom(Exception):
    pass


def observe_dispatch(ad, objs, log, path, method, catch, view):
    """MapAdapter.dispatch with a recording view function."""
    from werkzeug.exceptions import Forbidden, HTTPException

    calls, token, http, boom = [], object(), Forbidden(), Boom()

    def view_func(endpoint, values):
        calls.append((endpoint, dict(values)))
        if view == "http":
            raise http
        if view == "boom":
            raise boom
        return token

    r = observe(ad, objs, log, path, method)
    d = {"called": False, "cep": "", "cargs": [], "how": "returned", "what": "", "same": False, "catch": catch, "view": view}
    try:
        res = ad.dispatch(view_func, path, method, catch_http_exceptions=catch)
    except BaseException as e:
        d.update(how="raised", what=type(e).__name__, same=(e is http or e is boom))
        res = e
    else:
        d.update(how="returned", what="VIEWVALUE" if res is token else type(res).__name__, same=(res is token or res is http))
    if r["kind"] == "redirect" and d["what"] == "RequestRedirect":
        d["same"] = cps(getattr(res, "new_url", "")) == r["url"]
    if calls:
        d.update(called=len(calls) == 1, cep=str(calls[0][0]), cargs=_args(calls[0][1]))
    return r, d


def typed(v):
    return {"ty": type(v).__name__, "v": cps(rt._val_text(v))}


def run_ops(arg):
    """(cfg, [op dict]) -> [cfg line, op lines...]; executed in a worker process.  op dicts:
    {op: match, path, method, wsarg} | {op: allowed, path} | {op: test, path, method} |
    {op: dispatch, path, method, catch, view} | {op: gethost, none, dp} | {op: expecting, ep, names} |
    {op: iter, all, ep} | {op: build, ep, vals: {name: value}, ext, [scheme]} | {op: bindsub, sub} | {op: addbound}"""
    from werkzeug.routing import BuildError

    cfg, ops = arg
    out = [enc_cfg(cfg)]
    try:
        m, ad, objs, log = build_xmap(cfg)
    except Exception as e:          # the map cannot even be built: recorded, judged as UnexpectedException
        bad = {"kind": "other", "rule": 0, "args": [], "url": [], "methods": [], "exc": type(e).__name__, "fnrule": 0, "fnargs": [], "fnadapter": False}
        return out + [{"op": "match", "i": i, "path": cps(op.get("path", "/")), "method": op.get("method", "GET"), "wsarg": "none", "r": bad}
                      for i, op in enumerate(ops)]
    for i, op in enumerate(ops):
        k = op["op"]
        ln = {"op": k, "i": i}
        if k == "match":
            ln.update(path=cps(op["path"]), method=op["method"], wsarg=op.get("wsarg", "none"),
                      r=observe(ad, objs, log, op["path"], op["method"], op.get("wsarg", "none")))
        elif k == "allowed":
            try:
                ms = sorted(ad.allowed_methods(op["path"]))
            except Exception as e:
                ms = ["EXC:" + type(e).__name__]
            ln.update(path=cps(op["path"]), methods=ms)
        elif k == "test":
            try:
                res = ad.test(op["path"], op["method"])
            except Exception:
                res = False
            ln.update(path=cps(op["path"]), method=op["method"], res=bool(res))
        elif k == "dispatch":
            r, d = observe_dispatch(ad, objs, log, op["path"], op["method"], op["catch"], op["view"])
            ln.update(path=cps(op["path"]), method=op["method"], r=r, d=d)
        elif k == "gethost":
            try:
                res = ad.get_host(None if op["none"] else op["dp"])
            except Exception as e:
                res = "EXC:" + type(e).__name__
            ln.update(g={"none": op["none"], "dp": cps(op["dp"]), "res": cps(res)})
        elif k == "expecting":
            try:
                res = bool(m.is_endpoint_expecting(op["ep"], *op["names"]))
            except KeyError:
                res = False
            ln.update(x={"ep": op["ep"], "names": list(op["names"]), "res": res})
        elif k == "iter":
            try:
                res = [next((j + 1 for j, o in enumerate(objs) if o is r_), 0) for r_ in (m.iter_rules() if op["all"] else m.iter_rules(op["ep"]))]
            except KeyError:
                res = []
            ln.update(x={"all": op["all"], "ep": op["ep"], "res": res})
        elif k == "addbound":
            from werkzeug.routing import Map as _Map

            raised = ""
            try:
                _Map().add(next(o for o in objs if o is not None))
            except Exception as e:
                raised = type(e).__name__
            ln.update(raised=raised)
        elif k == "build":
            x = {"ep": op["ep"], "vals": [dict(name=n, **typed(v)) for n, v in sorted(op["vals"].items())], "ext": op["ext"],
                 "scheme": cps(op.get("scheme", "")), "url": [], "ok": True}
            try:
                x["url"] = cps(ad.build(op["ep"], dict(op["vals"]), force_external=op["ext"], url_scheme=op.get("scheme") or None))
            except BuildError:
                x["ok"] = False
            ln.update(x=x)
        elif k == "bindsub":
            b = cfg["bind"]
            raised, host = "", ""
            try:
                host = m.bind(b["server"], b["script"], subdomain=op["sub"]).get_host(None)
            except Exception as e:
                raised = type(e).__name__
            ln.update(raised=raised, host=cps(host))
        out.append(ln)
    return out


# ---------------------------------------------------------------------------- rule factories (f)
def _opt_record(r, src_rt=None):
    """the options of an (unbound) Rule object as the spec reads them"""
    tri = {None: "d", True: "t", False: "f"}
    if r.redirect_to is None:
        rto = "none"
    else:
        rto = "same" if (src_rt is None or r.redirect_to is src_rt) else "other"
    return {"rule": cps(r.rule), "endpoint": cps(str(r.endpoint)), "sub": cps(r.subdomain or ""), "subnone": r.subdomain is None,
            "host": cps(r.host or ""), "hostnone": r.host is None, "methods": sorted(r.methods or []), "anym": r.methods is None,
            "bo": bool(r.build_only), "strict": tri[r.strict_slashes], "merge": tri[r.merge_slashes], "alias": bool(r.alias),
            "ws": bool(r.websocket), "rt": rto,
            "defaults": [dict(name=k, **typed(v)) for k, v in sorted((r.defaults or {}).items())]}


def run_factory(arg):
    """(fac, ctx, opts) -> factory line.  opts = keyword arguments of Rule() (+ 'string'); redirect_to 'FN' = a callable"""
    from werkzeug.routing import EndpointPrefix, Map, Rule, RuleTemplate, Subdomain, Submount

    fac, ctx, opts = arg
    kw = dict(opts)
    string = kw.pop("string")
    if kw.get("redirect_to") == "FN":
        kw["redirect_to"] = lambda adapter, **v: "t"
    src = Rule(string, **kw)
    if fac == "RuleTemplate":
        f = RuleTemplate([src])(name=ctx)
    elif fac == "Submount":
        f = Submount(ctx, [src])
    elif fac == "Subdomain":
        f = Subdomain(ctx, [src])
    else:
        f = EndpointPrefix(ctx, [src])
    outs = list(f.get_rules(Map()))
    out = outs[0]
    return {"op": "factory", "f": {"fac": fac, "ctx": cps(ctx), "n": len(outs), "src": _opt_record(src), "out": _opt_record(out, src.redirect_to)}}


def factory_cases(rng, quick):
    """Every option of Rule() set away from its default, alone and in random combinations, through each factory."""
    singles = [
        {}, {"websocket": True}, {"merge_slashes": False}, {"merge_slashes": True}, {"strict_slashes": False}, {"strict_slashes": True},
        {"redirect_to": "t/<id>"}, {"redirect_to": "FN"}, {"alias": True}, {"host": "h.example"}, {"build_only": True},
        {"methods": ["POST"]}, {"methods": ["GET"]}, {"subdomain": "$name"}, {"subdomain": "api"}, {"defaults": {"k": "$name", "n": 3}},
        {"defaults": {"k": "v"}},
    ]
    out = []
    for fac, ctxs in (("RuleTemplate", ["user", "p1"]), ("Submount", ["/blog", "/b/"]), ("Subdomain", ["sd", "<lang>"]), ("EndpointPrefix", ["blog/", "x."])):
        combos = list(singles)
        for _ in range(10 if quick else 150):
            c = {}
            for s in rng.sample(singles[1:], rng.randint(2, 5)):
                c.update(s)
            if c.get("websocket") and "POST" in (c.get("methods") or []):
                c.pop("methods")
            combos.append(c)
        for o in combos:
            for string in (["/$name/<int:id>", "/$name/"] if fac == "RuleTemplate" else ["/e/<int:id>", "/"]):
                o2 = dict(o, string=string, endpoint=("$name.show" if fac == "RuleTemplate" else "show"))
                if fac != "RuleTemplate":
                    o2 = {k: (v.replace("$name", "nm") if isinstance(v, str) else ({a: (b.replace("$name", "nm") if isinstance(b, str) else b) for a, b in v.items()} if isinstance(v, dict) else v))
                          for k, v in o2.items()}
                if "<id>" in str(o2.get("redirect_to", "")) and "<int:id>" not in string:
                    o2["redirect_to"] = "t/x"
                out.append((fac, rng.choice(ctxs), o2))
    return out


# ---------------------------------------------------------------------------- generators: maps of X rules
HM_BINDS = ["h.example", "g.example", "bob.example", "12.example", "a.b.example", "other.org", "h.example:8080", "H.Example"]
SUB_BINDS = ["", "api", "bob", "12", "www"]
SCHEMES = ["http", "http", "https", "ws", "wss"]
SCRIPTS = ["/", "/", "/app", "/app/", "/a/b"]
RT_LITS = ["t/", "new/", "x-", "/abs/", "/", "http://other.example/o/", "n", "", "a/b/", "q?x=1&y=", ".json"]


def xnorm(r):
    """a C03-grammar rule record -> X record (extras on every variable segment, the four new fields at their defaults)"""
    r = dict(r)
    r["segs"] = [dict({"haslo": False, "lo": 0, "hashi": False, "hi": 0, "cust": ""}, **s) if s["k"] == "var" else dict(s) for s in r["segs"]]
    r.setdefault("ws", False)
    r.setdefault("bo", False)
    r.setdefault("rt", NORT)
    r.setdefault("host", [])
    r["alias"] = False
    r["defaults"] = list(r.get("defaults") or [])
    return r


def random_host(rng, hm):
    k = rng.random()
    if hm:
        if k < 0.45:
            return hostlit(rng.choice(["h.example", "g.example", "h.example:8080"]))
        if k < 0.8:
            return xvar("string", "u", post=".example")
        if k < 0.9:
            return xvar("int", "hn", post=".example")
        return xvar("any", "u", post=".example", items=["bob", "h"])
    if k < 0.4:
        return hostlit(rng.choice(["api", "www"]))
    if k < 0.75:
        return xvar("string", "u")
    if k < 0.9:
        return xvar("int", "hn")
    return None


def custom_seg(rng, idx):
    name = f"c{idx}"
    k = rng.choice(["bool", "boolm", "code", "imm", "imm", "fmm", "ilo", "wiki"])
    if k in ("bool", "boolm"):
        return xvar("any", name, items=["yes", "no", "maybe"], cust=k)
    if k == "code":
        return xvar("strlen", name, n=rng.randint(1, 3), cust="code")
    if k == "imm":
        lo = rng.choice([0, 3, 10])
        return xvar("int", name, lo=lo, hi=lo + rng.choice([0, 2, 9]), signed=rng.random() < 0.3)
    if k == "ilo":
        return xvar("int", name, **({"lo": rng.choice([1, 8, 100])} if rng.random() < 0.5 else {"hi": rng.choice([0, 7, 12])}))
    if k == "fmm":
        return xvar("float", name, lo=1500, hi=2500, signed=rng.random() < 0.5)
    return xvar("path", name, cust=rng.choice(["wiki", "wiki2"]))


def extra_tokens(rules):
    """boundary texts for min / max and the custom converters (added to the path alphabet of routing.paths_for)"""
    toks = set()
    for r in rules:
        for s in r["segs"]:
            if s["k"] != "var":
                continue
            if s.get("cust") in ("bool", "boolm"):
                toks |= {"yes", "no", "maybe", "ye"}
            for key in ("lo", "hi"):
                if s.get("has" + key):
                    v = s[key]
                    if s["conv"] == "float":
                        for w in (v - 10, v, v + 10):
                            toks.add(f"{w // 1000}.{w % 1000:03d}" if w >= 0 else "-" + f"{-w // 1000}.{-w % 1000:03d}")
                        toks |= {"1.5", "2.50", "1.49", "-2.0"}
                    else:
                        toks |= {str(v - 1), str(v), str(v + 1), "0" + str(v), "00" + str(v + 1)}
                        if s["signed"]:
                            toks |= {"-" + str(abs(v) + 1), "-0"}
    return sorted(toks)


def decorate(rng, rules, mode):
    """sprinkle the new fields over C03-grammar rules; mode: 'plain' | 'hm' | 'sub'"""
    out = []
    for i, r in enumerate(rules):
        r = xnorm(r)
        names = [s["name"] for s in r["segs"] if s["k"] == "var"]
        if names and rng.random() < 0.25 and not rt.is_path_rule(r):
            j = rng.choice([k for k, s in enumerate(r["segs"]) if s["k"] == "var"])
            c = custom_seg(rng, j + 1)
            if c["conv"] == "path":
                if j == len(r["segs"]) - 1:
                    r["segs"][j] = c
            else:
                c["pre"], c["post"] = r["segs"][j]["pre"], r["segs"][j]["post"]
                r["segs"][j] = c
        if mode != "plain":
            h = random_host(rng, mode == "hm")
            if h is None and mode == "hm":
                h = hostlit("h.example")
            r["host"] = [h] if h else []
        if rng.random() < 0.35:
            r["ws"] = True
            if r["methods"] and set(r["methods"]) - {"GET"}:
                r["methods"] = rng.choice([None, ["GET"]])
        if rng.random() < 0.12:
            r["bo"] = True
        if rng.random() < 0.22:
            vs = [s for s in (r["host"] + r["segs"]) if s["k"] == "var" and not s.get("cust")]
            items = [rng.choice(RT_LITS)]
            for s in rng.sample(vs, rng.randint(0, len(vs))):
                items += [("v", s["name"]), rng.choice(["", "/", "-", "/x/"])]
            r["rt"] = tpl(rng.choice(["str", "str", "fn"]), *items)
        r["endpoint"] = f"e{i + 1}"
        out.append(r)
    return out


def random_xmap(rng, quick):
    """-> (cfg, ops): a seeded random map of 1..5 related X rules under a random bind, with its probe operations"""
    mode = rng.choice(["plain", "plain", "hm", "sub"])
    k = rng.randint(1, 5)
    rules = decorate(rng, rt.random_rules(rng, k), mode)
    # twins: the same URL as a rule of the other kind / another method / build_only (these share trie states)
    for _ in range(rng.randint(0, 2)):
        base = dict(rng.choice(rules))
        tw = dict(base, ws=not base["ws"] if rng.random() < 0.6 else base["ws"], bo=rng.random() < 0.15,
                  branch=base["branch"] if rng.random() < 0.6 or not base["segs"] else not base["branch"],
                  strict=rng.choice("ddtf"), rt=NORT if rng.random() < 0.7 else base["rt"])
        tw["methods"] = rng.choice([None, ["GET"]]) if tw["ws"] else rng.choice([None, ["GET"], ["POST"], ["PUT", "POST"]])
        rules.append(tw)
    rng.shuffle(rules)
    for i, r in enumerate(rules):
        r["endpoint"] = f"e{i + 1}"
    hm = mode == "hm"
    server = rng.choice(HM_BINDS) if hm else rng.choice(["example.org", "Example.ORG", "localhost:5000"])
    sub = rng.choice(SUB_BINDS) if mode == "sub" else ""
    if mode != "plain" and rng.random() < 0.75:
        # a domain part that some rule's pattern admits
        h = rng.choice([r["host"] for r in rules if r["host"]] or [[hostlit("h.example")]])[0]
        dom = h["pre"] if h["k"] == "lit" else h["pre"] + {"int": "12", "any": (h["items"] or ["bob"])[0]}.get(h["conv"], rng.choice(["bob", "h", "a.b"])) + h["post"]
        if hm:
            server = dom
        else:
            sub = dom
    bind = {"scheme": rng.choice(SCHEMES), "server": server, "script": rng.choice(SCRIPTS), "sub": sub}
    via = rng.choice([None, None, None, "submount", "prefix", "template"])
    if via == "template" and (mode == "sub" or any("$" in rule_string(r) or "$" in (host_string(r) or "") for r in rules)):
        via = "submount"          # string.Template would read a literal '$'; RuleTemplate also expands the subdomain
    if via in ("submount", "template"):
        pre = "sm" if via == "submount" else "usr"
        rules = [dict(r, segs=[rt.lit(pre)] + r["segs"], branch=r["branch"] or not r["segs"]) for r in rules]
    for i, r in enumerate(rules):
        r["endpoint"] = {"prefix": "pf.", "template": "usr."}.get(via, "") + f"e{i + 1}"
    cfg = make_cfg(rules, rng.random() < 0.6, rng.random() < 0.7, hm, bind)
    cfg["decoy"] = rng.random() < 0.3
    cfg["via"] = via
    paths = rt.paths_for(rules, rng, 12 if quick else 30, extra=extra_tokens(rules))
    return cfg, probe_ops(rng, cfg, paths, full=not quick)


def probe_ops(rng, cfg, paths, full=False, methods=("GET", "POST", "HEAD", "PUT")):
    ops = []
    for p in paths:
        ops.append({"op": "match", "path": p, "method": rng.choice(methods), "wsarg": rng.choice(["none", "none", "none", "t", "f"])})
        k = rng.random()
        if full or k < 0.25:
            ops.append({"op": "allowed", "path": p})
        if full or 0.25 <= k < 0.45:
            ops.append({"op": "test", "path": p, "method": rng.choice(methods)})
        if full or 0.45 <= k < 0.7:
            ops.append({"op": "dispatch", "path": p, "method": rng.choice(methods[:2]), "catch": rng.random() < 0.5,
                        "view": rng.choice(["ret", "ret", "http", "boom"])})
    eps = [r["endpoint"] for r in cfg["rules"]]
    names = sorted({s["name"] for r in cfg["rules"] for s in r["host"] + r["segs"] if s["k"] == "var"}) or ["x"]
    ops.append({"op": "iter", "all": True, "ep": ""})
    for ep in rng.sample(eps, min(2, len(eps))):
        ops.append({"op": "iter", "all": False, "ep": ep})
        ops.append({"op": "expecting", "ep": ep, "names": rng.sample(names, rng.randint(0, min(2, len(names))))})
    for g in ({"none": True, "dp": ""}, {"none": False, "dp": ""}, {"none": False, "dp": rng.choice(["api", "x.y", "h.example"])}):
        ops.append(dict(op="gethost", **g))
    if cfg["map"]["hm"]:
        ops.append({"op": "bindsub", "sub": "api"})
    if rng.random() < 0.3:
        ops.append({"op": "addbound"})
    ops += build_ops(rng, cfg)
    return ops


SAMPLE_VALUES = {"string": ["q", "x y", "é"], "strlen": None, "int": [7, 12], "float": [1.5, 2.25], "uuid": None, "path": ["a/b", "w"], "any": None}


def build_ops(rng, cfg):
    """build() for every endpoint that has exactly one rule and whose values the spec can spell"""
    import uuid

    ops = []
    for r in cfg["rules"]:
        vals, ok = {}, True
        for s in r["host"] + r["segs"]:
            if s["k"] != "var":
                continue
            c = s["conv"]
            if s.get("cust") in ("bool", "boolm"):
                ok = False
            elif c == "strlen":
                vals[s["name"]] = "qwe"[: s["n"]] or "q"
            elif c == "uuid":
                vals[s["name"]] = uuid.UUID(rt.UUID1)
            elif c == "any":
                vals[s["name"]] = s["items"][0]
            elif c == "int" and (s.get("haslo") or s.get("hashi")):
                vals[s["name"]] = s["lo"] if s["haslo"] else s["hi"]
            elif c == "float" and (s.get("haslo") or s.get("hashi")):
                vals[s["name"]] = 2.0
            elif c == "string":
                n = max(1, s["n"])
                vals[s["name"]] = rng.choice(SAMPLE_VALUES["string"]) if n == 1 and not s["m"] else "qwerty"[:n]
            else:
                vals[s["name"]] = rng.choice(SAMPLE_VALUES[c])
            if r["host"] and s is r["host"][0]:
                vals[s["name"]] = {"int": 12, "string": "bob", "any": s["items"][0] if s["items"] else "bob"}.get(c, "bob")
        if ok:
            ops.append({"op": "build", "ep": r["endpoint"], "vals": vals, "ext": rng.random() < 0.4,
                        "scheme": rng.choice(["", "", "", "https", "http"])})
    return ops
