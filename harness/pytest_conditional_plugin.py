"""pytest plugin (loaded with `-p harness.pytest_conditional_plugin`) that records what the repository's own
tests do with conditional / range responses (C11).  Wrapped IN THE TEST PROCESS ONLY, nothing in /repo changes:

* `werkzeug.http.is_resource_modified`            -> op "call", api "irm" (arguments, returned bool)
* `Response.make_conditional`                     -> op "rmc" (request method + conditional / range headers, the
  response's ETag / Last-Modified / length / body shape before the call; status, Content-Range, Content-Length as
  `get_wsgi_headers` finalises them after the call; the body bytes only from a *copy* of a list body -- a fresh
  _RangeWrapper with the same start / length over the copied list --, never by consuming the test's iterable)
* `werkzeug.utils.send_file` / `send_from_directory` with a real path, `SharedDataMiddleware.__call__`
                                                  -> op "rfile" (file facts from os.stat, the arguments, the headers)
* every `_RangeWrapper` session (also those created by make_conditional and iterated by the test): the bytes it
  pulled from the wrapped iterable (pass-through recorder) and the bytes it yielded -> op "rw"

Records are written as JSON to $VERIF_TRACE_OUT; harness/props/c11.py turns them into trace lines for
spec/conditional/ConditionalTrace.tla.  Records outside the judged vocabulary are dropped here or there with a
reason (counted).  Nothing here decides a verdict."""
from __future__ import annotations

import inspect
import io
import json
import os
import re
import threading
import time

_records: list = []
_skipped: dict = {}
_tl = threading.local()

HDRS = {"inm": "HTTP_IF_NONE_MATCH", "im": "HTTP_IF_MATCH", "ims": "HTTP_IF_MODIFIED_SINCE", "ifr": "HTTP_IF_RANGE", "range": "HTTP_RANGE"}
_TAG = re.compile(r'(W/)?"([^"]*)"\Z')
_DATE_GMT = re.compile(r"[A-Za-z]{3}, (\d\d) ([A-Z][a-z]{2}) (\d{4}) (\d\d):(\d\d):(\d\d) GMT\Z")
_DATE_VOCAB = re.compile(r"[A-Za-z]{3}, \d\d [A-Z][a-z]{2} \d{4} \d\d:\d\d:\d\d (GMT|[+-]\d{4})\Z")
MONTHS = ["Jan", "Feb", "Mar", "Apr", "May", "Jun", "Jul", "Aug", "Sep", "Oct", "Nov", "Dec"]


def _skip(why):
    _skipped[why] = _skipped.get(why, 0) + 1


def _test():
    return os.environ.get("PYTEST_CURRENT_TEST", "").encode("ascii", "replace").decode()[:140]


def _depth():
    return getattr(_tl, "n", 0)


def _request_part(environ):
    """method + the five header texts, or a reason to skip"""
    r = {"method": environ.get("REQUEST_METHOD", "GET")}
    if r["method"] not in ("GET", "HEAD", "POST"):
        r["method"] = "POST"          # every other method is "not GET / HEAD" for the judge
    for k, env_key in HDRS.items():
        v = environ.get(env_key)
        if v is not None and not isinstance(v, str):
            return None, "header value is not a string"
        if v is not None and (v != v.strip() or v == ""):
            return None, "header text empty or with outer white space"
        r[k] = v
    for k in ("ims", "ifr"):
        v = r[k]
        if v is not None and not _DATE_VOCAB.match(v) and not (k == "ifr" and v.lstrip().startswith(('"', "W/"))):
            import email.utils

            try:
                email.utils.parsedate_to_datetime(v)
                return None, "date form outside the judged vocabulary"
            except Exception:
                pass
    return r, None


def _tag_of(text):
    """ETag header / argument text -> [opaque, weak] | None (absent) | 'bad'"""
    if text is None or text == "":
        return None
    m = _TAG.match(text.strip())
    if m:
        return [m.group(2), bool(m.group(1))]
    if '"' not in text and not text.startswith(("W/", "w/")):
        return [text, False]            # the documented plain form of the `etag` argument
    return "bad"


def _lm_of(value):
    """datetime | header text | number -> [Y, M, D, h, m, s, us] (UTC) | None | 'bad'"""
    from datetime import datetime, timezone

    if value is None:
        return None
    if isinstance(value, str):
        m = _DATE_GMT.match(value)
        if not m or m.group(2) not in MONTHS:
            return "bad"
        d, mon, y, h, mi, s = m.groups()
        return [int(y), MONTHS.index(mon) + 1, int(d), int(h), int(mi), int(s), 0]
    if isinstance(value, (int, float)) and not isinstance(value, bool):
        if value < 0 or value >= 2 ** 31:
            return "bad"
        sec = int(value)
        us = int(round((value - sec) * 1e6)) if isinstance(value, float) else 0
        value = datetime.fromtimestamp(sec, tz=timezone.utc).replace(microsecond=min(us, 999999))
    if isinstance(value, datetime):
        if value.tzinfo is None:
            value = value.replace(tzinfo=timezone.utc)
        value = value.astimezone(timezone.utc)
        if not 1971 <= value.year <= 2037:
            return "bad"
        return [value.year, value.month, value.day, value.hour, value.minute, value.second, value.microsecond]
    return "bad"


def _hdr_out(headers, name):
    vals = headers.getlist(name)
    return [len(vals), vals[0] if vals else ""]


def pytest_configure(config):
    import werkzeug.http as whttp
    import werkzeug.utils as wutils
    import werkzeug.wsgi as wwsgi
    from werkzeug.exceptions import HTTPException
    from werkzeug.middleware.shared_data import SharedDataMiddleware
    from werkzeug.wrappers.response import Response

    # ------------------------------------------------------------------ is_resource_modified
    orig_irm = whttp.is_resource_modified

    def is_resource_modified(environ, etag=None, data=None, last_modified=None, ignore_if_range=True):
        if _depth():
            return orig_irm(environ, etag, data, last_modified, ignore_if_range)
        rec = None
        req, why = _request_part(environ) if isinstance(environ, dict) else (None, "environ is not a dict")
        tag, lm = _tag_of(etag), _lm_of(last_modified)
        if data is not None and etag is None and isinstance(data, bytes):
            import hashlib

            tag = [hashlib.sha1(data).hexdigest(), False]     # documented: the ETag of data is its SHA-1 hex digest
        if why:
            _skip("irm: " + why)
        elif data is not None and (etag is not None or not isinstance(data, bytes)):
            _skip("irm: data together with etag / not bytes (TypeError tests)")
        elif not ignore_if_range and (req["ifr"] is not None):
            _skip("irm: If-Range evaluation (ignore_if_range=False)")
        elif tag == "bad" or lm == "bad":
            _skip("irm: etag / last_modified argument outside the vocabulary")
        else:
            rec = {"k": "irm", "req": req, "etag": tag, "lm": lm, "test": _test()}
        _tl.n = 1
        try:
            try:
                r = orig_irm(environ, etag, data, last_modified, ignore_if_range)
            except Exception as e:
                if rec is not None:
                    rec["exc"] = type(e).__name__
                    _records.append(rec)
                raise
        finally:
            _tl.n = 0
        if rec is not None:
            rec["exc"], rec["modified"] = "", bool(r)
            _records.append(rec)
        return r

    whttp.is_resource_modified = is_resource_modified

    # ------------------------------------------------------------------ _RangeWrapper sessions
    class Tee:
        """pass-through recorder around the wrapped iterator (keeps seek / tell / close)"""

        def __init__(self, inner, owner):
            self._inner, self._owner = inner, owner

        def __iter__(self):
            return self

        def __next__(self):
            o = self._owner
            if o["base"] is None:
                try:
                    o["base"] = int(self._inner.tell()) if o["seekable"] else 0
                except Exception:
                    o["base"] = 0
            chunk = next(self._inner)
            if isinstance(chunk, (bytes, bytearray)) and o["n"] < 200000:
                o["pulled"].append(bytes(chunk))
                o["n"] += len(chunk)
            else:
                o["broken"] = True
            return chunk

        def __getattr__(self, name):
            return getattr(self._inner, name)

    orig_rw_init = wwsgi._RangeWrapper.__init__
    orig_rw_next = wwsgi._RangeWrapper.__next__

    def rw_init(self, iterable, start_byte=0, byte_range=None):
        orig_rw_init(self, iterable, start_byte, byte_range)
        if getattr(_tl, "copying", False):
            return
        sess = {"k": "rw", "start": start_byte, "len": byte_range, "seekable": bool(self.seekable), "base": None, "pulled": [], "n": 0,
                "out": [], "finished": False, "exc": "", "empty_chunk": False, "broken": False, "test": _test()}
        self.iterable = Tee(self.iterable, sess)
        self._verif = sess
        _records.append(sess)

    def rw_next(self):
        sess = getattr(self, "_verif", None)
        try:
            chunk = orig_rw_next(self)
        except StopIteration:
            if sess is not None:
                sess["finished"] = True
            raise
        except Exception as e:
            if sess is not None:
                sess["exc"] = type(e).__name__
            raise
        if sess is not None:
            if isinstance(chunk, (bytes, bytearray)):
                sess["out"].append(bytes(chunk))
                if len(chunk) == 0:
                    sess["empty_chunk"] = True
            else:
                sess["broken"] = True
        return chunk

    wwsgi._RangeWrapper.__init__ = rw_init
    wwsgi._RangeWrapper.__next__ = rw_next

    # ------------------------------------------------------------------ make_conditional
    orig_mc = Response.make_conditional

    def _finalised(resp, environ):
        hs = resp.get_wsgi_headers(environ)
        return {"status": int(resp.status_code), "cr": _hdr_out(hs, "Content-Range"), "cl": _hdr_out(hs, "Content-Length"),
                "r_etag": _hdr_out(hs, "ETag"), "r_lm": _hdr_out(hs, "Last-Modified"), "cc": _hdr_out(hs, "Cache-Control"),
                "exp": _hdr_out(hs, "Expires"), "xsfh": _hdr_out(hs, "X-Sendfile")}

    def _copy_body(resp, snapshot):
        """the bytes the finalised response would send, from a copy; None if no copy is possible"""
        if snapshot is None:
            return None
        body = resp.response
        if isinstance(body, wwsgi._RangeWrapper):
            _tl.copying = True
            try:
                w = wwsgi._RangeWrapper(list(snapshot), body.start_byte, body.byte_range)
                out, it = [], iter(w)
                while True:
                    try:
                        out.append(orig_rw_next(it))
                    except StopIteration:
                        break
                return b"".join(out)
            finally:
                _tl.copying = False
        if isinstance(body, (list, tuple)):
            return b"".join(snapshot)
        return None

    def make_conditional(self, request_or_environ, accept_ranges=False, complete_length=None):
        if _depth():
            return orig_mc(self, request_or_environ, accept_ranges, complete_length)
        environ = getattr(request_or_environ, "environ", request_or_environ)
        rec = None
        req, why = _request_part(environ) if isinstance(environ, dict) else (None, "environ is not a dict")
        snapshot = None
        if isinstance(self.response, (list, tuple)) and all(isinstance(x, bytes) for x in self.response):
            snapshot = list(self.response)
        tag, lm = _tag_of(self.headers.get("ETag")), _lm_of(self.headers.get("Last-Modified"))
        if why:
            _skip("mc: " + why)
        elif self.status_code != 200:
            _skip("mc: response status preset to something else than 200")
        elif tag == "bad" or lm == "bad":
            _skip("mc: ETag / Last-Modified header outside the vocabulary")
        elif complete_length is not None and (not isinstance(complete_length, int) or complete_length < 0 or complete_length >= 2 ** 31):
            _skip("mc: complete_length not a small int")
        elif snapshot is not None and self.headers.get("Content-Length") not in (None, str(sum(map(len, snapshot)))):
            _skip("mc: the test preset a Content-Length that is not the body length")
        elif snapshot is not None and complete_length is not None and complete_length != sum(map(len, snapshot)):
            _skip("mc: complete_length differs from the body length")
        else:
            data = b"".join(snapshot) if snapshot is not None else None
            rec = {"k": "mc", "req": req, "etag": tag, "lm": lm, "accept_ranges": bool(accept_ranges),
                   "length": complete_length if complete_length is not None else (len(data) if data is not None else 0),
                   "len_known": bool(accept_ranges) and complete_length is not None, "data": list(data) if data is not None and len(data) <= 5000 else None,
                   "shape": "list" if snapshot is not None else type(self.response).__name__, "test": _test()}
        _tl.n = 1
        try:
            try:
                r = orig_mc(self, request_or_environ, accept_ranges, complete_length)
            except HTTPException as e:
                if rec is not None:
                    rec.update(exc=type(e).__name__, status=int(e.code or 0), body=None)
                    _records.append(rec)
                raise
            except Exception as e:
                if rec is not None:
                    rec.update(exc=type(e).__name__, status=0, body=None)
                    _records.append(rec)
                raise
        finally:
            _tl.n = 0
        if rec is not None:
            try:
                rec.update(_finalised(self, environ))
                body = _copy_body(self, snapshot)
                if environ.get("REQUEST_METHOD") == "HEAD" or rec["status"] in (304,):
                    body = None
                rec.update(exc="", body=list(body) if body is not None and rec["data"] is not None else None)
                _records.append(rec)
            except Exception as e:      # the recorder must never disturb the test
                _skip("mc: recorder could not finalise a copy (%s)" % type(e).__name__)
        return r

    Response.make_conditional = make_conditional

    # ------------------------------------------------------------------ send_file / send_from_directory
    orig_sf = wutils.send_file
    sig = inspect.signature(orig_sf)

    def _file_rec(api, path, environ, etag, last_modified, max_age, conditional, xsf):
        req, why = _request_part(environ) if isinstance(environ, dict) else (None, "environ is not a dict")
        if why:
            _skip(api + ": " + why)
            return None
        if req["im"] is not None:
            _skip(api + ": If-Match against a file")
            return None
        lm_given = None
        if last_modified is not None:
            lm_given = _lm_of(last_modified)
            if lm_given == "bad":
                _skip(api + ": last_modified argument outside the vocabulary")
                return None
        mode, n = "none", 0
        if callable(max_age):
            try:
                v = max_age(path)
            except Exception:
                _skip(api + ": max_age callable raised")
                return None
            mode, n = ("callable", v) if v is not None else ("none", 0)
        elif max_age is not None:
            mode, n = "int", max_age
        if not isinstance(n, int) or n < 0 or n > 10 ** 8:
            _skip(api + ": max_age outside the vocabulary")
            return None
        return {"k": "file", "api": api, "req": req, "path": path, "etag_mode": "auto" if etag is True else "off" if not etag else "given",
                "etag_given": etag if isinstance(etag, str) else "", "lm_given": lm_given, "max_age_mode": mode, "max_age": n,
                "conditional": bool(conditional), "xsf": bool(xsf), "t_before": int(time.time()), "test": _test()}

    def _file_facts(rec):
        st = os.stat(rec["path"])
        rec["size"], rec["mtime_s"], rec["mtime_us"] = st.st_size, st.st_mtime_ns // 10 ** 9, (st.st_mtime_ns % 10 ** 9) // 1000
        data = None
        if st.st_size <= 5000:
            with open(rec["path"], "rb") as f:
                data = f.read()
        rec["data"] = list(data) if data is not None else None

    def send_file(*args, **kwargs):
        if _depth():
            return orig_sf(*args, **kwargs)
        rec = None
        try:
            b = sig.bind(*args, **kwargs)
            b.apply_defaults()
            a = b.arguments
            pf = a["path_or_file"]
            if isinstance(pf, (str, os.PathLike)) and a["response_class"] is None:
                path = os.fspath(pf)
                path = os.path.join(a["_root_path"], path) if a["_root_path"] is not None else os.path.abspath(path)
                if os.path.isfile(path):
                    rec = _file_rec("sf", path, a["environ"], a["etag"], a["last_modified"], a["max_age"], a["conditional"], a["use_x_sendfile"])
                else:
                    _skip("sf: path is not a file")
            else:
                _skip("sf: file object or custom response class (make_conditional is recorded instead)")
        except TypeError:
            _skip("sf: arguments do not bind")
        if rec is None:
            return orig_sf(*args, **kwargs)       # inner make_conditional is recorded as "mc"
        _tl.n = 1
        try:
            try:
                rv = orig_sf(*args, **kwargs)
            except HTTPException as e:
                rec.update(exc=type(e).__name__, status=int(e.code or 0))
                try:
                    _file_facts(rec)
                    rec["t_after"] = int(time.time()) + 1
                    _records.append(rec)
                except OSError:
                    pass
                raise
            except Exception:
                _skip("sf: raised (API misuse tests)")
                raise
        finally:
            _tl.n = 0
        try:
            _file_facts(rec)
            rec.update(_finalised(rv, a["environ"]))
            rec.update(exc="", t_after=int(time.time()) + 1)
            _records.append(rec)
        except Exception as e:
            _skip("sf: recorder could not read the result (%s)" % type(e).__name__)
        return rv

    wutils.send_file = send_file          # send_from_directory resolves the name at call time -> recorded as send_file

    # ------------------------------------------------------------------ SharedDataMiddleware
    orig_call = SharedDataMiddleware.__call__
    orig_opener = SharedDataMiddleware._opener

    def _opener(self, filename):
        _tl.opened = filename
        return orig_opener(self, filename)

    def sdm_call(self, environ, start_response):
        if _depth():
            return orig_call(self, environ, start_response)
        _tl.opened = None
        seen = {}

        def sr(status, headers, exc_info=None):
            seen["status"], seen["headers"] = status, list(headers)
            return start_response(status, headers, exc_info) if exc_info is not None else start_response(status, headers)

        t0 = int(time.time())
        _tl.n = 1
        try:
            rv = orig_call(self, environ, sr)
        finally:
            _tl.n = 0
        try:
            path = getattr(_tl, "opened", None)
            if path is None or not os.path.isfile(path) or "status" not in seen:
                _skip("sdm: not served from a plain file (fall through, package loader)")
            elif not self.cache:
                _skip("sdm: cache headers disabled")
            elif environ.get("HTTP_RANGE") is not None or environ.get("HTTP_IF_RANGE") is not None:
                _skip("sdm: Range sent to SharedDataMiddleware")
            else:
                rec = _file_rec("sdm", path, environ, True, None, self.cache_timeout, True, False)
                if rec is not None:
                    from werkzeug.datastructures import Headers

                    hs = Headers(seen["headers"])
                    _file_facts(rec)
                    rec.update({"status": int(seen["status"].split(" ", 1)[0]), "exc": "", "t_before": t0, "t_after": int(time.time()) + 1})
                    for key, name in (("cr", "Content-Range"), ("cl", "Content-Length"), ("r_etag", "ETag"), ("r_lm", "Last-Modified"),
                                      ("cc", "Cache-Control"), ("exp", "Expires"), ("xsfh", "X-Sendfile")):
                        rec[key] = _hdr_out(hs, name)
                    _records.append(rec)
        except Exception as e:
            _skip("sdm: recorder failed (%s)" % type(e).__name__)
        return rv

    SharedDataMiddleware._opener = _opener
    SharedDataMiddleware.__call__ = sdm_call


def pytest_sessionfinish(session, exitstatus):
    out = os.environ.get("VERIF_TRACE_OUT")
    if not out:
        return
    recs = []
    for r in _records:
        if r.get("k") == "rw":
            if r["broken"]:
                _skip("rw: non-bytes chunk or more than 200000 bytes pulled")
                continue
            r = dict(r, pulled=list(b"".join(r["pulled"])), out=list(b"".join(r["out"])))
        recs.append(r)
    with open(out, "w") as f:
        json.dump({"records": recs, "skipped": _skipped}, f)
