"""Registry of the property checks that are claimed (source of MANIFEST.json, see tools/mkmanifest.py)."""

CHECKS = {
    "C01": dict(
        category="model_checking",
        text=("TLC exhaustively checks an implementation-shaped TLA+ model of MultipartDecoder (every generator body x every "
              "arrival schedule within the bounds) for chunking independence; the model is bound to the code both ways: "
              "TLC-generated bodies are replayed on the real decoder under all 2-way/3-way/byte-wise splits, and recorded "
              "executions of the real decoder and MultiPartParser (corpus x schedules x buffer sizes x short reads) are "
              "judged step by step by the TLC trace spec, which also reports model drift."),
        note=("Trusted: TLC, the JSON trace encoding, the recorder in harness/mp.py. Reference = the real code's own one-piece "
              "decode (the property is independence). Exhaustive only within the model bounds (boundary b/bnd, 5-6 symbol "
              "alphabet, payload <= 4, <= 3 chunks); beyond that sampled."),
        technique="TLA+ model checking (TLC) + trace validation of the real decoder against the spec",
        design_ref="6/C01",
    ),
}


# properties not (yet) claimed, with the reason (kept current; see DESIGN.md section 8)
NOT_APPLICABLE = {
    "C02": "check not built yet in this round (specification planned in DESIGN.md section 6/C02); nothing is claimed until it is",
    "C03": "check not built yet in this round (specification planned in DESIGN.md section 6/C03); nothing is claimed until it is",
    "C04": "check not built yet in this round (specification planned in DESIGN.md section 6/C04); nothing is claimed until it is",
    "C05": "check not built yet in this round (specification planned in DESIGN.md section 6/C05); nothing is claimed until it is",
    "C06": "check not built yet in this round (specification planned in DESIGN.md section 6/C06); nothing is claimed until it is",
    "C07": "check not built yet in this round (specification planned in DESIGN.md section 6/C07); nothing is claimed until it is",
    "C08": "check not built yet in this round (specification planned in DESIGN.md section 6/C08); nothing is claimed until it is",
    "C09": "check not built yet in this round (specification planned in DESIGN.md section 6/C09); nothing is claimed until it is",
    "C11": "check not built yet in this round (specification planned in DESIGN.md section 6/C11); nothing is claimed until it is",
    "C12": "check not built yet in this round (specification planned in DESIGN.md section 6/C12); nothing is claimed until it is",
    "C13": "check not built yet in this round (specification planned in DESIGN.md section 6/C13); nothing is claimed until it is",
    "C14": "check not built yet in this round (specification planned in DESIGN.md section 6/C14); nothing is claimed until it is",
    "C15": "check not built yet in this round (specification planned in DESIGN.md section 6/C15); nothing is claimed until it is",
    "C16": "check not built yet in this round (specification planned in DESIGN.md section 6/C16); nothing is claimed until it is",
    "C17": "check not built yet in this round (specification planned in DESIGN.md section 6/C17); nothing is claimed until it is",
    "C18": "check not built yet in this round (specification planned in DESIGN.md section 6/C18); nothing is claimed until it is",
    "C19": "check not built yet in this round (specification planned in DESIGN.md section 6/C19); nothing is claimed until it is",
    "C20": "check not built yet in this round (specification planned in DESIGN.md section 6/C20); nothing is claimed until it is",
}
