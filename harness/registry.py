"""Registry of the property checks that are claimed (source of MANIFEST.json, see tools/mkmanifest.py)."""

CHECKS = {
    "C10": dict(
        category="model_checking",
        text=("TLC exhaustively checks the decoder model with max_form_memory_size / max_parts constants for BufBound, "
              "PartsBound, OnlyTooLarge and GuardPurity over every generator body and schedule; the real decoder, "
              "MultiPartParser and Request.form/files are then run under limit combinations taken around each body's own "
              "field sizes, part count and length (v-1, v, v+1, None), with/without CONTENT_LENGTH and wsgi.input_terminated, "
              "each next to the unlimited reference, and every step is judged by the TLC trace spec (buffer bound after each "
              "receive, limit enforced, declared-too-large bodies unread, bytes consumed <= maximum, purity)."),
        note=("Trusted: TLC, trace encoding, harness/mp.py recorders (a counting wsgi.input). A spurious 413 is not a violation. "
              "For urlencoded bodies max_form_memory_size is required only when CONTENT_LENGTH is present (documented behaviour)."),
        technique="TLA+ model checking (TLC) + trace validation of decoder/parser/Request runs under limits",
        design_ref="6/C10",
    ),
    "C02": dict(
        category="model_checking",
        text=("TLC checks the event-level MultipartEncoder model composed with the decoder model (every part list x every "
              "fragmentation of the payloads into Data events decodes to the intended parts) and the urlencoded inverse law "
              "over representative code points; TLC-generated cases are replayed on the real encoder/decoder, and seeded "
              "cases over the documented Unicode/byte domain are pushed through MultipartEncoder->MultipartDecoder, "
              "encode_multipart->MultiPartParser and EnvironBuilder->Request.form/files/args; intended vs parsed values are "
              "judged by the TLC trace spec, which also decides domain membership and reports encoder / urlencoding drift."),
        note=("Trusted: TLC, trace encoding, the generators in harness/props/c02.py. mimetypes.guess_type is outside (content "
              "types explicit). Exhaustive only within the model bounds; the Unicode domain is sampled (seeded)."),
        technique="TLA+ model checking (TLC) of encoder+decoder composition + trace validation of three real encode->parse paths",
        design_ref="6/C02",
    ),
    "C09": dict(
        category="model_checking",
        text="TLC exhaustively checks an implementation-shaped TLA+ model of LimitedStream plus its environment (every scenario x call sequence x fragmentation/fault choice within bounds) against an observables-only contract (no over-read, prefix, position accounting, disconnect/too-large table, no truncation, caller buffer, step bound); models of the two known defective implementations must fail. All exported model behaviours and the get_input_stream decision table are replayed on the real code, and enumerated + seeded executions under raw/BufferedReader/TextIOWrapper are judged call by call by the TLC trace spec with the same contract operators.",
        note="Trusted: TLC, JSON trace encoding, harness/limitedstream.py (plan stream, recorder). Exhaustive only for the raw stream within bounds (data <= 8 bytes, <= 5 calls, <= 4 bytes per underlying call, <= 2 injected errors); buffering wrappers are trace-validated only and content claims weaken after an exception under them; hang detection counts underlying calls, not wall-clock.",
        technique="TLA+ model checking (TLC) + spec-to-code behaviour replay + trace validation",
        design_ref="6/C09",
    ),
    "C16": dict(
        category="model_checking",
        text="TLC exhaustively checks an implementation-shaped TLA+ model of HeaderSet / WWWAuthenticate / cache-control views bound to a header store (two live views, direct edits, all histories of a bounded universe) against the documented-model contract (header text = serialisation of the last mutated view, absent iff empty, re-read equals view); every exported model transition is replayed on a real Response and recorded histories over all nine view properties, whole-property assignments, direct edits and twenty scalar typed properties are judged line by line by the TLC trace spec.",
        note="Trusted: TLC, JSON encoding, recorder harness/headerviews.py (reads only the public API). Exhaustive only within the model universes (3-4 items, 2 schemes, 1-2 keys, 2-3 directives); beyond that enumerated short histories and seeded walks. Input domain = printable ASCII; parser behaviour on non-canonical direct edits is taken from the observed fresh view (C06's domain).",
        technique="TLA+ model checking (TLC) + LTS export replay + trace validation against a documented-model spec",
        design_ref="6/C16",
    ),
    "C17": dict(
        category="model_checking",
        text="TLC exhaustively checks, for every header text of <=2-3 items over a per-family range universe x q texts (absent, 0, 0.001, 0.5, 1, 1.000, malformed, negative, >1) and every offer list of <=2-3, that the spec's own header parser ignores bad q and that an implementation-shaped model (stable (specificity,q) sort, first-match quality, best_match loop, three-stage language fallback) meets the declarative contract (highest positive quality, most specific range decides, ties by specificity then offer order, never q=0/unmatched); TLC-exported cases and realistic/seeded random headers are executed on parse_accept_header, Request.accept_* and the four Accept classes, and a TLC trace spec that parses the header text itself judges item order, every quality(offer) and best_match.",
        note="Trusted: TLC, the recorder in harness/accept.py, the charset alias table (self-checked against the codec registry). Exhaustive only within the model bounds; beyond them sampled. Domain: unquoted token headers, q <= 3 decimals. LanguageAccept judged against the documented fallbacks read strictly (an exact q=0 match is never overridden).",
        technique="TLA+ model checking (TLC) of a negotiation contract vs. an implementation-shaped model + TLC trace validation of the real Accept classes",
        design_ref="6/C17",
    ),
    "C11": dict(
        category="model_checking",
        text="A TLA+ contract with its own parsers of ETag lists, HTTP dates, If-Range, Range and Content-Range (May304/Must304/May412, range classes, body/header agreement) plus implementation-shaped models (the _RangeWrapper state machine over every block composition incl. empty blocks; the make_conditional decision order) are checked exhaustively by TLC for bounded universes; eight broken model variants must violate. Exported model cases are replayed on Response.make_conditional / send_file / is_resource_modified, and recorded executions over the validator product, the If-Range family, every range spec around every length x body shape x block size and seeded random cases are judged by TLC from the header texts (status, Content-Range, Content-Length, body bytes).",
        note="Trusted: TLC, trace encoding, harness/conditional.py. Exhaustive within bounds (length <= 12 / <= 9, block <= 5). Accepted either way (unclaimed): malformed tag lists, If-None-Match without response ETag, Range on zero/unknown length, other units, whitespace inside range-specs, HEAD with 206 headers; Range combined with If-None-Match / If-Modified-Since is not judged; a satisfiable range answered by a full 200 is drift only.",
        technique="explicit TLA+ spec + TLC model checking + spec->code case export/replay + code->spec trace judging (ConditionalTrace.tla)",
        design_ref="6/C11",
    ),
    "C18": dict(
        category="model_checking",
        text="TLC checks the per-context reference model of werkzeug.local (Local, LocalStack, LocalManager, release_local, LocalProxy) against the isolation laws of the property and checks an implementation-shaped heap-of-shared-references model (ContextVar -> dict/list reference, spawn copies references, copy-on-write mutators) against that contract for every interleaving of <= 3 contexts within the bounds (and for behaviours of any length in a small universe); nine broken variants of the heap model must be refuted. The contract's exported transition system is covered transition by transition on the real objects with contexts realised as copy_context() objects, lock-stepped real threads and hand-stepped asyncio tasks, plus seeded random schedules; after every step every live context's reads are judged by the TLC trace spec.",
        note="Trusted: TLC, JSON trace encoding, recorder harness/locals.py (incl. observing the stack by draining a copied context). Oracle = contract transcribed from docs/property. Exhaustive only within bounds (3 contexts, names {x,y}, 2 objects, depth <= 2, <= 5/7 ops; unbounded length for 1 name/depth 1); interleaving granularity = one public operation (no preemption inside an operation); iteration order, push()'s return value, callable/ContextVar proxies and the repo's own test traces are not covered.",
        technique="TLA+ model checking (TLC): contract + refinement of a heap model, LTS export replay and trace validation in three context realisations",
        design_ref="6/C18",
    ),
    "C03": dict(
        category="model_checking",
        text="TLC exhaustively checks an implementation-shaped TLA+ model of StateMachineMatcher (trie, static-first, weight-ordered backtracking, slash and merged-slashes handling, 405 bookkeeping) against a declarative contract Expected transcribed from the documentation, for every map of <=2 (3) rules of a 31-rule universe in every insertion order x strict/merge settings x every path of <=3 parts over a 5 (10) token alphabet; the model's cases are replayed on real Map objects and recorded MapAdapter.match outcomes of exhaustive rule pairs and seeded random maps of 1..6 rules in several insertion orders are judged by the TLC trace spec (outcome must be in Expected).",
        note="Trusted: TLC, the JSON encoding, the recorder harness/routing.py. Oracle = documented meaning; undocumented ties accepted either way; 405 required only for exact other-method admission; tripled slashes, path values starting with '/', doubled trailing slash under strict_slashes=False and the empty path are outside the domain. Exhaustive only within the model bounds; beyond that sampled.",
        technique="TLA+ model checking (TLC) of matcher model vs declarative contract + trace validation of real Map.match",
        design_ref="6/C03",
    ),
    "C12": dict(
        category="model_checking",
        text="TLC checks on the matcher model that every slash / merged-slashes redirect target matches at once with a contract-accepted result; recorded redirect chains of real adapters (per-rule slash overrides, defaults and alias pairs, 6 binds, //host, non-ASCII, %-paths, string/mapping queries) are judged by the TLC trace spec for OnBoundHost, QueryPreserved, Converges and SameDenotation.",
        note="Defaults / alias redirects are covered by recorded executions only (not in the bounded model); redirect_to is outside the claim; alias and defaults rules are generated with their canonical rule and a URL of their own; target delivery (strip script root, percent-decode) is done by the harness and cross-checked in TLA+ (Delivery).",
        technique="TLA+ trace validation (TLC) of followed redirect chains + bounded model check of redirect convergence",
        design_ref="6/C12",
    ),
    "C08": dict(
        category="model_checking",
        text="TLC exhaustively checks the documented container model (insertion-ordered multimap; case-insensitive ordered pairs for Headers; case-insensitive ordered set for HeaderSet, plus an implementation-shaped list+set model) over bounded alphabets to the fixpoint: representation invariants, coherence laws between reads, documented post-conditions of every mutator. The model's complete labelled transition system is exported and every transition is replayed on the real objects along covering walks; seeded random scenarios with several live objects (copies, pickles, deep copies, immutable/combined/file variants, environ views) are recorded; after every call the return value/exception class, all public reads of every live object and ==/hash probes are judged by the TLC trace spec.",
        note="Trusted: TLC, JSON encoding, recorder harness/containers.py. Exhaustive only inside the bounds (<=3 keys incl. case variants, 2 values, lists <=2, <=3-4 entries); views/copies only in sampled traces; ASCII; empty-value-list entries accepted in either view; CombinedMultiDict equality/hash is an open known finding (F83).",
        technique="TLA+ model checking (TLC) + replay of the exported transition system + trace validation",
        design_ref="6/C08",
    ),
    "C04": dict(
        category="model_checking",
        text="TLA+ models of URL building (to_url per converter incl. zfill and quoting safe sets, suitable_for, build_compare_key order, defaults, query encoding, script root, subdomain/host, force_external) and of matching the delivered URL are checked by TLC against the inverse laws (build -> deliver -> match returns the endpoint, values and query; rebuild returns the URL; neighbours are fixed points) over 8 rule shapes x 12 converters x representative code points x 7 bindings x 3 script roots; the pre-fix variants must violate. Every model case and seeded random maps of 1-5 rules (all converters/options, Submount/Subdomain, host matching, ports, extra query values) plus a code-point sweep are executed on the real Map/MapAdapter (also through bind_to_environ after the WSGI latin-1 dance) and judged by the TLC trace spec; model-vs-real URL differences are drift only.",
        note="Trusted: TLC, trace encoding, harness/routing_build.py (Deliver is cross-checked: a HarnessDeliver mismatch is a machinery failure). At most one variable per segment; static subdomains/hosts; methods, alias, websocket, redirect_to, sort_parameters, converter min/max not checked; floats with <=15 significant digits in positional notation; any-items exclude characters rule syntax cannot express.",
        technique="TLA+ contract + model (RoutingBuild), TLC exhaustive laws, model-case export/replay, trace judge RoutingBuildTrace over seeded random maps and a code-point sweep",
        design_ref="6/C04",
    ),
    "C06": dict(
        category="model_checking",
        text="TLC exhaustively checks a TLA+ transcription of both halves of every header codec (quote, list, dict, options, ETags, Range, Content-Range, Age, CSP, IMF-fixdate with UTC normalisation): the inverse law over every value of the documented domain within the bounds and the normal-form law over every text (malformed included) over the syntax alphabets; TLC-exported values/texts are replayed on the real functions, and seeded Unicode values for 16 codecs (also set header, If-Range, Cache-Control properties, Authorization, WWW-Authenticate), a full sweep of code points < 256 and atom-built header texts are executed dump->parse->re-dump->re-parse and judged by the TLC trace spec (domain membership, parsed = v, reparsed = parsed), which also reports drift between real and transcribed dump/parse.",
        note="Trusted: TLC, the JSON trace encoding, harness/headercodec.py recorders/generators. base64, the Cache-Control property layer, email.utils' lenient parsing and RFC 2231 key*= forms are not transcribed (laws on recorded values / outside the domain). Exhaustive only within the model bounds; the Unicode domain is sampled. Range multi-range order is an open known finding (F62).",
        technique="TLA+ model checking (TLC) of codec transcriptions + export replay + trace validation of real round trips",
        design_ref="6/C06",
    ),
    "C14": dict(
        category="model_checking",
        text="TLC exhaustively checks a TLA+ transcription of safe_join (one step per untrusted component over code-point paths; posixpath.normpath/join modelled) against segment-wise containment for every tuple of <=3 components of <=3 atoms {.., ., '', /, //, \\, C:, ~, %2e%2e, NUL, a, a.b} on bases /s/r, r, '', /, the laws of the normal form, and an ASCII transcription of secure_filename (output predicates, idempotence, all strings to length 6-7); hand-broken variants must fail. The model's tables are exported and replayed on the real functions; recorded safe_join calls (more bases, look-alike atoms, seeded tuples), requests through send_from_directory and SharedDataMiddleware (directory, '/', relative, package exports) over a real temporary tree with sentinels outside the root, and secure_filename over code-point sweeps and seeded Unicode are judged line by line by the TLC trace spec, which also reports transcription drift.",
        note="Trusted: TLC, JSON trace encoding, harness/pathsafety.py recorders (content-id matching of bodies, percent-decoding like a WSGI server), the host POSIX filesystem. POSIX semantics only; lexical containment, no symlinks; NFKD logged from unicodedata, not modelled; exhaustive only within the model bounds, beyond that enumerated/sampled.",
        technique="TLA+ model checking (TLC) of safe_join / secure_filename transcriptions against the containment contract + table replay + trace validation of real safe_join calls, static-file requests over a sentinel tree, and secure_filename",
        design_ref="6/C14",
    ),
    "C15": dict(
        category="model_checking",
        text="TLC checks an implementation-shaped TLA+ model of the per-component IRI<->URI conversions against a contract over observables (ASCII, idempotence of each direction and of both round trips, component meaning = raw reserved delimiters vs data bytes unchanged, reserved/control escapes never unquoted, clean IRIs undone exactly) for every component string over symbol alphabets, and the DispatcherMiddleware loop against 'longest matching mount, SCRIPT_NAME+PATH_INFO preserved' for every mount table and path within bounds; the TLC tables are replayed on iri_to_uri/uri_to_iri/DispatcherMiddleware, and seeded URLs (userinfo, ASCII/IDN/IPv4/IPv6 hosts, ports, Unicode and all escape classes), EnvironBuilder->Request round trips (path, args, host, url, base_url, wsgi.get_current_url), dispatcher requests and the latin-1 dance are judged line by line by the TLC trace spec, which also reports model drift.",
        note="Trusted: TLC, trace encoding, generators in harness/iri.py, urllib.parse.urlsplit and Python's idna codec (host forms recorded as facts). Exhaustive only within model bounds; Unicode sampled (seeded). Tab/CR/LF, port 0, NFKC-delimiter userinfo outside the domain; URLs of escape-carrying EnvironBuilder paths not judged.",
        technique="TLA+ model checking (TLC) of codec and dispatcher models + table replay + trace validation of real conversions/environ round trips",
        design_ref="6/C15",
    ),
    "C19": dict(
        category="model_checking",
        text="TLC exhaustively checks an implementation-shaped TLA+ model of DechunkedInput.readinto against a strict chunked-grammar contract (every generated framing, truncation and header defect x every read-size sequence within the bounds), the response-writer decision table (protocol x HEAD x status x Content-Length x chunk lists) and the request-target functions; TLC-generated wires, writer cases and targets are replayed on the real DechunkedInput and on a real WSGIRequestHandler over a socket pair, and seeded random requests/applications are recorded and judged line by line by the TLC trace spec, which recomputes every expectation from the raw bytes and reports model drift.; a temporal TLA+ model of the WSGI call protocol in run_wsgi (start_response / exc_info / write / yield / raise / close; safety, action and liveness properties, final wire in the PEP 3333 contract) is checked for every application behaviour of <=5 actions, and every exported behaviour is replayed on the real handler and its wire bytes judged (clauses Proto...)",
        note="Trusted: TLC, the JSON encoding, the recorder in harness/devserver.py, the stub server object. Exhaustive only within model bounds (<=2-3 chunks, payload alphabet a/0/CR/LF, read sizes <=4 + drain); beyond that sampled. Lenient size texts, chunk extensions, trailers, non-UTF-8 percent sequences are unclaimed; a leading '//' may arrive collapsed (http.server); live socket server/TLS/keep-alive not exercised. Header commit point (first chunk vs first non-empty chunk) accepted either way; close() count of the app iterable, LintMiddleware agreement and pipelined/keep-alive requests are reported as drift only (not named by the property).",
        technique="TLA+ model checking (TLC) + spec->code replay + trace validation of the real handler against the spec",
        design_ref="6/C19",
    ),
    "C01": dict(
        category="model_checking",
        text="TLC exhaustively checks an implementation-shaped TLA+ model of MultipartDecoder (every generator body x every arrival schedule within the bounds) for chunking independence; the model is bound to the code both ways: TLC-generated bodies are replayed on the real decoder under all 2-way/3-way/byte-wise splits, and recorded executions of the real decoder and MultiPartParser (corpus x schedules x buffer sizes x short reads) are judged step by step by the TLC trace spec, which also reports model drift. The repository's own multipart/form/request tests are run under a recording pytest plugin and every MultipartDecoder session they create is judged step by step by the same trace spec.",
        note="Trusted: TLC, the JSON trace encoding, the recorder in harness/mp.py. Reference = the real code's own one-piece decode (the property is independence). Exhaustive only within the model bounds (boundary b/bnd, 5-6 symbol alphabet, payload <= 4, <= 3 chunks); beyond that sampled.",
        technique="TLA+ model checking (TLC) + trace validation of the real decoder against the spec",
        design_ref="6/C01",
    ),
    "C05": dict(
        category="model_checking",
        text="TLC exhaustively checks a sequential TLA+ model of every Headers mutator over all histories of a bounded universe (no CR/LF value is ever stored, a call raises exactly when it attempts to store one) and the finalisation decision table (body shape x items x status int/HTTPStatus/'code reason' x method x preset Content-Length x Location x autocorrect x pre-access x close callbacks x server plan) against the clauses of the property; every exported transition / table row is executed on real Headers / Response objects and seeded random histories and responses far outside the model alphabets are recorded; each line is judged by the TLC trace spec (native CR/LF-free values, refusal, computed Content-Length = bytes produced, no body for HEAD/1xx/204/304, no Content-Length for 1xx/204, ASCII Location, every callback and the iterable's close exactly once), other disagreements are model drift.; plus a TLA+ state machine of the response body between construction and output (set_data/data/get_data, response assignment, make_sequence, freeze, iter_encoded, calculate_content_length, stream write/writelines/tell, implicit_sequence_conversion and direct_passthrough toggles) model-checked over all histories of depth <= 4, its exported transition system replayed on real Response objects and seeded histories judged against the same clauses; and every werkzeug.exceptions class plus RequestRedirect rendered via get_response/__call__ with CR/LF / non-ASCII arguments, judged by the same trace spec.",
        note="Trusted: TLC, the JSON trace encoding, the recorders/spies in harness/response.py. Exhaustive only within the model bounds (names X/x/Y, list length <= 3, item alphabet a/e-acute/empty/lone byte, 13 status codes); beyond that seeded sampling. Header names, status strings, freeze(), str-subclass values and Locations that urlsplit/IDNA reject are outside the claim. Shape histories: close exactly once is required for the body wrapped at finalisation and for iterables werkzeug itself consumed; iterables the application replaced or consumed are only checked for no double close. Exceptions: ValueError from get_response counts as refusal only when a header-bound argument contains CR/LF; HEAD lengths are compared with the GET twin. Open finding F101 (stale Content-Length after assigning the response attribute).",
        technique="TLA+ model checking (TLC) of mutator histories and the finalisation table + trace validation of real Headers/Response runs",
        design_ref="6/C05",
    ),
    "C20": dict(
        category="model_checking",
        text="TLC exhaustively checks (a) host_is_trusted, transcribed into TLA+, against the label-wise contract HostTrust!Verdicts for every (host, trusted list) pair of a label grammar (look-alikes, case variants, empty/over-long labels, ports, bracketed and bare literals) plus laws of the contract, and (b) an implementation-shaped model of DebuggedApplication's dispatch and PIN failure counter against the gate contract (eval only with evalex, trusted Host, secret, known frame and valid cookie or PIN off; console/pinauth/printpin only for trusted Hosts; lock-out absorbing) for the whole request product from every counter value 0..255; models of the pinned code and three broken variants must fail. Bound both ways: exported pairs/transitions are replayed on the real functions and a real DebuggedApplication (spy frame, frozen clock, hash_pin cookies), and recorded executions (entry neighbours, code point sweep, random histories, PIN-attempt sequences, a 260-step history) are judged line by line by the TLC trace spec, which reports model drift.; the X-Forwarded-* selection table of ProxyFix and the SERVER_NAME/SERVER_PORT fallback are specified in ProxyFix.tla, model-checked for their laws (client-prepended values never matter, selected host decides, bracketed literals intact), exported row by row and replayed on the real middleware, and composed with the trusted-host contract: Request(environ_after_ProxyFix, trusted_hosts).host/host_url/root_url accept only a host HostTrust!Verdicts admits for the selected forwarded host, and values a client puts in front of the proxies' values never turn a rejection into acceptance.",
        note="Trusted: TLC, JSON trace encoding, recorder harness/hosttrust.py (observable extraction). IDNA ToASCII uninterpreted (recorded). Either verdict accepted for case/IDNA-equivalent/trailing-dot/odd-port/malformed-entry cases. Positive clauses only with PIN on. Exhaustive only within model bounds; traceback-page path, real frame objects, run_simple, multi-process counter not exercised. Usability (positive) clauses are checked on the model and reported as drift on the code, never as verdicts. ProxyFix: judged cases carry no quoted list items (quote/backslash only in client-prepended twin values, outcome changes there are drift); environ-key placement, URL texts, access_route and 'listed but rejected' are drift only.",
        technique="TLA+ model checking (TLC) of contract + implementation-shaped models; spec->code replay of exported tables/LTS; TLC trace validation of recorded executions",
        design_ref="6/C20",
    ),
    "C13": dict(
        category="model_checking",
        text="TLC checks an implementation-shaped TLA+ model of dump_cookie and of the request cookie parser (_cookie_re scanner, strip, unslash) against the contract (value ASCII, every octet outside RFC 6265 cookie-octet quoted and escaped, decodes to the text; header = pair + exactly the requested attributes in canonical spelling and order; ParseCookie(Dump)=identity) for every value <=3-5 chars over 18 representative code points, every byte value and class-boundary code point, and attribute products; the pinned escape class must violate it. The model universe is exported and replayed on the real code; together with a boundary code-point sweep and seeded Unicode/attack-string cases through dump_cookie/Response.set_cookie -> sansio parse_cookie, http.parse_cookie(environ) and the test client's jar, every recorded line is judged by the TLC trace spec, which also reports model drift (incl. the real parser vs the scanner model on random Cookie strings). The test client's jar is additionally modelled as a TLA+ state machine (ClientJar.tla: stored cookies keyed by (domain, path, name), model clock; Set-Cookie set/overwrite/delete, followed redirects, Client.set_cookie/delete_cookie/get_cookie). TLC checks the contract on every transition of every history up to depth 3-4 (live undeleted cookie returned unchanged on every matching request, nothing to a non-matching origin/path or after deletion, stored attributes = requested) and requires three broken matcher/delete variants to fail; the exported transition system is replayed on a real Client and seeded random histories are judged by ClientJarTrace.tla.",
        note="Trusted: TLC, trace encoding, harness/cookie.py recorders, IDNA table, HTTP-date arithmetic in Cookie.tla (validated against http_date by the green runs). Raw SP inside quotes accepted (documented by the test-suite); attribute order = pinned tree's. Exhaustive only within model bounds; Unicode sampled (seeded). Jar flow limited to unreserved paths / ASCII lower-case hosts. Attribute injection through the domain argument is observed but not claimed (the property quantifies over domains, not attack strings in them). Jar: expiry by clock and Secure-over-http are accepted either way (documented as ignored by the client); Set-Cookie with a Domain not covering the host is out of contract; the jar model is exhaustive only within 3 hosts x 3 paths x <=2 names x <=6 lifetimes, depth <=4.",
        technique="TLA+ model checking (TLC) of dump/parse codec model + spec->code replay + trace validation of three parse-back paths",
        design_ref="6/C13",
    ),
    "C07": dict(
        category="exploration",
        text="TLC enumerates the hostile input space defined in spec/hostile (per header family every token sequence up to the bound, every field-value character in every context, pumped tokens and token pairs; invariants: in domain, bounded); the texts plus seeded random sequences are fed to every listed parser and, through client-controlled environ variables, to every public Request attribute; every distinct recorded outcome vector (type signature / exception class / 4xx code / CPU budget exhausted, per position) is judged by the TLC trace spec against the table of documented result signatures and the exception contract. Range / Content-Range and HTTP-date inputs are additionally generated from grammars (every numeric position n-1, n, n+1 relative to its neighbour, long digit runs; boundary instants x 21 zone forms).",
        note="Exploration, not model checking: TLA+ supplies the input grammar and the outcome contract; which inputs crash is found by running the code. Trusted: TLC, the recorder (type signatures, HTTPException test, ITIMER_VIRTUAL 10 s budget). Domain 0x20-0x7E and 0x80-0xFF; server-controlled variables and the body fixed; serialisers reported only; Request slots sampled for >=3-token texts; values not checked.",
        technique="TLC-generated and seeded hostile inputs + TLC-judged outcome contract (exception class / documented type / termination)",
        design_ref="6/C07",
    ),
    # --- END CHECKS (new entries go above this line) ---
}


# properties not (yet) claimed, with the reason (kept current; see DESIGN.md section 8)
NOT_APPLICABLE = {
}
