"""Registry of the property checks that are claimed (source of MANIFEST.json, see tools/mkmanifest.py)."""

CHECKS = {
    "C01": dict(
        category="model_checking",
        text=("TLC exhaustively checks an implementation-shaped TLA+ model of MultipartDecoder (every generator body x every "
              "arrival schedule within the bounds) for chunking independence; the model is bound to the code both ways: "
              "TLC-generated bodies are replayed on the real decoder under all 2-way/3-way/byte-wise splits, and recorded "
              "executions of the real decoder and MultiPartParser (corpus x schedules x buffer sizes x short reads) are "
              "judged step by step by the TLC trace spec, which also reports model drift."),
        note=("Trusted: TLC, the JSON trace encoding, the recorder in harness/mp.py. Reference = the real code's own one-piece "
              "decode (the property is independence). Exhaustive only within the model bounds (boundary b/bnd, 5-6 symbol "
              "alphabet, payload <= 4, <= 3 chunks); beyond that sampled."),
        technique="TLA+ model checking (TLC) + trace validation of the real decoder against the spec",
        design_ref="6/C01",
    ),
    "C10": dict(
        category="model_checking",
        text=("TLC exhaustively checks the decoder model with max_form_memory_size / max_parts constants for BufBound, "
              "PartsBound, OnlyTooLarge and GuardPurity over every generator body and schedule; the real decoder, "
              "MultiPartParser and Request.form/files are then run under limit combinations taken around each body's own "
              "field sizes, part count and length (v-1, v, v+1, None), with/without CONTENT_LENGTH and wsgi.input_terminated, "
              "each next to the unlimited reference, and every step is judged by the TLC trace spec (buffer bound after each "
              "receive, limit enforced, declared-too-large bodies unread, bytes consumed <= maximum, purity)."),
        note=("Trusted: TLC, trace encoding, harness/mp.py recorders (a counting wsgi.input). A spurious 413 is not a violation. "
              "For urlencoded bodies max_form_memory_size is required only when CONTENT_LENGTH is present (documented behaviour)."),
        technique="TLA+ model checking (TLC) + trace validation of decoder/parser/Request runs under limits",
        design_ref="6/C10",
    ),
    "C02": dict(
        category="model_checking",
        text=("TLC checks the event-level MultipartEncoder model composed with the decoder model (every part list x every "
              "fragmentation of the payloads into Data events decodes to the intended parts) and the urlencoded inverse law "
              "over representative code points; TLC-generated cases are replayed on the real encoder/decoder, and seeded "
              "cases over the documented Unicode/byte domain are pushed through MultipartEncoder->MultipartDecoder, "
              "encode_multipart->MultiPartParser and EnvironBuilder->Request.form/files/args; intended vs parsed values are "
              "judged by the TLC trace spec, which also decides domain membership and reports encoder / urlencoding drift."),
        note=("Trusted: TLC, trace encoding, the generators in harness/props/c02.py. mimetypes.guess_type is outside (content "
              "types explicit). Exhaustive only within the model bounds; the Unicode domain is sampled (seeded)."),
        technique="TLA+ model checking (TLC) of encoder+decoder composition + trace validation of three real encode->parse paths",
        design_ref="6/C02",
    ),
    "C09": dict(
        category="model_checking",
        text="TLC exhaustively checks an implementation-shaped TLA+ model of LimitedStream plus its environment (every scenario x call sequence x fragmentation/fault choice within bounds) against an observables-only contract (no over-read, prefix, position accounting, disconnect/too-large table, no truncation, caller buffer, step bound); models of the two known defective implementations must fail. All exported model behaviours and the get_input_stream decision table are replayed on the real code, and enumerated + seeded executions under raw/BufferedReader/TextIOWrapper are judged call by call by the TLC trace spec with the same contract operators.",
        note="Trusted: TLC, JSON trace encoding, harness/limitedstream.py (plan stream, recorder). Exhaustive only for the raw stream within bounds (data <= 8 bytes, <= 5 calls, <= 4 bytes per underlying call, <= 2 injected errors); buffering wrappers are trace-validated only and content claims weaken after an exception under them; hang detection counts underlying calls, not wall-clock.",
        technique="TLA+ model checking (TLC) + spec-to-code behaviour replay + trace validation",
        design_ref="6/C09",
    ),
    # --- END CHECKS (new entries go above this line) ---
}


# properties not (yet) claimed, with the reason (kept current; see DESIGN.md section 8)
NOT_APPLICABLE = {
    "C03": "check not built yet in this round (specification planned in DESIGN.md section 6/C03); nothing is claimed until it is",
    "C04": "check not built yet in this round (specification planned in DESIGN.md section 6/C04); nothing is claimed until it is",
    "C05": "check not built yet in this round (specification planned in DESIGN.md section 6/C05); nothing is claimed until it is",
    "C06": "check not built yet in this round (specification planned in DESIGN.md section 6/C06); nothing is claimed until it is",
    "C07": "check not built yet in this round (specification planned in DESIGN.md section 6/C07); nothing is claimed until it is",
    "C08": "check not built yet in this round (specification planned in DESIGN.md section 6/C08); nothing is claimed until it is",
    "C11": "check not built yet in this round (specification planned in DESIGN.md section 6/C11); nothing is claimed until it is",
    "C12": "check not built yet in this round (specification planned in DESIGN.md section 6/C12); nothing is claimed until it is",
    "C13": "check not built yet in this round (specification planned in DESIGN.md section 6/C13); nothing is claimed until it is",
    "C14": "check not built yet in this round (specification planned in DESIGN.md section 6/C14); nothing is claimed until it is",
    "C15": "check not built yet in this round (specification planned in DESIGN.md section 6/C15); nothing is claimed until it is",
    "C16": "check not built yet in this round (specification planned in DESIGN.md section 6/C16); nothing is claimed until it is",
    "C17": "check not built yet in this round (specification planned in DESIGN.md section 6/C17); nothing is claimed until it is",
    "C18": "check not built yet in this round (specification planned in DESIGN.md section 6/C18); nothing is claimed until it is",
    "C19": "check not built yet in this round (specification planned in DESIGN.md section 6/C19); nothing is claimed until it is",
    "C20": "check not built yet in this round (specification planned in DESIGN.md section 6/C20); nothing is claimed until it is",
}
