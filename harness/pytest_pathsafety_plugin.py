"""pytest plugin (loaded with `-p harness.pytest_pathsafety_plugin`) that records what the repository's own
tests do with the path helpers of C14: every call of safe_join, secure_filename, send_from_directory (with the
path it hands to send_file) and every request through a SharedDataMiddleware (per loader kind: the exported root
and the name of the file that was actually opened).  Records go as JSON to $VERIF_TRACE_OUT at session end and
are judged by spec/pathsafety/PathSafetyTrace.tla (harness/props/c14.py: repo_test_traces).  Nothing in /repo
is modified: the wrapping happens in the test process only."""
from __future__ import annotations

import functools
import json
import os
import unicodedata

_records = []
_stack = []      # open send_from_directory / SharedDataMiddleware.__call__ records (innermost last)


def _test():
    return os.environ.get("PYTEST_CURRENT_TEST", "")[:160]


def _s(x):
    """str / PathLike[str] -> str, anything else -> None (outside the trace vocabulary)"""
    try:
        v = os.fspath(x)
    except TypeError:
        return None
    return v if isinstance(v, str) else None


def pytest_configure(config):
    import werkzeug.middleware.shared_data as sdm
    import werkzeug.security as sec
    import werkzeug.utils as utils
    from werkzeug.exceptions import HTTPException

    orig_join = sec.safe_join
    orig_san = utils.secure_filename
    orig_sfd = utils.send_from_directory
    orig_send_file = utils.send_file
    SDM = sdm.SharedDataMiddleware

    @functools.wraps(orig_join)
    def safe_join(directory, *pathnames):
        rec = {"k": "join", "test": _test(), "dir": directory if isinstance(directory, str) else None,
               "parts": [p if isinstance(p, str) else None for p in pathnames], "cwd": os.getcwd(),
               "altseps": [str(x) for x in sec._os_alt_seps], "kind": "", "v": "", "exc": ""}
        _records.append(rec)
        try:
            r = orig_join(directory, *pathnames)
        except BaseException as e:
            rec["kind"], rec["exc"] = "exc", type(e).__name__
            raise
        if r is None:
            rec["kind"] = "none"
        elif isinstance(r, str):
            rec["kind"], rec["v"] = "path", r
        else:
            rec["kind"], rec["exc"] = "exc", "type:" + type(r).__name__
        return r

    @functools.wraps(orig_san)
    def secure_filename(filename):
        rec = {"k": "san", "test": _test(), "x": filename if isinstance(filename, str) else None, "out": "", "out2": "",
               "nfkd": "", "exc": ""}
        _records.append(rec)
        try:
            out = orig_san(filename)
        except BaseException as e:
            rec["exc"] = type(e).__name__
            raise
        if isinstance(filename, str) and isinstance(out, str):
            rec["out"] = out
            rec["nfkd"] = unicodedata.normalize("NFKD", filename)
            try:
                rec["out2"] = orig_san(out)
            except Exception as e:
                rec["exc"] = "second:" + type(e).__name__
        else:
            rec["x"] = None
        return out

    @functools.wraps(orig_send_file)
    def send_file(path_or_file, environ, *a, **kw):
        if _stack and _stack[-1]["k"] == "sfd":
            p = _s(path_or_file)
            _stack[-1]["opened"].append(p if p is not None else "\x00not-a-path")
        return orig_send_file(path_or_file, environ, *a, **kw)

    @functools.wraps(orig_sfd)
    def send_from_directory(directory, path, environ, **kwargs):
        d, p = _s(directory), _s(path)
        root = d
        if d is not None and "_root_path" in kwargs:
            rp = _s(kwargs["_root_path"])
            root = os.path.join(rp, d) if rp is not None else None
        rec = {"k": "sfd", "test": _test(), "api": "send_from_directory", "root": root, "path": p, "cwd": os.getcwd(),
               "opened": [], "status": 0, "exc": "", "altseps": [str(x) for x in sec._os_alt_seps]}
        _records.append(rec)
        _stack.append(rec)
        try:
            rv = orig_sfd(directory, path, environ, **kwargs)
            rec["status"] = rv.status_code
            return rv
        except HTTPException as e:
            rec["status"] = e.code or 0
            raise
        except BaseException as e:
            rec["exc"] = type(e).__name__
            raise
        finally:
            _stack.pop()

    # ---- SharedDataMiddleware: every loader kind reports its root and the file its opener opened
    def wrap_loader(kind, root, loader):
        def wrapped(path):
            name, opener = loader(path)
            if opener is None:
                return name, opener

            def wrapped_opener():
                res = opener()
                f = res[0]
                fname = getattr(f, "name", None)
                if _stack and _stack[-1]["k"] == "sdm":
                    _stack[-1]["opened"].append(fname if isinstance(fname, str) else "\x00not-a-path")
                    _stack[-1]["kind"], _stack[-1]["root"], _stack[-1]["path"] = kind, root, path
                return res

            return name, wrapped_opener

        return wrapped

    orig_dir, orig_pkg, orig_file, orig_call = SDM.get_directory_loader, SDM.get_package_loader, SDM.get_file_loader, SDM.__call__

    def get_directory_loader(self, directory):
        return wrap_loader("directory", _s(directory), orig_dir(self, directory))

    def get_file_loader(self, filename):
        return wrap_loader("file", _s(filename), orig_file(self, filename))

    def get_package_loader(self, package, package_path):
        import importlib.util

        root = None
        try:
            spec = importlib.util.find_spec(package)
            if spec is not None and spec.origin:
                root = os.path.join(os.path.dirname(spec.origin), package_path)
        except Exception:
            root = None
        return wrap_loader("package", root, orig_pkg(self, package, package_path))

    def call(self, environ, start_response):
        rec = {"k": "sdm", "test": _test(), "api": "SharedDataMiddleware", "kind": "", "root": None, "path": None,
               "cwd": os.getcwd(), "path_info": environ.get("PATH_INFO", ""), "opened": [], "status": 0, "exc": "",
               "altseps": [str(x) for x in sec._os_alt_seps]}
        _records.append(rec)

        def sr(status, headers, exc_info=None):
            try:
                rec["status"] = int(str(status).split()[0])
            except Exception:
                rec["status"] = -1
            return start_response(status, headers, exc_info) if exc_info is not None else start_response(status, headers)

        _stack.append(rec)
        try:
            return orig_call(self, environ, sr)
        except BaseException as e:
            rec["exc"] = type(e).__name__
            raise
        finally:
            _stack.pop()

    sec.safe_join = safe_join
    utils.safe_join = safe_join
    sdm.safe_join = safe_join
    utils.secure_filename = secure_filename
    utils.send_file = send_file
    utils.send_from_directory = send_from_directory
    SDM.get_directory_loader = get_directory_loader
    SDM.get_file_loader = get_file_loader
    SDM.get_package_loader = get_package_loader
    SDM.__call__ = call


def pytest_sessionfinish(session, exitstatus):
    out = os.environ.get("VERIF_TRACE_OUT")
    if out:   # one file per process (pytest-xdist workers each hold their own records)
        with open(f"{out}.{os.getpid()}", "w") as f:
            json.dump(_records, f)
