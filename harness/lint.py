"""X05 drivers / recorders: one request through the real werkzeug.middleware.lint.LintMiddleware.

A *case* (vocabulary of spec/lint/LintContract.tla) scripts both sides of the monitor:
  the application (script, cut, ret: start_response / write / yield / wsgi.input / wsgi.errors / raise),
  the server (environ defects, a PEP 3333 conforming start_response stub, how many next() calls, how many close()).
The recorder notes what crossed the monitor on either side (events that reached the server side during each
application action, what the application saw, what the server saw) and every warning with the step during which
it was emitted (warnings.catch_warnings(record=True), simplefilter("always")).  Nothing is judged here.
"""
from __future__ import annotations

import gc
import io
import random
import warnings

# ---------------------------------------------------------------------------------------------- encoding
def enc(o):
    if type(o) is str:
        return {"ty": "s", "v": [ord(c) for c in o]}
    if type(o) is bytes:
        return {"ty": "b", "v": list(o)}
    if type(o) is int:
        return {"ty": "i", "v": [int(c) for c in str(abs(o))]}
    if isinstance(o, str):
        return {"ty": "s", "v": [ord(c) for c in o]}
    return {"ty": "o", "v": []}


def dec(d):
    if d["ty"] == "s":
        return "".join(map(chr, d["v"]))
    if d["ty"] == "b":
        return bytes(d["v"])
    if d["ty"] == "i":
        return int("".join(map(str, d["v"])) or "0")
    raise ValueError(d)


def S(text):
    return {"ty": "s", "v": [ord(c) for c in text]}


def B(data):
    return {"ty": "b", "v": list(data)}


NODATUM = {"ty": "b", "v": []}


def enc_headers(h):
    ty = "list" if type(h) is list else "tuple" if type(h) is tuple else "o"
    items = []
    try:
        for it in h:
            ity = "tuple" if type(it) is tuple else "list" if type(it) is list else "o"
            items.append({"ty": ity, "f": [enc(x) for x in it] if ity != "o" else []})
    except TypeError:
        pass
    return {"ty": ty, "items": items}


def dec_headers(hd):
    items = []
    for it in hd["items"]:
        f = [dec(x) for x in it["f"]]
        items.append(tuple(f) if it["ty"] == "tuple" else f)
    return items if hd["ty"] == "list" else tuple(items)


def act(k, st=None, hd=None, x="none", d=None, m="", args=()):
    return {"k": k, "st": st or S(""), "hd": hd or {"ty": "list", "items": []}, "x": x, "d": d or NODATUM, "m": m,
            "args": list(args)}


def H(name, value):
    return {"ty": "tuple", "f": [S(name), S(value)]}


def HL(*items):
    return {"ty": "list", "items": list(items)}


def SR(status, headers=(), x="none"):
    return act("SR", st=S(status) if isinstance(status, str) else status,
               hd=headers if isinstance(headers, dict) else HL(*[H(n, v) for n, v in headers]), x=x)


def good_env(method="GET"):
    return {"sub": False, "missing": [], "ver": [1, 0], "script": [], "path": [47, 112], "method": method}


def srv(take=99, closes=1, after=False):
    return {"take": take, "closes": closes, "after": after}


# ---------------------------------------------------------------------------------------------- warning tags (drift only)
_TAGS = [
    ("not a standard Python dict", "EnvNotDict"), ("Required environment key", "EnvMissing"), ("not a WSGI 1.0", "EnvVersion"),
    ("'SCRIPT_NAME' does not start", "EnvScript"), ("'PATH_INFO' does not start", "EnvPath"),
    ("'status' requires", "StatusType"), ("must be three digits", "StatusDigits"), ("Invalid value for status", "StatusFormat"),
    ("Status code < 100", "StatusLow"), ("Header list is not a list", "HeadersType"), ("must be 2-item tuples", "HeaderItem"),
    ("keys and values must be strings", "HeaderStr"), ("status header is not supported", "HeaderStatus"),
    ("Invalid value for exc_info", "ExcInfo"), ("Weak etag indicator", "ETagWeakCase"), ("Unquoted etag", "ETagUnquoted"),
    ("Absolute URLs required", "Location"), ("'write()' requires", "NonBytes"), ("'application iterator items' requires", "NonBytes"),
    ("returned before it started", "YieldBeforeSR"), ("does not guarantee an EOF marker", "ReadNoSize"),
    ("Too many parameters passed to 'wsgi.input.read()'", "ReadArgs"), ("readline()' without arguments", "ReadlineNoArg"),
    ("called with a size hint", "ReadlineSize"), ("closed the input stream", "InputClosed"), ("is not iterable", "InputNotIterable"),
    ("'wsgi.error.write()' requires", "ErrWriteType"), ("closed the error stream", "ErrorsClosed"),
    ("returned a string", "StrReturned"), ("Iterated over closed", "IterAfterClose"), ("Entity header", "Entity304"),
    ("304 responses must not have a body", "Body304"), ("must have an empty content length", "NoBodyCL"),
    ("responses must not have a body", "NoBodyBody"), ("do not match", "CLMismatch"), ("garbage collected before", "Unclosed"),
    ("takes two arguments", "ArgCount"), ("keyword arguments", "Kwargs"), ("Invalid number of arguments", "ArgCount"),
]


def _tag(msg: str) -> str:
    for needle, tag in _TAGS:
        if needle in msg:
            return tag
    return "other"


class AppError(Exception):
    pass


class ExcInfoError(Exception):
    pass


class SubDict(dict):
    pass


INPUT = b"ab\ncd\nef"


# ---------------------------------------------------------------------------------------------- one request
class _Run:
    def __init__(self, case):
        self.case = case
        self.obs = {"call": {"q": 0, "done": False, "w": [], "entered": False, "exc": "", "envdiff": [], "envadded": []}, "acts": [],
                    "ret": {"q": 0, "w": [], "reached": False, "exc": "", "appexc": ""}, "nexts": [], "closes": [],
                    "gc": {"q": 0, "w": [], "ran": False}, "stray": []}
        self.rec = None
        self.seen = 0
        self.cur = self.obs["call"]["w"]
        self.curfwd = self.obs["stray"]
        self.started = False
        self.committed = False
        self.pc = 0  # actions started
        self.tick = 1  # sequence number of the next step
        self.dead = False
        self.curnext = None
        self.curclose = None
        self.write = None

    def stamp(self):
        self.tick += 1
        return self.tick - 1

    # warnings emitted since the last call go to the step that was open
    def drain(self):
        new = self.rec[self.seen:]
        self.seen = len(self.rec)
        for w in new:
            self.cur.append({"c": w.category.__name__, "g": _tag(str(w.message))})

    def switch(self, lst):
        self.drain()
        self.cur = lst

    # ---------------- server side stubs
    def start_response(self, status, headers, exc_info=None):
        a = self._cur_action
        x = "none" if exc_info is None else "tuple" if type(exc_info) is tuple else "bad"
        raised = ""
        if exc_info is None and self.started:
            raised = "AssertionError"
        elif exc_info is not None and self.committed:
            raised = "ExcInfoError"
        same = a is not None and status is a.get("_st") and headers is a.get("_hd")
        self.curfwd.append({"k": "SR", "st": enc(status), "hd": enc_headers(headers), "x": x, "raised": raised, "same": bool(same)})
        if raised == "AssertionError":
            raise AssertionError("headers already set")
        if raised:
            raise ExcInfoError()
        self.started = True
        return self.server_write

    def server_write(self, data):
        self.committed = True
        self.curfwd.append({"k": "W", "d": enc(data)})

    # ---------------- application side
    def do_action(self, i, environ, start_response):
        a = self.case["script"][i]
        o = {"q": self.stamp(), "w": [], "exc": "", "fwd": [], "res": NODATUM}
        self.obs["acts"].append(o)
        self.pc = i + 1
        self.switch(o["w"])
        self.curfwd = o["fwd"]
        self._cur_action = a
        try:
            k = a["k"]
            if k == "SR":
                a["_st"], a["_hd"] = dec(a["st"]), dec_headers(a["hd"])
                if a["x"] == "none":
                    self.write = start_response(a["_st"], a["_hd"])
                else:
                    xi = (ExcInfoError, ExcInfoError(), None) if a["x"] == "tuple" else "not-a-tuple"
                    self.write = start_response(a["_st"], a["_hd"], xi)
            elif k == "W":
                self.write(dec(a["d"]))
            elif k == "IN":
                f = environ["wsgi.input"]
                if a["m"] == "iter":
                    o["res"] = enc(b"".join(list(f)))
                else:
                    r = getattr(f, a["m"])(*a["args"])
                    o["res"] = enc(b"".join(r)) if isinstance(r, list) else enc(r) if r is not None else NODATUM
            elif k == "ERR":
                f = environ["wsgi.errors"]
                if a["m"] == "write":
                    f.write(dec(a["d"]))
                elif a["m"] == "writelines":
                    f.writelines([dec(a["d"])])
                else:
                    getattr(f, a["m"])()
            elif k == "RAISE":
                raise AppError()
            elif k == "Y":
                return dec(a["d"])
        except BaseException as e:
            o["exc"] = type(e).__name__
            self.drain()
            raise
        finally:
            a.pop("_st", None)
            a.pop("_hd", None)
            self._cur_action = None
            self.curfwd = self.obs["stray"]
        if a["k"] != "Y":
            self.drain()
        return None

    def app(self, environ, start_response):
        c = self.obs["call"]
        c["entered"] = True
        c["envdiff"] = sorted(k for k in self.env0 if k not in environ or environ[k] is not self.env0[k])
        c["envadded"] = sorted(k for k in environ if k not in self.env0)
        self.drain()
        r = self.obs["ret"]
        case = self.case
        try:
            for i in range(min(case["cut"], len(case["script"]))):
                self.do_action(i, environ, start_response)
        except BaseException as e:
            r["reached"], r["appexc"], r["q"] = True, type(e).__name__, self.stamp()
            self.switch(r["w"])
            raise
        r["reached"], r["q"] = True, self.stamp()
        self.switch(r["w"])
        it = _ScriptIter(self, environ, start_response)
        if case["ret"] == "gen":
            return _ClosableIter(self, environ, start_response)
        if case["ret"] == "str":
            return _Str("".join(dec(a["d"]) for a in case["script"][case["cut"]:] if a["k"] == "Y"), it)
        return it

    def app_next(self, environ, start_response):
        n = self.curnext
        script = self.case["script"]
        while True:
            if self.dead or self.pc >= len(script):
                if n is not None:
                    n["appr"] = "stop"
                raise StopIteration
            i = self.pc
            try:
                v = self.do_action(i, environ, start_response)
            except BaseException as e:
                self.dead = True
                if n is not None:
                    n["appr"], n["appcls"] = "exc", type(e).__name__
                raise
            if script[i]["k"] == "Y":
                if n is not None:
                    n["appr"], n["appitem"], n["act"] = "item", enc(v), i + 1
                return v

    # ---------------- the server
    def server_next(self, it):
        n = {"q": self.stamp(), "w": [], "ac": len(self.obs["closes"]) > 0, "r": "", "cls": "", "item": NODATUM, "appr": "", "appcls": "",
             "appitem": NODATUM, "act": 0}
        self.obs["nexts"].append(n)
        self.curnext = n
        self.switch(n["w"])
        try:
            item = next(it)
            n["r"], n["item"] = "item", enc(item)
            self.committed = True  # the server stub sends the headers with the first chunk
        except StopIteration:
            n["r"] = "stop"
        except Exception as e:
            n["r"], n["cls"] = "exc", type(e).__name__
        self.drain()
        self.curnext = None
        return n["r"]

    def run(self):
        case = self.case
        env = case["env"]
        from werkzeug.middleware.lint import LintMiddleware

        self.under_in = _RecInput(self)
        self.under_err = _RecErrors(self)
        e = {"REQUEST_METHOD": env["method"], "SCRIPT_NAME": "".join(map(chr, env["script"])),
             "PATH_INFO": "".join(map(chr, env["path"])), "QUERY_STRING": "", "SERVER_NAME": "localhost", "SERVER_PORT": "80",
             "SERVER_PROTOCOL": "HTTP/1.1", "wsgi.version": tuple(env["ver"]), "wsgi.url_scheme": "http",
             "wsgi.input": self.under_in, "wsgi.errors": self.under_err, "wsgi.multithread": False,
             "wsgi.multiprocess": False, "wsgi.run_once": False}
        for k in env["missing"]:
            e.pop(k, None)
        environ = SubDict(e) if env["sub"] else e
        self.env0 = dict(e)
        self._cur_action = None
        c, r = self.obs["call"], self.obs["ret"]
        with warnings.catch_warnings(record=True) as rec:
            warnings.simplefilter("always")
            self.rec = rec
            it = None
            try:
                it = LintMiddleware(self.app)(environ, self.start_response)
            except BaseException as ex:
                if c["entered"]:
                    r["exc"] = type(ex).__name__
                else:
                    c["exc"] = type(ex).__name__
            self.drain()
            c["done"] = True
            if it is not None:
                s = case["srv"]
                try:
                    it = iter(it)
                    last = ""
                    for _ in range(min(s["take"], 60)):
                        last = self.server_next(it)
                        if last in ("stop", "exc"):
                            break
                    for _ in range(s["closes"]):
                        cl = {"q": self.stamp(), "w": [], "exc": "", "appcloses": 0, "na": len(self.obs["acts"]), "nn": len(self.obs["nexts"])}
                        self.obs["closes"].append(cl)
                        self.curclose = cl
                        self.switch(cl["w"])
                        try:
                            it.close()
                        except Exception as ex:
                            cl["exc"] = type(ex).__name__
                        self.drain()
                        self.curclose = None
                    if s["after"]:
                        self.server_next(it)
                finally:
                    g = self.obs["gc"]
                    g["q"] = self.stamp()
                    self.switch(g["w"])
                    it = None
                    self.drain()
                    if not g["w"] and not self.obs["closes"]:
                        gc.collect()
                        self.drain()
                    g["ran"] = True
            self.drain()
        return self.obs


class _ScriptIter:
    def __init__(self, run, environ, start_response):
        self._run, self._environ, self._sr = run, environ, start_response

    def __iter__(self):
        return self

    def __next__(self):
        return self._run.app_next(self._environ, self._sr)


class _ClosableIter(_ScriptIter):
    def close(self):
        if self._run.curclose is not None:
            self._run.curclose["appcloses"] += 1
        else:
            self._run.obs["stray"].append({"k": "CLOSE"})


class _Str(str):
    def __new__(cls, text, it):
        o = super().__new__(cls, text)
        o._it = it
        return o

    def __iter__(self):
        return self._it


class _RecInput:
    """the server's wsgi.input: records every call that reaches it"""

    def __init__(self, run):
        self._run, self._f = run, io.BytesIO(INPUT)

    def _do(self, m, args, fn):
        ev = {"k": "IN", "m": m, "args": list(args), "r": NODATUM, "raised": ""}
        self._run.curfwd.append(ev)
        try:
            r = fn()
        except Exception as e:
            ev["raised"] = type(e).__name__
            raise
        if isinstance(r, list):
            ev["r"] = enc(b"".join(r))
        elif r is not None:
            ev["r"] = enc(r)
        return r

    def read(self, *a):
        return self._do("read", a, lambda: self._f.read(*a))

    def readline(self, *a):
        return self._do("readline", a, lambda: self._f.readline(*a))

    def readlines(self, *a):
        return self._do("readlines", a, lambda: self._f.readlines(*a))

    def __iter__(self):
        return iter(self._do("iter", (), lambda: list(self._f)))

    def close(self):
        self._do("close", (), lambda: None)


class _RecErrors:
    def __init__(self, run):
        self._run = run

    def _ev(self, m, d=None):
        self._run.curfwd.append({"k": "ERR", "m": m, "d": enc(d) if d is not None else NODATUM, "raised": ""})

    def write(self, s):
        self._ev("write", s)

    def writelines(self, seq):
        seq = list(seq)
        self._ev("writelines", seq[0] if seq else None)

    def flush(self):
        self._ev("flush")

    def close(self):
        self._ev("close")


def run_case(case: dict) -> dict:
    obs = _Run(case).run()
    return {"op": "req", "case": case, "obs": obs}


# ---------------------------------------------------------------------------------------------- seeded random cases
_STATUS_POOL = ["200 OK", "201 Created", "404 Not Found", "500 Internal Server Error", "999 X", "304 Not Modified", "204 No Content",
                "100 Continue", "101 Switching Protocols", "199 X", "205 Reset Content", "200 \u00d6l", "600 Custom"]
_BAD_STATUS = ["200", "20 OK", "2000 OK", "200OK", "099 X", "000 Zero", "abc def", "", "2 0 OK", "1e2 OK", "+20 OK", "-20 OK", "200\tOK",
               "200-OK", "OK 200", "2x0 OK", "20", "x"]
_OPEN_STATUS = ["200 ", " 200 OK", "200  OK", "200 OK ", "   ", "\t200 OK", "200 O\nK"]
_ETAGS = ['"a"', 'W/"a"', '""', 'W/""', '"a b"', "a", "W/a", '"a', 'a"', "", "W/", 'w/"a"', "w/a", '"', '"a"b"', "'a'", '"\u00e9"']
_LOCS = ["http://h/p", "https://example.org/", "ftp://h", "a+b.c://h/x?y#z", "/p", "p", "", "../x", "?q=1", "#f", "p/q",
         "//h/p", "mailto:x", "http:/p", "http:p", "http://", "http:///p", "h ttp://h", "http://h/ p", "/p//q", "http://[::1]/", "http://[x"]
_NAMES = ["Content-Type", "X-A", "Cache-Control", "Vary", "Date", "Set-Cookie", "content-type", "X_B", "Allow", "Expires",
          "Content-Location", "Last-Modified", "Content-Encoding", "Content-Language", "Content-MD5", "Content-Range", "sTaTus",
          "Status", "x-status"]
_CLS = ["0", "1", "2", "3", "5", "10", "007", "abc", "", "2x", "123456789"]


def _rand_text(rng, n):
    alpha = "abcXYZ019 -_/:;=\u00e9\u0416\u4e2d"
    return "".join(rng.choice(alpha) for _ in range(rng.randint(0, n)))


def _rand_status(rng):
    r = rng.random()
    if r < 0.55:
        return S(rng.choice(_STATUS_POOL))
    if r < 0.62:
        return S("%03d %s" % (rng.randint(100, 999), _rand_text(rng, 5).strip() or "R"))
    if r < 0.85:
        return S(rng.choice(_BAD_STATUS))
    if r < 0.93:
        return S(rng.choice(_OPEN_STATUS))
    return rng.choice([B(b"200 OK"), {"ty": "i", "v": [2, 0, 0]}])


def _rand_headers(rng):
    items = []
    for _ in range(rng.choice([0, 0, 1, 1, 2, 3, 4])):
        r = rng.random()
        if r < 0.3:
            items.append(H(rng.choice(_NAMES), _rand_text(rng, 6)))
        elif r < 0.5:
            items.append(H(rng.choice(["ETag", "etag", "Etag"]), rng.choice(_ETAGS)))
        elif r < 0.68:
            items.append(H(rng.choice(["Location", "location"]), rng.choice(_LOCS)))
        elif r < 0.86:
            items.append(H(rng.choice(["Content-Length", "content-length"]), rng.choice(_CLS)))
        elif r < 0.9:
            items.append({"ty": "list", "f": [S(rng.choice(_NAMES)), S("v")]})
        elif r < 0.93:
            items.append({"ty": "tuple", "f": [S("X-A"), S("v")][: rng.choice([1, 2])] + ([S("w")] if rng.random() < 0.5 else [])})
        elif r < 0.96:
            items.append({"ty": "tuple", "f": [S("X-B"), rng.choice([B(b"v"), {"ty": "i", "v": [7]}])]})
        elif r < 0.98:
            items.append({"ty": "tuple", "f": [rng.choice([B(b"X-C"), {"ty": "i", "v": [7]}]), S("v")]})
        else:
            items.append(H("X-D", "a\r\nb" if rng.random() < 0.5 else "a\nb"))
    return {"ty": "list" if rng.random() < 0.93 else "tuple", "items": items}


def _rand_data(rng):
    r = rng.random()
    if r < 0.7:
        return B(bytes(rng.randrange(256) for _ in range(rng.choice([0, 1, 2, 2, 3, 5, 10]))))
    if r < 0.8:
        return B(b"")
    return S(_rand_text(rng, 4))


_IO = [("IN", "read", ()), ("IN", "read", (2,)), ("IN", "read", (100,)), ("IN", "read", (0,)), ("IN", "read", (1, 2)),
       ("IN", "readline", ()), ("IN", "readline", (2,)), ("IN", "readline", (1, 2)), ("IN", "readlines", ()), ("IN", "readlines", (3,)),
       ("IN", "iter", ()), ("IN", "close", ()), ("ERR", "write", ()), ("ERR", "writelines", ()), ("ERR", "flush", ()), ("ERR", "close", ())]


def rand_case(rng: random.Random, maxlen: int = 8) -> dict:
    n = rng.randint(0, maxlen)
    ret = rng.choice(["gen", "gen", "iter", "str"]) if rng.random() < 0.5 else "gen"
    cut = rng.randint(0, n)
    script = []
    have_sr = False
    for i in range(n):
        incall = i < cut
        if ret == "str" and not incall:
            script.append(act("Y", d=S(rng.choice("ab\u00e9"))))
            continue
        r = rng.random()
        if r < 0.3 or (not have_sr and r < 0.5):
            x = "none" if rng.random() < 0.75 else rng.choice(["tuple", "tuple", "bad"])
            script.append(act("SR", st=_rand_status(rng), hd=_rand_headers(rng), x=x))
            have_sr = True
        elif r < 0.45 and have_sr:
            script.append(act("W", d=_rand_data(rng)))
        elif r < 0.75 and not incall:
            script.append(act("Y", d=_rand_data(rng)))
        elif r < 0.93:
            k, m, a = rng.choice(_IO)
            d = rng.choice([S("log\n"), S(""), B(b"log")]) if k == "ERR" and m in ("write", "writelines") else None
            script.append(act(k, m=m, args=a, d=d))
        elif i == n - 1:
            script.append(act("RAISE"))
        else:
            script.append(act("IN", m="read", args=(1,)))
    env = good_env(rng.choice(["GET", "GET", "HEAD", "POST"]))
    if rng.random() < 0.2:
        env["sub"] = rng.random() < 0.3
        keys = ["REQUEST_METHOD", "SERVER_NAME", "SERVER_PORT", "wsgi.version", "wsgi.input", "wsgi.errors", "wsgi.multithread",
                "wsgi.multiprocess", "wsgi.run_once", "wsgi.url_scheme", "SCRIPT_NAME", "PATH_INFO", "QUERY_STRING"]
        env["missing"] = rng.sample(keys, rng.choice([0, 0, 1, 1, 2]))
        env["ver"] = rng.choice([[1, 0], [1, 0], [0, 7], [1, 1], [1, 0, 0], [2]])
        env["script"] = [ord(c) for c in rng.choice(["", "/s", "s", "/", "\u00e9"])]
        env["path"] = [ord(c) for c in rng.choice(["/p", "p", "", "/", "p/q"])]
    s = srv(rng.choice([99, 99, 99, 0, 1, 2, 3]), rng.choice([1, 1, 1, 0, 2]), rng.random() < 0.15)
    return {"env": env, "ret": ret, "cut": cut, "script": script, "srv": s}
