"""Recorders and drivers for X09 (spec/sendfile): werkzeug.utils.send_file / send_from_directory and the header logic of
SharedDataMiddleware over a real temporary tree.

Nothing here decides a verdict.  `run_case` executes one call on the real code and records the arguments, the
environment the call depends on (stat of the file, `mimetypes.guess_type` of the effective name, the NFKD ASCII projection
of every code point of the name -- standard library, not werkzeug --, the clock) and what came out: exception class,
status, the header texts given to start_response, the body bytes, which arguments the max_age callable received, whether
the response is an instance of response_class, whether environ's wsgi.file_wrapper was used, and the life cycle of the
files (opened by werkzeug through a spy `open` put into the module namespace / passed in by the caller; still open after
the WSGI server closed the response or the call raised).  The relations are in spec/sendfile/SendFile.tla, evaluated by
TLC through SendFileTrace.tla.

`python -m harness.sendfile gen` regenerates spec/sendfile/SFUniverse.tla (the model's name table with its environment).
"""
from __future__ import annotations

import builtins
import io
import mimetypes
import os
import pathlib
import random
import time as _time
import unicodedata
from datetime import datetime, timedelta, timezone

from .core import cps

HDRS = ("inm", "im", "ims", "ifr", "range")
ENVKEY = {"inm": "HTTP_IF_NONE_MATCH", "im": "HTTP_IF_MATCH", "ims": "HTTP_IF_MODIFIED_SINCE", "ifr": "HTTP_IF_RANGE",
          "range": "HTTP_RANGE"}
OBS_HEADERS = (("ct", "Content-Type"), ("cd", "Content-Disposition"), ("ce", "Content-Encoding"), ("cl", "Content-Length"),
               ("lm", "Last-Modified"), ("etag", "ETag"), ("cc", "Cache-Control"), ("exp", "Expires"), ("xsf", "X-Sendfile"),
               ("cr", "Content-Range"))
PATH_KINDS = ("path", "pathlike", "relpath")
KINDS = PATH_KINDS + ("bytesio", "binfile", "pipe", "textio", "textfile")
MODEL_MTIME = (1709251198, 430000)        # 2024-02-29 23:59:58.43 UTC: st_mtime of the model's files
MODEL_NAMES = ["a.txt", "noext", "x.zz9", "a b.html", 'q"t.txt', "s;c.css", "p%41.txt", "b\\s.txt", "né.txt", "€.pdf",
               "ﬁ.js", "＂；.txt", "x.tar.gz", "l.svgz", "a\nb.txt", "é\rb", "d.xhtml", "é'*.json", "", "q.sql",
               "x.bz2", "日本"]
DAYS = ["Mon", "Tue", "Wed", "Thu", "Fri", "Sat", "Sun"]
MONTHS = ["Jan", "Feb", "Mar", "Apr", "May", "Jun", "Jul", "Aug", "Sep", "Oct", "Nov", "Dec"]


def txt(codes) -> str:
    return "".join(chr(c) for c in codes)


def data_of(n: int) -> bytes:
    """the resource bytes Conditional.tla calls DataSlice(0, n)"""
    return bytes(33 + (i % 90) for i in range(n))


def http_date(dt: datetime) -> str:
    return (f"{DAYS[dt.weekday()]}, {dt.day:02d} {MONTHS[dt.month - 1]} {dt.year:04d} "
            f"{dt.hour:02d}:{dt.minute:02d}:{dt.second:02d} GMT")


def utc_tuple(sec: int, us: int) -> list:
    dt = datetime.fromtimestamp(sec, tz=timezone.utc)
    return [dt.year, dt.month, dt.day, dt.hour, dt.minute, dt.second, us]


def fold_of(name: str) -> list:
    """per code point: its NFKD decomposition restricted to ASCII (the Unicode database is environment)"""
    return [cps(unicodedata.normalize("NFKD", ch).encode("ascii", "ignore").decode("ascii")) for ch in name]


def env_of_name(name) -> dict:
    if name is None:
        return {"g_p": False, "g": [], "ge_p": False, "ge": [], "fold": []}
    g, e = mimetypes.guess_type(name)
    return {"g_p": g is not None, "g": cps(g or ""), "ge_p": e is not None, "ge": cps(e or ""), "fold": fold_of(name)}


class Pipe:
    """a readable binary object that is neither seekable nor an io class"""

    def __init__(self, data: bytes):
        self._b = io.BytesIO(data)
        self.closed_called = False

    def read(self, n=-1):
        return self._b.read(n)

    def close(self):
        self.closed_called = True


class OpenSpy:
    """stands in for the builtin `open` inside a werkzeug module: records every file the library opens itself"""

    def __init__(self):
        self.files = []

    def __call__(self, *a, **kw):
        f = builtins.open(*a, **kw)
        self.files.append(f)
        return f

    def still_open(self) -> int:
        return sum(1 for f in self.files if not f.closed)


def ensure_file(root: str, name: str, size: int, mtime=MODEL_MTIME) -> str:
    path = os.path.join(root, name)
    want_ns = mtime[0] * 10 ** 9 + mtime[1] * 1000
    try:
        st = os.stat(path)
        if st.st_size == size and st.st_mtime_ns == want_ns:
            return path
    except FileNotFoundError:
        pass
    os.makedirs(os.path.dirname(path), exist_ok=True)
    with builtins.open(path, "wb") as f:
        f.write(data_of(size))
    os.utime(path, ns=(want_ns, want_ns))
    return path


def legal_filename(name: str) -> bool:
    if name in ("", ".", "..") or "/" in name or "\x00" in name:
        return False
    try:
        return len(name.encode("utf-8")) <= 200
    except UnicodeEncodeError:
        return False


# ----------------------------------------------------------------------------------------------- request classes
def request_of(rq, etag_text, lm_dt):
    """rq: a class name of the model (MCSendFile!ReqOf) or a dict {method, inm, im, ims, ifr, range} whose texts may use
    the placeholders {etag} / {lm} / {lm-1d} / {lm+1s} for the validators of the unconditional response"""
    zz = '"zz"'
    tag = etag_text if etag_text else zz
    lm = lm_dt or datetime(2024, 2, 29, 0, 0, 0, tzinfo=timezone.utc)
    if isinstance(rq, dict):
        out = {"method": rq.get("method", "GET")}
        for h in HDRS:
            v = rq.get(h)
            if v is not None:
                v = (v.replace("{etag}", tag).replace("{lm}", http_date(lm)).replace("{lm-1d}", http_date(lm - timedelta(days=1)))
                     .replace("{lm+1s}", http_date(lm + timedelta(seconds=1))))
            out[h] = v
        return out
    r = {"method": "GET", "inm": None, "im": None, "ims": None, "ifr": None, "range": None}
    if rq == "plain":
        pass
    elif rq == "head":
        r["method"] = "HEAD"
    elif rq == "post":
        r.update(method="POST", inm=tag)
    elif rq == "inm_match":
        r["inm"] = tag
    elif rq == "head_inm_match":
        r.update(method="HEAD", inm=tag)
    elif rq == "inm_other":
        r["inm"] = zz
    elif rq == "inm_star":
        r["inm"] = "*"
    elif rq == "ims_eq":
        r["ims"] = http_date(lm)
    elif rq == "ims_before":
        r["ims"] = http_date(lm - timedelta(days=1))
    elif rq == "im_other":
        if etag_text:
            r["im"] = zz
    elif rq == "range_sat":
        r["range"] = "bytes=1-2"
    elif rq == "range_unsat":
        r["range"] = "bytes=9-"
    elif rq == "range_ifr_match":
        r.update(range="bytes=1-2", ifr=etag_text if etag_text else http_date(lm))
    elif rq == "range_ifr_other":
        r.update(range="bytes=1-2", ifr=zz)
    elif rq == "range_inm_match":
        r.update(range="bytes=1-2", inm=tag)
    else:
        raise ValueError(f"unknown request class {rq!r}")
    return r


def lm_argument(mode: str, lm):
    """the last_modified argument of the given type for the instant lm = [Y, M, D, h, m, s, us] (UTC)"""
    if mode == "none":
        return None
    dt = datetime(*lm[:6], tzinfo=timezone.utc)
    if mode == "int":
        return int(dt.timestamp())
    if mode == "float":
        return int(dt.timestamp()) + lm[6] / 1e6
    if mode == "dt":                               # naive datetimes are taken as UTC
        return dt.replace(tzinfo=None, microsecond=lm[6])
    if mode == "aware":
        return dt.replace(microsecond=lm[6]).astimezone(timezone(timedelta(hours=5, minutes=30)))
    raise ValueError(mode)


NORM = {"api": "sf", "kind": "path", "file": "a.txt", "size": 5, "mtime": list(MODEL_MTIME), "mt": None, "att": False, "dn": None, "cond": True,
        "etag": True, "lm_mode": "none", "lm": [2020, 1, 2, 3, 4, 5, 0], "ma_mode": "none", "ma": 0, "xsf": False, "rclass": "default",
        "fw": False, "rq": "plain", "exists": True, "exp": None}


def norm(case) -> dict:
    c = dict(NORM)
    c.update(case)
    return c


def rel_of(c) -> str:
    """where the case's file lives below the root: one immutable file per (size, name), so that forked recorders never
    rewrite a file another one is serving"""
    return c["file"] if not c.get("exists", True) else f"s{c['size']}/{c['file']}"


def prepare(cases, root) -> None:
    """create every file the cases serve (in the parent, before recorders fork)"""
    for case in cases:
        c = norm(case) if case.get("op") != "sdm" else {**SDM_NORM, **case}
        if c.get("exists", True) and (case.get("op") == "sdm" or c["kind"] in PATH_KINDS or c["kind"] in ("binfile", "textfile")):
            ensure_file(root, rel_of(c), c["size"], tuple(c["mtime"]))


# ----------------------------------------------------------------------------------------------- send_file / send_from_directory
def _blank_obs():
    o = {"exc": "", "status": 0, "body": [], "isinst": True, "ma_calls": [], "opened": 0, "open_end": 0, "user_closed": False,
         "fw_used": False, "passed": False, "h_ar_n": 0}
    for k, _ in OBS_HEADERS:
        o[f"h_{k}_n"] = 0
        o[f"h_{k}"] = []
    return o


def _record_headers(o, headers):
    for k, name in OBS_HEADERS:
        vals = headers.getlist(name) if hasattr(headers, "getlist") else [v for kk, v in headers if kk.lower() == name.lower()]
        o[f"h_{k}_n"] = len(vals)
        o[f"h_{k}"] = cps(vals[0]) if vals else []
    vals = headers.getlist("Accept-Ranges") if hasattr(headers, "getlist") else []
    o["h_ar_n"] = len(vals)


def _exp_record(exp):
    """the model's row (spec -> code): the fields RowDrift compares; a placeholder when the case has no model row"""
    if not exp:
        return {"exc": ""}
    keys = ["exc", "status", "body", "opened", "open_end", "user_closed", "fw_used", "isinst", "ma_calls", "passed"]
    for k, _ in OBS_HEADERS:
        keys += [f"h_{k}_n", f"h_{k}"]
    return {k: exp[k] for k in keys}


def _call_send_file(c, root, env, spy, user_files, ma_calls):
    """build the arguments of the case and call the real function; returns (response, response_class)"""
    import werkzeug.utils as wu
    from werkzeug.wrappers import Response

    kind = c["kind"]
    path = os.path.join(root, rel_of(c)) if kind in PATH_KINDS or kind in ("binfile", "textfile") else None
    if kind == "path":
        target = path
    elif kind == "pathlike":
        target = pathlib.Path(path)
    elif kind == "relpath":
        target = rel_of(c)
    elif kind == "bytesio":
        target = io.BytesIO(data_of(c["size"]))
    elif kind == "binfile":
        target = builtins.open(path, "rb")
    elif kind == "pipe":
        target = Pipe(data_of(c["size"]))
    elif kind == "textio":
        target = io.StringIO(data_of(c["size"]).decode("latin-1"))
    elif kind == "textfile":
        target = builtins.open(path, "r", encoding="latin-1")
    else:
        raise ValueError(kind)
    if kind not in PATH_KINDS:
        user_files.append(target)
    kw = {}
    if c["mt"] is not None:
        kw["mimetype"] = c["mt"]
    if c["att"]:
        kw["as_attachment"] = True
    if c["dn"] is not None:
        kw["download_name"] = c["dn"]
    if not c["cond"]:
        kw["conditional"] = False
    if c["etag"] is not True:
        kw["etag"] = c["etag"]
    if c["lm_mode"] != "none":
        kw["last_modified"] = lm_argument(c["lm_mode"], c["lm"])

    def max_age(arg):
        if arg is None:
            ma_calls.append({"k": "none", "v": []})
        elif type(arg) is str:
            ma_calls.append({"k": "str", "v": cps(arg)})
        else:
            ma_calls.append({"k": "other", "v": cps(str(arg))})
        return c["ma"] if c["ma_mode"] == "call" else None

    if c["ma_mode"] == "int":
        kw["max_age"] = c["ma"]
    elif c["ma_mode"] in ("call", "callnone"):
        kw["max_age"] = max_age
    if c["xsf"]:
        kw["use_x_sendfile"] = True
    rclass = Response
    if c["rclass"] == "sub":
        class SubResponse(Response):
            pass

        rclass = SubResponse
        kw["response_class"] = rclass
    cwd = os.getcwd()
    wu.open = spy                              # module global shadows the builtin: no edit of the repository
    try:
        if kind == "relpath":
            os.chdir(root)
        if c["api"] == "sfd":
            return wu.send_from_directory(root, rel_of(c), env, **kw), rclass
        return wu.send_file(target, env, **kw), rclass
    finally:
        if kind == "relpath":
            os.chdir(cwd)
        try:
            del wu.open
        except AttributeError:
            pass


def _environ(req, fw_state=None):
    from werkzeug.test import create_environ
    from werkzeug.wsgi import FileWrapper

    env = create_environ("/", method=req["method"])
    for h in HDRS:
        if req.get(h) is not None:
            env[ENVKEY[h]] = req[h]
    if fw_state is not None:
        def file_wrapper(f, block=8192):
            fw_state.append(f)
            return FileWrapper(f, block)

        env["wsgi.file_wrapper"] = file_wrapper
    return env


def _serve(target, env):
    from werkzeug.test import run_wsgi_app

    app_iter, status, headers = run_wsgi_app(target, env, buffered=False)
    try:
        body = b"".join(app_iter)
    finally:
        close = getattr(app_iter, "close", None)
        if close:
            close()
    return int(status.split(" ", 1)[0]), headers, body


def _closed(f) -> bool:
    return f.closed_called if isinstance(f, Pipe) else bool(getattr(f, "closed", False))


def run_case(case, root) -> dict:
    """one call of send_file / send_from_directory on the real code -> trace line (without t / i)"""
    from werkzeug.exceptions import HTTPException

    if case.get("op") == "sdm":
        return run_sdm(case, root)
    c = norm(case)
    kind = c["kind"]
    needs_file = kind in PATH_KINDS or kind in ("binfile", "textfile")
    path = os.path.join(root, rel_of(c)) if needs_file else None
    if needs_file and c["exists"]:
        ensure_file(root, rel_of(c), c["size"], tuple(c["mtime"]))
    abspath = os.path.abspath(path) if kind in PATH_KINDS else None
    eff_name = c["dn"] if c["dn"] is not None else (os.path.basename(abspath) if abspath else None)
    etag_mode = "auto" if c["etag"] is True else "off" if c["etag"] is False else "given"
    ln = {"op": "sf", "api": c["api"], "kind": kind, "path": cps(abspath or ""), "given": cps(rel_of(c) if kind == "relpath" else (abspath or "")),
          "mt_p": c["mt"] is not None, "mt": cps(c["mt"] or ""), "att": bool(c["att"]), "dn_p": c["dn"] is not None, "dn": cps(c["dn"] or ""),
          "cond": bool(c["cond"]), "etag_mode": etag_mode, "etag_given": cps(c["etag"]) if etag_mode == "given" else [],
          "lm_mode": c["lm_mode"], "lm_arg": list(c["lm"]), "ma_mode": c["ma_mode"], "ma": int(c["ma"]), "xsf": bool(c["xsf"]),
          "rclass": c["rclass"], "fw": bool(c["fw"]), "size": c["size"], "data": list(data_of(c["size"])), "exists": bool(c["exists"]),
          "mtime": utc_tuple(*c["mtime"]), "mtime_repr": [], "b_etag_n": 0, "b_etag": []}
    ln.update(env_of_name(eff_name))
    if needs_file and c["exists"] and kind in PATH_KINDS:
        st = os.stat(path)
        ln["mtime_repr"] = cps(repr(st.st_mtime))
        ln["mtime"] = utc_tuple(st.st_mtime_ns // 10 ** 9, (st.st_mtime_ns % 10 ** 9) // 1000)
        ln["size"] = st.st_size
    # the validators an unconditional GET with the same arguments carries (what a client would echo)
    base_tag = None
    spy0, uf0 = OpenSpy(), []
    try:
        rv0, _ = _call_send_file(c, root, _environ({"method": "GET"}), spy0, uf0, [])
        base_tags = rv0.headers.getlist("ETag")
        ln["b_etag_n"] = len(base_tags)
        ln["b_etag"] = cps(base_tags[0]) if base_tags else []
        base_tag = base_tags[0] if base_tags else None
        rv0.close()
    except Exception:
        pass
    finally:
        for f in spy0.files + uf0:
            try:
                f.close()
            except Exception:
                pass
    lm_eff = c["lm"] if c["lm_mode"] != "none" else (ln["mtime"] if kind in PATH_KINDS else None)
    lm_dt = datetime(*lm_eff[:6], tzinfo=timezone.utc) if lm_eff else None
    req = request_of(c["rq"], base_tag, lm_dt)
    ln["method"] = req["method"]
    for h in HDRS:
        ln[h + "_p"] = req[h] is not None
        ln[h] = cps(req[h] or "")
    o = _blank_obs()
    spy, user_files, ma_calls, fw_state = OpenSpy(), [], [], ([] if c["fw"] else None)
    env = _environ(req, fw_state)
    ln["t_before"] = int(_time.time())
    try:
        rv, rclass = _call_send_file(c, root, env, spy, user_files, ma_calls)
        o["isinst"] = isinstance(rv, rclass)
        o["status"] = int(rv.status_code)
        status, headers, body = _serve(rv, env)
        o["status"] = status
        o["body"] = list(body)
        _record_headers(o, headers)
    except HTTPException as e:
        o["status"] = int(e.code or 0)
        o["exc"] = type(e).__name__
    except Exception as e:                       # recorded; the judge decides whether it was due
        o["exc"] = type(e).__name__
    ln["t_after"] = int(_time.time()) + 1
    o["ma_calls"] = ma_calls
    o["opened"] = len(spy.files)
    o["open_end"] = spy.still_open()
    o["user_closed"] = bool(user_files) and all(_closed(f) for f in user_files)
    o["fw_used"] = bool(fw_state)
    for f in spy.files + user_files:
        try:
            f.close()
        except Exception:
            pass
    ln.update(o)
    ln["exp_p"] = bool(c.get("exp"))
    ln["exp"] = _exp_record(c.get("exp"))
    return ln


# ----------------------------------------------------------------------------------------------- SharedDataMiddleware
SDM_NORM = {"op": "sdm", "file": "a.txt", "size": 5, "mtime": list(MODEL_MTIME), "cache": True, "timeout": 43200, "rq": "plain", "exists": True,
            "fallback": "application/octet-stream", "exp": None}


def run_sdm(case, root) -> dict:
    import werkzeug.middleware.shared_data as sd

    c = dict(SDM_NORM)
    c.update(case)
    rel = rel_of(c)
    path = os.path.join(root, rel)
    if c["exists"]:
        ensure_file(root, rel, c["size"], tuple(c["mtime"]))
    name = os.path.basename(c["file"])
    ln = {"op": "sdm", "name": cps(name), "path": cps(path), "fallback": cps(c["fallback"]), "cache": bool(c["cache"]), "timeout": int(c["timeout"]),
          "size": c["size"], "data": list(data_of(c["size"])), "mtime": utc_tuple(*c["mtime"]), "exists": bool(c["exists"]), "b_etag_n": 0, "b_etag": []}
    ln.update(env_of_name(name))
    passed = []

    def app(environ, start_response):
        passed.append(1)
        start_response("404 NOT FOUND", [("Content-Type", "text/plain")])
        return [b"not found"]

    spy = OpenSpy()
    sd.open = spy
    try:
        mw = sd.SharedDataMiddleware(app, {"/static": root}, cache=c["cache"], cache_timeout=c["timeout"], fallback_mimetype=c["fallback"])
        base_tag = None
        try:
            _, h0, _ = _serve(mw, _sdm_environ(rel, {"method": "GET"}))
            tags = h0.getlist("ETag")
            ln["b_etag_n"] = len(tags)
            ln["b_etag"] = cps(tags[0]) if tags else []
            base_tag = tags[0] if tags else None
        except Exception:
            pass
        for f in spy.files:
            f.close()
        spy.files.clear()
        passed.clear()
        lm_dt = datetime(*ln["mtime"][:6], tzinfo=timezone.utc)
        req = request_of(c["rq"], base_tag, lm_dt)
        ln["method"] = req["method"]
        for h in HDRS:
            ln[h + "_p"] = req[h] is not None
            ln[h] = cps(req[h] or "")
        o = _blank_obs()
        ln["t_before"] = int(_time.time())
        try:
            status, headers, body = _serve(mw, _sdm_environ(rel, req))
            o["status"] = status
            o["body"] = list(body)
            _record_headers(o, headers)
        except Exception as e:
            o["exc"] = type(e).__name__
        ln["t_after"] = int(_time.time()) + 1
    finally:
        try:
            del sd.open
        except AttributeError:
            pass
    o["passed"] = bool(passed)
    if o["passed"]:
        o["body"] = []
        for k, _ in OBS_HEADERS:
            o[f"h_{k}_n"], o[f"h_{k}"] = 0, []
    o["opened"] = len(spy.files)
    o["open_end"] = spy.still_open()
    for f in spy.files:
        f.close()
    ln.update(o)
    ln["exp_p"] = bool(c.get("exp"))
    ln["exp"] = _exp_record(c.get("exp"))
    return ln


def _sdm_environ(name, req):
    from werkzeug.test import create_environ

    env = create_environ("/static/" + name, method=req["method"])
    for h in HDRS:
        if req.get(h) is not None:
            env[ENVKEY[h]] = req[h]
    return env


def run_cases(args):
    cases, root = args
    return [run_case(c, root) for c in cases]


# ----------------------------------------------------------------------------------------------- drivers
def case_of_row(row) -> dict:
    """a row exported from MCSendFile (spec -> code): the same call on the real tree"""
    mc = row["c"]
    if row["api"] == "sdm":
        return {"op": "sdm", "file": txt(mc["name"]), "cache": mc["cache"], "timeout": mc["timeout"], "rq": mc["rq"], "exists": mc["exists"],
                "exp": row["exp"]}
    kind = mc["kind"]
    file = os.path.basename(txt(mc["path"])) if mc["path"] else "a.txt"
    etag = True if mc["etag_mode"] == "auto" else False if mc["etag_mode"] == "off" else txt(mc["etag_given"])
    return {"api": mc["api"], "kind": kind, "file": file, "mt": txt(mc["mt"]) if mc["mt_p"] else None, "att": mc["att"],
            "dn": txt(mc["dn"]) if mc["dn_p"] else None, "cond": mc["cond"], "etag": etag, "lm_mode": mc["lm_mode"], "lm": mc["lm_arg"],
            "ma_mode": mc["ma_mode"], "ma": mc["ma"], "xsf": mc["xsf"], "rclass": mc["rclass"], "fw": mc["fw"], "rq": mc["rq"],
            "exists": mc["exists"], "exp": row["exp"]}


def table_mismatches(rows) -> list:
    """model environment (SFUniverse.tla) against the standard library of the running interpreter"""
    bad = []
    seen = set()
    for row in rows:
        mc = row["c"]
        if row["api"] == "sdm":
            name = txt(mc["name"])
        elif mc["dn_p"]:
            name = txt(mc["dn"])
        elif mc["path"]:
            name = os.path.basename(txt(mc["path"]))
        else:
            continue
        if name in seen:
            continue
        seen.add(name)
        e = env_of_name(name)
        if (e["g_p"], e["g"], e["ge_p"], e["ge"]) != (mc["g_p"], mc["g"], mc["ge_p"], mc["ge"]) or (row["api"] != "sdm" and e["fold"] != mc["fold"]):
            bad.append(name)
    return bad


REQ_CLASSES = ["plain", "head", "post", "inm_match", "inm_other", "inm_star", "ims_eq", "ims_before", "im_other", "range_sat", "range_unsat",
               "range_ifr_match", "range_ifr_other", "range_inm_match", "head_inm_match"]

# the files of the temporary tree: the task's list (Unicode, quotes, semicolons, percent signs, no extension, unknown extension)
TREE_NAMES = [n for n in MODEL_NAMES if n] + [
    "report.PDF", "archive.tar.bz2", "data.csv.br", "style.min.css", "notes", ".hidden", "trailing.", "two..dots.txt", "50%.txt", "100%25.txt",
    "a'b.txt", "semi;colon;twice.txt", 'quo"te"s.txt', "back\\slash\\x.txt", "sp ace .txt", "tab\there.txt", "comma,name.txt", "eq=ual.txt",
    "star*.txt", "brace{}.json", "naïve café.txt", "über.html", "русский.txt", "한글.txt",
    "emoji\U0001f600.png", "é.txt", "ＡＢＣ.txt", "①.txt", "½.txt", "ﬃ.txt", "a b.txt", "a b.txt", "\u0085.txt",
    "＼.txt", "＂quoted＂.txt", "x\x7f.txt", "x\x01.txt", "l\rf.txt", "unk.qqqzz", "UPPER.TXT", "mixed.Js", "d.xml", "e.es", "f.dtd",
    "g.svg", "h.xsl", "i.wasm", "j.mjs", "k.txt.gz", "l.Z", "data:text/html,x.png",
]
MIMETYPES = [None, None, None, "text/plain", "text/html", "application/pdf", "application/octet-stream", "application/javascript", "application/sql",
             "application/xml", "image/svg+xml", "application/x.custom+xml", "text/x-weird", "application/json"]
SWEEP_POINTS = ([c for c in range(0, 128)] + [0x80, 0x85, 0xA0, 0xAD, 0xDF, 0xE9, 0xFF, 0x131, 0x301, 0x3A9, 0x5D0, 0x2028, 0x2029, 0x20AC, 0x2460,
                                              0x3042, 0xAC00, 0xFB01, 0xFEFF, 0xFF02, 0xFF0F, 0xFF1B, 0xFF3C, 0xFFFD, 0x10000, 0x1F600, 0x10FFFF])


def sweep_cases() -> list:
    """every code point of SWEEP_POINTS inside a download_name (BytesIO), as attachment and inline, between two ASCII letters and
    alone; the same as a real file name where the file system allows it"""
    cases = []
    for cp in SWEEP_POINTS:
        ch = chr(cp)
        for dn in (f"a{ch}b.txt", ch):
            cases.append({"kind": "bytesio", "dn": dn, "att": cp % 2 == 0, "mt": None if cp % 3 else "application/pdf"})
            cases.append({"kind": "bytesio", "dn": "é" + dn, "att": cp % 2 == 1})
        name = f"s{ch}w.txt"
        if legal_filename(name):
            cases.append({"kind": "path", "file": "sweep/" + name, "att": cp % 2 == 0})
    return cases


def documented_cases() -> list:
    """the situations the docstring and CHANGES name, each argument on its own"""
    cases = []
    for name in TREE_NAMES:
        if not legal_filename(name):
            continue
        cases.append({"file": name})
        cases.append({"file": name, "att": True})
        cases.append({"kind": "pathlike", "file": name, "ma_mode": "call", "ma": 30})
        cases.append({"kind": "bytesio", "dn": name, "att": True})
        cases.append({"api": "sfd", "file": name})
    for kind in KINDS:
        for mt in (None, "text/plain"):
            for dn in (None, "d.txt", "dé.txt"):
                for att in (False, True):
                    cases.append({"kind": kind, "mt": mt, "dn": dn, "att": att})
        for rq in REQ_CLASSES:
            for etag in (True, False, "custom-1"):
                cases.append({"kind": kind, "mt": "application/pdf", "rq": rq, "etag": etag})
                cases.append({"kind": kind, "mt": "application/pdf", "rq": rq, "etag": etag, "xsf": True, "fw": True})
        for ma_mode, ma in (("none", 0), ("int", 0), ("int", 1), ("int", 31536000), ("call", 0), ("call", 600), ("callnone", 0)):
            for rq in ("plain", "inm_match", "range_sat"):
                cases.append({"kind": kind, "mt": "image/png", "ma_mode": ma_mode, "ma": ma, "rq": rq})
        for lm_mode in ("int", "float", "dt", "aware"):
            for lm in ([2020, 1, 2, 3, 4, 5, 0], [2024, 2, 29, 23, 59, 59, 999999], [1999, 12, 31, 23, 59, 59, 500000]):
                for rq in ("plain", "ims_eq", "ims_before"):
                    cases.append({"kind": kind, "mt": "image/png", "lm_mode": lm_mode, "lm": lm, "rq": rq})
        for cond in (True, False):
            for rq in ("inm_match", "range_sat", "range_unsat", "head"):
                cases.append({"kind": kind, "mt": "image/png", "cond": cond, "rq": rq, "rclass": "sub"})
    for size in (0, 1, 3, 64, 9000):
        for kind in ("path", "bytesio", "binfile", "pipe"):
            for rq in ("plain", "head", {"method": "GET", "range": "bytes=0-0"}, {"method": "GET", "range": "bytes=-1"}):
                cases.append({"kind": kind, "file": f"size{size}.bin", "size": size, "mt": "application/octet-stream", "rq": rq})
    for name in ("missing.txt", "s5", "../outside.txt", "s5/missing.txt", "s5/a.txt/x"):
        cases.append({"api": "sfd", "file": name, "exists": False})
    return cases


def sdm_cases() -> list:
    cases = []
    for name in TREE_NAMES:
        if not legal_filename(name) or not name.isascii() or any(ord(ch) < 32 or ch in '%?#\\\x7f' for ch in name) or name.startswith("data:"):
            continue
        for cache in (True, False):
            for rq in ("plain", "head", "inm_match", "inm_other", "ims_eq", "ims_before", "head_inm_match"):
                cases.append({"op": "sdm", "file": name, "cache": cache, "timeout": 0 if len(name) % 3 == 0 else 43200, "rq": rq})
    for rq in ("plain", "inm_match"):
        cases.append({"op": "sdm", "file": "missing.txt", "exists": False, "rq": rq})
        cases.append({"op": "sdm", "file": "a.txt", "fallback": "text/x-fallback", "rq": rq})
        cases.append({"op": "sdm", "file": "noext", "fallback": "text/x-fallback", "rq": rq})
        cases.append({"op": "sdm", "file": "unk.qqqzz", "fallback": "application/x-fb", "rq": rq, "cache": False})
    return cases


NAME_ALPHABET = list("abXY019._- ;\"'%\\,=*()[]{}<>@:?&+#~^`|!$") + ["\t", "é", "ü", "€", "ﬁ", "＂", "；", "＼",
                                                                       "́", "日", "\U0001f600", " ", " ", "\x7f", "\x01", "\r", "\n"]
EXTS = [".txt", ".html", ".js", ".json", ".pdf", ".svg", ".svgz", ".tar.gz", ".gz", ".bz2", ".xml", ".sql", ".qq9", "", ".TXT", ".css", ".png", ".xhtml"]


def random_name(rng: random.Random) -> str:
    n = rng.choice((1, 2, 3, 3, 4, 6, 9))
    stem = "".join(rng.choice(NAME_ALPHABET) for _ in range(n))
    return stem + rng.choice(EXTS)


def random_request(rng: random.Random):
    if rng.random() < 0.55:
        return rng.choice(REQ_CLASSES)
    method = rng.choice(("GET", "GET", "GET", "HEAD", "POST"))
    shape = rng.choice(("inm", "ims", "inm+ims", "im", "range", "range+ifr", "range+inm", "range+ims"))
    rq = {"method": method}
    tags = ["{etag}", '"zz"', 'W/{etag}', '"zz", {etag}', "*", '{etag} , "q"']
    dates = ["{lm}", "{lm-1d}", "{lm+1s}"]
    ranges = ["bytes=0-0", "bytes=1-", "bytes=-2", "bytes=2-1000", "bytes=0-1,3-4", "bytes=5-", "bytes=-0", "items=0-1", "bytes=a-b", "bytes=1-2"]
    if shape in ("inm", "inm+ims", "range+inm"):
        rq["inm"] = rng.choice(tags)
    if shape in ("ims", "inm+ims", "range+ims"):
        rq["ims"] = rng.choice(dates)
    if shape == "im":
        rq["im"] = rng.choice(["{etag}", '"zz"', "*"])
    if shape.startswith("range"):
        rq["range"] = rng.choice(ranges)
    if shape == "range+ifr":
        rq["ifr"] = rng.choice(["{etag}", '"zz"', "{lm}", "{lm-1d}"])
    return rq


def random_case(rng: random.Random) -> dict:
    kind = rng.choice(("path", "path", "path", "pathlike", "relpath", "bytesio", "bytesio", "binfile", "pipe", "textio", "textfile"))
    c = {"kind": kind}
    if rng.random() < 0.5:
        c["file"] = rng.choice([n for n in TREE_NAMES if legal_filename(n)])
    else:
        for _ in range(20):
            name = random_name(rng)
            if legal_filename(name):
                c["file"] = "rnd/" + name
                break
    c["size"] = rng.choice((0, 1, 2, 5, 5, 5, 17, 300))
    c["mt"] = rng.choice(MIMETYPES)
    c["att"] = rng.random() < 0.4
    if rng.random() < (0.35 if kind in PATH_KINDS else 0.7):
        c["dn"] = rng.choice(TREE_NAMES + [""]) if rng.random() < 0.4 else random_name(rng)
    c["cond"] = rng.random() < 0.8
    c["etag"] = rng.choice((True, True, False, "tag-" + str(rng.randrange(100)), "a,b", "W/x", ""))
    c["lm_mode"] = rng.choice(("none", "none", "int", "float", "dt", "aware"))
    c["lm"] = [rng.randrange(1990, 2037), rng.randrange(1, 13), rng.randrange(1, 29), rng.randrange(24), rng.randrange(60), rng.randrange(60),
               rng.choice((0, 1, 500000, 999999))]
    c["ma_mode"] = rng.choice(("none", "none", "int", "call", "callnone"))
    c["ma"] = rng.choice((0, 1, 60, 3600, 43200, 31536000))
    c["xsf"] = rng.random() < 0.25
    c["rclass"] = rng.choice(("default", "default", "sub"))
    c["fw"] = rng.random() < 0.3
    c["rq"] = random_request(rng)
    if kind == "path" and rng.random() < 0.15:
        c["api"] = "sfd"
        if rng.random() < 0.2:
            c.update(file="rnd/none-" + str(rng.randrange(10 ** 6)), exists=False)
    # keep the request inside the domain Conditional.tla judges (see InDomain / InDomainRC): If-Match only against a response
    # that has an ETag -- the recorder cannot know that beforehand for every kind, so If-Match is only sent with etag=str
    if isinstance(c["rq"], dict) and c["rq"].get("im") is not None and not (isinstance(c["etag"], str) or (c["etag"] is True and kind in PATH_KINDS)):
        c["rq"].pop("im")
    if c["rq"] == "im_other" and not (isinstance(c["etag"], str) or (c["etag"] is True and kind in PATH_KINDS)):
        c["rq"] = "inm_other"
    return c


def describe(case, ln) -> dict:
    """a real case for the evidence samples"""
    hd = {name: txt(ln[f"h_{k}"]) for k, name in OBS_HEADERS if ln.get(f"h_{k}_n")}
    return {"case": {k: v for k, v in case.items() if k != "exp"}, "status": ln["status"], "exc": ln["exc"], "headers": hd,
            "body_len": len(ln["body"]), "opened": ln["opened"], "open_end": ln["open_end"]}


# ----------------------------------------------------------------------------------------------- SFUniverse.tla
def gen_universe() -> str:
    def t(s):
        return "<<" + ", ".join(str(ord(ch)) for ch in s) + ">>"

    out = ["----------------------------- MODULE SFUniverse -----------------------------",
           "(* GENERATED (`python -m harness.sendfile gen`): the file names of the bounded model with their environment:      *)",
           "(* mimetypes.guess_type(name) and, per code point, the NFKD decomposition restricted to ASCII -- both taken from  *)",
           "(* the Python standard library (they are inputs of send_file, not part of werkzeug).  The harness compares this   *)",
           "(* table with the running interpreter before it replays the model's rows (harness/sendfile.py table_mismatches). *)",
           "NameTable == <<"]
    rows = []
    for n in MODEL_NAMES:
        g, e = mimetypes.guess_type(n)
        fold = [unicodedata.normalize("NFKD", ch).encode("ascii", "ignore").decode() for ch in n]
        rows.append((f"  [n |-> {t(n)}, g_p |-> {'TRUE' if g else 'FALSE'}, g |-> {t(g or '')}, ge_p |-> {'TRUE' if e else 'FALSE'}, ge |-> {t(e or '')},\n"
                     f"   fold |-> <<{', '.join(t(x) for x in fold)}>>]", f"   \\* {ascii(n)} -> {g}, {e}"))
    out.append("\n".join(r + ("," if i < len(rows) - 1 else "") + cm for i, (r, cm) in enumerate(rows)))
    out.append(">>")
    out.append("=============================================================================")
    return "\n".join(out) + "\n"


if __name__ == "__main__":
    import sys

    if sys.argv[1:] == ["gen"]:
        p = os.path.join(os.path.dirname(os.path.dirname(os.path.abspath(__file__))), "spec", "sendfile", "SFUniverse.tla")
        with builtins.open(p, "w") as f:
            f.write(gen_universe())
        print("wrote", p)
