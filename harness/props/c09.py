"""C09 -- the request body stream never over-reads, truncates or hangs.

1. TLC model-checks the implementation-shaped model of LimitedStream + its environment
   (spec/limitedstream/LimitedStream.tla: every scenario x every sequence of public calls x every
   fragmentation / fault choice of the underlying stream within the bounds) against the contract
   LSContract!OpVerdict; the two models of the defective code (temp-buffer short read, truncating
   readall) must violate it.  The decision table of get_input_stream (InputChoice.tla) is checked
   for the laws the property states.
2. spec -> code: TLC exports every behaviour of the bounded model (scenario, calls, environment
   choices, predicted results) and the input table; each is re-executed on the real
   werkzeug.wsgi.LimitedStream / get_input_stream with a harness stream that follows the exported
   environment choices.
3. code -> spec: exhaustive small enumerations and seeded random scenarios (raw, io.BufferedReader,
   io.TextIOWrapper; short reads, OSError injection, early end) are executed on the real code.
Every recorded call is judged by TLC (LimitedStreamTrace.tla) with the same contract operators;
differences to the model's prediction are reported as model drift only.
"""
from __future__ import annotations

import random

from .. import limitedstream as L
from .. import tlc
from ..core import Ctx, pmap

LEVEL = "model_checking"
AREA = "limitedstream"

RAW_OPS = ["read", "readall", "readline", "next", "readlines", "readinto", "readinto_mv", "exhaust"]
BUF_OPS = ["read", "readall", "read1", "readline", "next", "readlines", "readinto", "readinto_mv", "readinto1", "peek"]
TXT_OPS = ["read", "readall", "readline", "next", "readlines"]
SIZED = {"read", "read1", "readinto", "readinto_mv", "readinto1"}
OPS = {"raw": RAW_OPS, "buffered": BUF_OPS, "text": TXT_OPS}


def _run(case):
    return L.run_trace(case)


def _run_choice(case):
    return L.run_choice(case)


# ------------------------------------------------------------------ scenario generators
def case_from_model(v) -> dict:
    """behaviour exported by TLC -> scenario for the real code: the plan replays the model's
    environment choices (bytes handed out per underlying call, OSError, end of input)."""
    c, hist = v["c"], v["hist"]
    plan = []
    for ln in hist:
        for m, got in ln["ev"]:
            plan.append(L.ERR if got < 0 else max(got, 1))
    return {"data": c["data"], "limit": c["limit"], "is_max": c["is_max"], "hasri": c["hasri"],
            "wrapper": c.get("wrapper", "raw"), "bufsize": c.get("bufsize", 8), "plan": plan, "default": L.HUGE,
            "ops": [[ln["op"], ln["n"]] for ln in hist], "exp": hist,
            "dq": c.get("dq", False), "ex": c.get("ex", "default")}


ALPHA = b"ab\ncd\nef\n\ngh"


def rand_data(rng, n):
    return [rng.choice(b"abcdefgh\n\n") for _ in range(n)]


def rand_ops(rng, wrapper, k):
    ops = []
    for _ in range(k):
        op = rng.choice(OPS[wrapper])
        if op in SIZED:
            n = rng.choice([1, 1, 2, 3, 5, 8, 20])
        elif op == "readline":
            n = rng.choice([-1, -1, 1, 2, 4])
        elif op == "readlines":
            n = rng.choice([-1, -1, -1, 3])
        else:
            n = -1
        ops.append([op, n])
    return ops


def rand_case(rng, big=False):
    n = rng.randint(0, 40 if big else 12)
    data = rand_data(rng, n)
    limit = max(0, n + rng.choice([-3, -2, -1, 0, 0, 0, 1, 2, 5])) if rng.random() < 0.85 else rng.randint(0, n + 3)
    wrapper = rng.choice(["raw", "raw", "buffered", "buffered", "text"])
    plan = []
    for _ in range(rng.randint(0, 12)):
        plan.append(L.ERR if rng.random() < 0.07 else rng.choice([1, 1, 2, 3, 4, 7]))
    ops = rand_ops(rng, wrapper, rng.randint(1, 6))
    if rng.random() < 0.5:
        ops.append(["readall", -1])
    hooked = rng.random() < 0.25
    return {"dq": hooked and rng.random() < 0.7, "ex": rng.choice(["default", "quiet", "raise"]) if hooked else "default",
            "data": data, "limit": limit, "is_max": rng.random() < 0.5, "hasri": rng.random() < 0.6,
            "wrapper": wrapper, "bufsize": rng.choice([1, 2, 4, 8, 64, 8192]), "plan": plan,
            "default": rng.choice([1, 2, 3, L.HUGE]), "ops": ops}


def enum_cases(quick: bool):
    """exhaustive small enumeration: every single call and every pair (first call = sized read) on
    every wrapper, for data `ab\\ncd` against limits below / at / above the data length and
    uniform fragmentations 1, 2, whole."""
    data = list(b"ab\ncd")
    out = []
    for wrapper in ("raw", "buffered", "text"):
        singles = []
        for op in OPS[wrapper]:
            if op in SIZED:
                singles += [[op, n] for n in (1, 3, 9)]
            elif op == "readline":
                singles += [[op, -1], [op, 2]]
            else:
                singles.append([op, -1])
        seqs = [[s] for s in singles] + [[["read", n], s] for n in (2, 4) for s in singles]
        if not quick:
            seqs += [[s1, s2] for s1 in singles for s2 in singles]
        for limit in (0, 3, 5, 7):
            for is_max in (False, True):
                for hasri in (False, True):
                    for k in (1, 2, L.HUGE):
                        for bs in ((2,) if wrapper == "raw" else (2, 8192)):
                            for ops in seqs:
                                out.append({"data": data, "limit": limit, "is_max": is_max, "hasri": hasri,
                                            "wrapper": wrapper, "bufsize": bs, "plan": [], "default": k,
                                            "ops": ops + [["readall", -1]]})
    return out


HOOKS = [(True, "default"), (True, "quiet"), (True, "raise"), (False, "quiet"), (False, "raise")]


def hook_cases(quick: bool):
    """Subclasses overriding the documented hooks (on_disconnect returning normally, on_exhausted
    returning / raising its own exception), is_max both ways, crossed with every call pattern on
    the raw stream and under BufferedReader (thorough: also TextIOWrapper), for bodies shorter than
    / equal to / longer than declared, fragmentation 1 / whole, and an OSError at the first or
    second underlying call."""
    data = list(b"ab\ncd")
    out = []
    for wrapper in (("raw", "buffered") if quick else ("raw", "buffered", "text")):
        singles = []
        for op in OPS[wrapper]:
            if op in SIZED:
                singles += [[op, n] for n in ((3,) if quick else (1, 3, 9))]
            elif op == "readline":
                singles += [[op, -1], [op, 2]]
            else:
                singles.append([op, -1])
        for dq, ex in HOOKS:
            for limit in ((3, 7) if quick else (0, 3, 5, 7)):
                for is_max in (False, True):
                    for k in (1, L.HUGE):
                        for plan in (([], [L.ERR]) if quick else ([], [L.ERR], [1, L.ERR])):
                            for hasri in ((True,) if quick else (True, False)):
                                for s1 in singles:
                                    out.append({"data": data, "limit": limit, "is_max": is_max, "hasri": hasri,
                                                "wrapper": wrapper, "bufsize": 2, "plan": plan, "default": k,
                                                "ops": [s1, ["readall", -1]], "dq": dq, "ex": ex})
    return out


CL_EXTRA = ["7", " 7", "007", "-7", "7a", "seven", "٧", "12345678901234567890", "٠", "+0", "1_0", "\t2\n"]


def choice_cases(rng, table, quick):
    cases = []
    datas = [b"", b"ab", b"abc", b"abcde", b"abcdefgh"]
    for row in table:
        i = row["in"]
        for d in datas:
            cases.append({"cl": "".join(map(chr, i["cl"])) if i["has_cl"] else None,
                          "te": "chunked" if i["chunked"] else None, "terminated": i["terminated"],
                          "max": i["max"], "safe_fallback": i["safe"], "data": list(d)})
            if i["safe"]:
                cases.append(dict(cases[-1], api="request"))
    for _ in range(400 if quick else 6000):
        cl = rng.choice(CL_EXTRA + [str(rng.randint(0, 12)), None, None])
        cases.append({"cl": cl, "te": rng.choice([None, None, "chunked", "gzip"]),
                      "terminated": rng.random() < 0.5, "max": rng.choice([-1, -1, 0, 1, 4, 7, 9, 30]),
                      "safe_fallback": rng.random() < 0.6, "data": rand_data(rng, rng.randint(0, 14))})
    return cases


def _req_body(rng, consumer, n):
    """bodies for which re-encoding the consumer's decoded value gives back exactly the bytes it
    was given, also for every prefix the scenarios can produce"""
    if n == 0:
        return []
    if consumer == "req_get_json":      # every non-empty prefix is a JSON number, no leading zero
        return list(("".join(rng.choice("123456789") for _ in range(n))).encode())
    if consumer == "req_form":          # "q=vvvv": every prefix of length 0 or >= 2 re-encodes exactly
        return list(("q=" + "".join(rng.choice("abcxyz") for _ in range(n)))[:max(n, 2)].encode())
    return [rng.choice(b"abcdefgh\n {}\"") for _ in range(n)]


def request_cases(rng, quick):
    """Request-level consumers over the same underlying-stream plans: fragmentation 1/2/whole,
    with/without readinto, early end (body shorter than declared), OSError at call j, declared
    length below / at / above what the client sent, terminated input with max_content_length."""
    cases = []

    def add(consumer, n, limit, is_max, hasri, plan, default, mx=-1, send_cl=False):
        if consumer == "req_get_json" and (n == 0 or limit == 0):
            return          # an empty body is not JSON: BadRequest is correct there, nothing to judge
        if consumer == "req_form" and limit == 1:
            return          # the 1-byte prefix "q" re-encodes as "q=": ambiguous, left out
        body = _req_body(rng, consumer, n)
        if is_max and send_cl and len(body) > limit:
            send_cl = False  # Content-Length above the maximum is the decision table's case, not this layer's
        cases.append({"data": body, "limit": limit, "is_max": is_max, "hasri": hasri, "plan": plan, "default": default,
                      "consumer": consumer, "max": mx, "send_cl": send_cl})

    for consumer in L.REQ_CONSUMERS:
        for n in (0, 6):
            for dl in (-2, 0, 3):
                limit = max(0, n + dl)
                for is_max in (False, True):
                    for hasri in (False, True):
                        for default in (1, 2, L.HUGE):
                            for plan in ([], [L.ERR], [2, L.ERR]):
                                add(consumer, n, limit, is_max, hasri, plan, default)
    for _ in range(900 if quick else 40000):
        consumer = rng.choice(L.REQ_CONSUMERS)
        n = rng.randint(0, 24)
        limit = max(0, n + rng.choice([-5, -1, 0, 0, 0, 1, 4]))
        plan = [L.ERR if rng.random() < 0.06 else rng.choice([1, 1, 2, 3, 5, 9]) for _ in range(rng.randint(0, 8))]
        is_max = rng.random() < 0.4
        add(consumer, n, limit, is_max, rng.random() < 0.5, plan, rng.choice([1, 2, 4, L.HUGE]),
            mx=rng.choice([-1, -1, limit, limit + 7]), send_cl=rng.random() < 0.5)
    return cases


def _run_request(case):
    return L.run_request(case)


def judge_requests(ctx: Ctx, cases):
    results = pmap(_run_request, cases, workers=min(ctx.workers, 8), chunksize=32)
    lines = []
    for t, (case, tr) in enumerate(zip(cases, results)):
        for ln in tr:
            ln["t"] = t
            lines.append(ln)
        ctx.count(len(tr) - 1, ("request", case["consumer"], bytes(case["data"]), case["limit"], case["is_max"], case["hasri"],
                                tuple(map(str, case["plan"])), case["default"], case["max"], case["send_cl"]))
        if t % 1201 == 7:
            ctx.sample({"kind": "request-consumer", "consumer": case["consumer"], "body": bytes(case["data"]).decode("latin-1"),
                        "declared_or_max": case["limit"], "limit_is_max": case["is_max"], "plan": case["plan"],
                        "results": [[ln["op"], ln["rk"], bytes(ln["rb"]).decode("latin-1"), ln["rx"], ln["ev"]] for ln in tr[1:]]})
    for r in ctx.judge(AREA, "LimitedStreamTrace", lines, batch=6000):
        case = cases[r["t"]]
        op = [case["consumer"], "req_stream_read", "req_close"][r["i"]]
        ctx.violation(f"{r['clause']}:{op}:request", r["clause"], case, kind="request")


# ------------------------------------------------------------------ judge
def judge_traces(ctx: Ctx, cases, kind):
    results = pmap(_run, cases, workers=min(ctx.workers, 8), chunksize=32)
    lines = []
    for t, (case, tr) in enumerate(zip(cases, results)):
        for ln in tr:
            ln["t"] = t
            lines.append(ln)
        ncalls = len(tr) - 1
        ctx.count(ncalls)
        evs = [e for ln in tr[1:] for e in ln["ev"]]
        short = any(0 < got < m for m, got in evs)
        if short or any(got < 0 for _, got in evs) or len(case["data"]) != case["limit"]:
            ctx.nontrivial.add((case.get("dq", False), case.get("ex", "default"),
                                bytes(case["data"]), case["limit"], case["is_max"], case["hasri"], case["wrapper"],
                                case["bufsize"], tuple(map(str, case["plan"])), case["default"],
                                tuple(map(tuple, case["ops"]))))
        if t % 1499 == 0:
            ctx.sample({"kind": kind, "data": bytes(case["data"]).decode("latin-1"), "limit": case["limit"],
                        "is_max": case["is_max"], "underlying_has_readinto": case["hasri"], "wrapper": case["wrapper"],
                        "plan": case["plan"], "ops": case["ops"],
                        "results": [[ln["rk"], bytes(ln["rb"]).decode("latin-1"), ln["rx"], ln["ev"]] for ln in tr[1:]]})
    for r in ctx.judge(AREA, "LimitedStreamTrace", lines, batch=6000):
        case = dict(cases[r["t"]])
        op = case["ops"][r["i"]][0]
        case["ops"] = case["ops"][: r["i"] + 1]
        case.pop("exp", None)
        hook = "" if not case.get("dq") and case.get("ex", "default") == "default" else \
            f":hook-{'dq' if case.get('dq') else 'nodq'}-{case.get('ex', 'default')}"
        ctx.violation(f"{r['clause']}:{case['wrapper']}:{op}{hook}", r["clause"], case, kind="trace")
    return len(lines)


def judge_choices(ctx: Ctx, cases):
    results = pmap(_run_choice, cases, workers=min(ctx.workers, 8), chunksize=64)
    lines = []
    for i, (case, r) in enumerate(zip(cases, results)):
        r["t"], r["i"] = 0, i
        lines.append(r)
        ctx.count(1, ("choice", case["cl"], case["te"], case["terminated"], case["max"], case["safe_fallback"],
                      len(case["data"])))
        if i % 977 == 5:
            ctx.sample({"kind": "get_input_stream", **{k: case[k] for k in ("cl", "te", "terminated", "max", "safe_fallback")},
                        "data_len": len(case["data"]), "returned": r["tag"], "get_raised": r["gx"],
                        "read": [r["r1k"], bytes(r["r1"]).decode("latin-1"), r["r1x"]], "consumed": r["consumed2"]})
    for r in ctx.judge(AREA, "LimitedStreamTrace", lines, batch=4000):
        case = cases[r["i"]]
        cls = ("absent" if case["cl"] is None else "valid" if case["cl"].strip().isascii() and case["cl"].strip().isdigit()
               else "malformed")
        ctx.violation(f"choice:{case.get('api', 'get_input_stream')}:{r['clause']}:cl-{cls}:{'chunked' if case['te'] == 'chunked' else 'plain'}:"
                      f"{'terminated' if case['terminated'] else 'unterminated'}", r["clause"], case, kind="choice")


def _syn(i, op, n, ev, rk, rb, rx, pos, **kw):
    d = {"t": 0, "i": i, "op": op, "n": n, "ev": ev, "rk": rk, "rb": list(rb), "rx": rx, "cuts": [], "bafter": [],
         "bn": -1, "pos": pos}
    d.update(kw)
    return d


def judge_selftest(ctx: Ctx):
    """Machinery self-test, independent of the code under test: a hand-written correct trace is
    accepted, and each single corrupted field is rejected with the expected clause."""
    cfg = {"t": 0, "op": "cfg", "data": list(b"ab\ncd"), "limit": 4, "is_max": False, "hasri": True,
           "wrapper": "raw", "bufsize": 8, "exp": []}
    good = [_syn(0, "read", 3, [[3, 2]], "bytes", b"ab", "", 2),
            _syn(1, "readinto", 5, [[2, 1]], "bytes", b"\n", "", 3, bafter=[10, 238, 238, 238, 238], bn=1),
            _syn(2, "readall", -1, [[1, 1]], "bytes", b"c", "", 4),
            _syn(3, "read", 2, [], "bytes", b"", "", 4)]
    bad = [("PrefixOfData", _syn(0, "read", 3, [[3, 2]], "bytes", b"aX", "", 2)),
           ("PosAccounting", _syn(0, "read", 3, [[3, 2]], "bytes", b"ab", "", 3)),
           ("NoOverRead", _syn(0, "read", 3, [[5, 2]], "bytes", b"ab", "", 2)),
           ("NoLoss", _syn(0, "read", 3, [[3, 2]], "bytes", b"a", "", 2)),
           ("OnlyDocumentedExceptions", _syn(0, "read", 3, [[3, 2]], "exc", b"", "ValueError", 2)),
           ("Truncated", _syn(0, "readall", -1, [[4, 2]], "bytes", b"ab", "", 2)),
           ("DisconnectOnShort", _syn(0, "readall", -1, [[4, 2], [2, 0]], "bytes", b"ab", "", 2)),
           ("CallerBufferIntact", _syn(0, "readinto", 3, [[3, 2]], "bytes", b"ab", "", 2, bafter=[97, 98, 0, 238], bn=2)),
           ("SpuriousDisconnect", _syn(0, "read", 3, [[3, 2]], "exc", b"", "ClientDisconnected", 2)),
           ("StepBound", _syn(0, "readall", -1, [[4, 0]] * 5, "exc", b"", "ClientDisconnected", 0))]
    lines = [dict(cfg)] + good
    for k, (_, ln) in enumerate(bad):
        lines.append(dict(cfg, t=k + 1))
        lines.append(dict(ln, t=k + 1))
    before = ctx.traces
    rej = {(r["t"], r["clause"]) for r in ctx.judge(AREA, "LimitedStreamTrace", lines)}
    ctx.traces = before
    want = {(k + 1, clause) for k, (clause, _) in enumerate(bad)}
    if rej != want:
        raise tlc.MachineryError(f"judge self-test: expected rejects {sorted(want)}, got {sorted(rej)}")
    ctx.notes["judge_selftest"] = f"correct synthetic trace accepted, {len(bad)} single-field corruptions rejected with the expected clause"


def growth_models(ctx: Ctx):
    """Growth round: (1) io.BufferedReader over LimitedStream as a TLC-checked state machine
    (BufferedLS.tla), (2) liveness of the read loops under weak fairness + a spinning variant TLC
    must refute with a lasso, (3) unbounded accounting with Apalache (thorough tier only)."""
    q = ctx.quick
    # (1) buffering layer: read-ahead never beyond the limit, upos = delivered + buffered, contract
    ctx.model_check(AREA, "MCBufferedLS", "MCBQ_fixed2" if q else "MCBQ_fixed", timeout=900)
    if not q:
        ctx.model_check(AREA, "MCBufferedLS", "MCBT_wide", timeout=3000)
    for variant in (() if q else ("over", "f10")):
        r = tlc.run_tlc(AREA, "MCBufferedLS", f"MCBQ_{variant}", workers=ctx.workers, tmp=ctx.tmp,
                        allow_violation=True, timeout=600)
        ctx.notes[f"buffered_model_{variant}_violates"] = r.invariant_violated
        if r.invariant_violated not in ("Contract", "NoOverReadInv", "Accounting"):
            raise tlc.MachineryError(f"defective buffered model variant {variant} violates nothing")
    # (2) liveness, no state constraint
    r = ctx.model_check(AREA, "MCLimitedStream", "MCL_live", timeout=600)
    ctx.notes["liveness"] = f"Terminates == [](~Idle => <>Idle) holds under WF(Step): {r.distinct} states"
    if not q:
        t = L.tlc_temporal(AREA, "MCLimitedStream", "MCL_spin", ctx.tmp, workers=min(ctx.workers, 4))
        ctx.notes["liveness_spin_variant"] = {k: t[k] for k in ("violated", "lasso", "distinct", "wall_s")}
        if not (t["violated"] and t["lasso"]):
            raise tlc.MachineryError(f"spinning readall variant was not refuted with a lasso:\n{t['tail']}")
        # (3) Apalache: inductive invariant over unbounded integers
        obl = L.apalache_obligations(ctx.tmp, timeout=300)
        ctx.notes["apalache"] = obl
        if any(o["outcome"] not in ("unavailable", "timeout") and o["outcome"] != o["expected"] for o in obl):
            raise tlc.MachineryError(f"Apalache obligation failed: {obl}")
        if any(o["outcome"] in ("unavailable", "timeout") for o in obl):
            ctx.assumptions.append("Apalache obligations not (all) discharged in this run: see coverage.apalache")


def hooks_models(ctx: Ctx, rng):
    """Documented subclass hooks: the model variant "hooks" (quiet on_disconnect, on_exhausted
    default / quiet / raising) satisfies the contract incl. the bound on underlying reads per call
    (LoopBound, StepBound); the variant whose readall loop only stops on is_max must fail; the
    behaviours of the hooks variant are replayed on real subclasses."""
    q = ctx.quick
    if not q:
        ctx.model_check(AREA, "MCLimitedStream", "MCT_hooks", timeout=1500)
    r = tlc.run_tlc(AREA, "MCLimitedStream", "MCQ_hookspin", workers=ctx.workers, tmp=ctx.tmp, allow_violation=True, timeout=600)
    ctx.notes["model_hookspin_violates"] = r.invariant_violated
    if r.invariant_violated not in ("LoopBound", "Contract"):
        raise tlc.MachineryError("readall variant that only stops on is_max was not refuted (LoopBound)")
    # one run checks the invariants of the hooks variant and exports its behaviours
    beh = [v for v in ctx.export(AREA, "MCLimitedStream", "MCX_hooks", count_states=True, timeout=900)
           if isinstance(v, dict) and "hist" in v]
    ctx.notes["hook_behaviours_exported"] = len(beh)
    if not beh:
        raise tlc.MachineryError("no behaviours exported from the hooks model variant")
    cap = 1000 if q else 30000
    if len(beh) > cap:
        beh = rng.sample(beh, cap)
    judge_traces(ctx, [case_from_model(v) for v in beh], "hooks-model-behaviour")
    judge_traces(ctx, hook_cases(q), "hooks-driver")


def growth_replay(ctx: Ctx, rng):
    """spec -> code for the buffering layer: every exported behaviour of BufferedLS.tla is run on a
    real io.BufferedReader(LimitedStream(..), buffer_size=B); contract verdicts + drift."""
    q = ctx.quick
    beh = [v for v in ctx.export(AREA, "MCBufferedLS", "MCBX_q" if q else "MCBX_hist_w", count_states=False, timeout=1500)
           if isinstance(v, dict) and "hist" in v]
    ctx.notes["buffered_behaviours_exported"] = len(beh)
    if not beh:
        raise tlc.MachineryError("no behaviours exported from the buffered model")
    cap = 1500 if q else 40000
    if len(beh) > cap:
        beh = rng.sample(beh, cap)
    ctx.notes["buffered_behaviours_replayed"] = len(beh)
    judge_traces(ctx, [case_from_model(v) for v in beh], "buffered-model-behaviour")


def run(ctx: Ctx):
    q = ctx.quick
    rng = random.Random(ctx.seed)
    ctx.rule = ("case = one application-level call (read/read1/readline/readlines/readinto/iteration/exhaust/read-all) on a "
                "real LimitedStream scenario (data, limit, is_max, underlying stream with/without readinto, raw / "
                "BufferedReader / TextIOWrapper, fragmentation + OSError plan), or one get_input_stream environ; scenarios: "
                "all behaviours exported from the TLC model, exhaustive small enumeration, seeded random; non-trivial = "
                "distinct scenario with a short read, an injected error or a limit different from the data length, "
                "resp. distinct environ row")
    ctx.assumptions += [
        "the underlying stream never hands out more than requested (WSGI input contract); it may hand out fewer bytes (>= 1) while data is left",
        "io.BufferedReader / io.TextIOWrapper (CPython) may drop bytes of a call that raised: after an exception under a "
        "buffering wrapper only 'an in-order subsequence of the data not yet delivered, never beyond what was consumed' is required",
        "read sizes are positive or unbounded (read(0) is outside the property's quantifier)",
        "hang detection counts underlying calls per application call (no wall-clock watchdog)",
    ]
    judge_selftest(ctx)
    # 1. model checking
    ctx.model_check(AREA, "MCLimitedStream", "MCQ_fixed", timeout=600)
    # (the decision table MCInputChoice is model-checked by the export run below: same cfg, same invariants)
    if not q:
        for cfg in ("MCT_deep", "MCT_wide", "MCT_big"):
            ctx.model_check(AREA, "MCLimitedStream", cfg, timeout=3000)
    # non-vacuity: the models of the two defective implementations violate the contract
    for variant in (("f10",) if q else ("f10", "trunc")):
        r = tlc.run_tlc(AREA, "MCLimitedStream", f"MCQ_{variant}", workers=ctx.workers, tmp=ctx.tmp,
                        allow_violation=True, timeout=600)
        ctx.notes[f"model_{variant}_violates"] = r.invariant_violated
        if r.invariant_violated != "Contract":
            raise tlc.MachineryError(f"defective model variant {variant} does not violate Contract: vacuous contract?")
    growth_models(ctx)
    ctx.exhaustive = True
    # 2. spec -> code
    behaviours = [v for v in ctx.export(AREA, "MCLimitedStream", "MCX_hist" if q else "MCX_hist3", count_states=False,
                                        timeout=1500)
                  if isinstance(v, dict) and "hist" in v]
    ctx.notes["model_behaviours_exported"] = len(behaviours)
    if not behaviours:
        raise tlc.MachineryError("no behaviours exported from the model")
    if q and len(behaviours) > 2000:
        behaviours = rng.sample(behaviours, 2000)
    elif len(behaviours) > 100000:
        behaviours = rng.sample(behaviours, 100000)
    ctx.notes["model_behaviours_replayed"] = len(behaviours)
    judge_traces(ctx, [case_from_model(v) for v in behaviours], "model-behaviour")
    growth_replay(ctx, rng)
    hooks_models(ctx, rng)
    table = [v for v in ctx.export(AREA, "MCInputChoice", "MCInputChoice", count_states=True) if isinstance(v, dict) and "in" in v]
    ctx.notes["input_table_rows"] = len(table)
    judge_choices(ctx, choice_cases(rng, table, q))
    # 3. code -> spec
    cases = enum_cases(q)
    cases += [rand_case(rng) for _ in range(1500 if q else 70000)]
    cases += [rand_case(rng, big=True) for _ in range(300 if q else 6000)]
    judge_traces(ctx, cases, "driver")
    # 4. Request-level consumers of the body stream (wrappers/request.py)
    judge_requests(ctx, request_cases(rng, q))
    if ctx.model_drift:
        ctx.notes["model_drift_count"] = len(ctx.model_drift)


def replay(ctx: Ctx, data):
    case = data["case"]
    ctx.sample(case)
    ctx.nontrivial.update({("replay", 0), ("replay", 1)})
    if data.get("kind") == "choice":
        judge_choices(ctx, [case])
    elif data.get("kind") == "request":
        judge_requests(ctx, [case])
    else:
        judge_traces(ctx, [case], "replay")
