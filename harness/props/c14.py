"""C14 -- untrusted paths and filenames cannot escape the trusted directory.

1. TLC model-checks safe_join, transcribed as a state machine (one step per untrusted component; the
   accumulated path is the state) over every tuple of components built from the atoms of the property
   statement against the bases /s/r, r, "" and /, for the invariant "refused or, once normalised, still
   inside the base" (segment-wise containment), the laws of the normal form itself, and the ASCII
   transcription of secure_filename for the output predicates and idempotence.  Hand-broken variants of both
   transcriptions must FAIL (non-vacuity).
2. spec -> code: the model's (base, parts) -> SafeJoin table and the (text -> San) table are exported from TLC
   and replayed on the real safe_join / secure_filename; the recorded outcome is judged by TLC.
3. code -> spec: atom enumerations and seeded random tuples on more bases and look-alike atoms; requests through
   send_from_directory (absolute / relative / empty base) and SharedDataMiddleware (directory, "/" export,
   relative directory, package loader) over a real temporary tree with sentinel files outside the root, request
   paths percent-decoded as a server does; secure_filename over code point sweeps in five contexts and seeded
   random Unicode text.  Every line is judged by PathSafetyTrace.tla.
"""
from __future__ import annotations

import os
import random

from .. import pathsafety as ps
from .. import tlc
from ..core import Ctx, pmap
from ..tlc import MachineryError

LEVEL = "model_checking"
AREA = "pathsafety"
JUDGE = "PathSafetyTrace"


# --------------------------------------------------------------------------- judging helpers
def _judge(ctx: Ctx, lines, describe, kind, batch=3000, prefix=""):
    """lines carry t/i; describe(line) -> (key suffix, replay case)"""
    index = {(ln["t"], ln["i"]): ln for ln in lines}
    for r in ctx.judge(AREA, JUDGE, lines, batch=batch):
        ln = index.get((r["t"], r["i"]))
        if ln is None:
            raise MachineryError(f"judge rejected an unknown line: {r}")
        suffix, case = describe(ln)
        ctx.violation(f"{prefix}{r['clause']}:{suffix}", prefix + r["clause"], case, kind=kind)


def judge_joins(ctx: Ctx, cases, kind="join", prefix=""):
    lines = pmap(ps.join_case, cases, workers=ctx.workers, chunksize=256)
    seen = {"none": 0, "path": 0, "exc": 0}
    for t, (case, ln) in enumerate(zip(cases, lines)):
        ln["t"], ln["i"] = t, 0
        seen[ln["r"]["kind"]] += 1
        joined = "/".join(case[1])
        if ln["r"]["kind"] == "path" and (".." in joined or "//" in joined or "\x00" in joined or "\\" in joined):
            ctx.nontrivial.add(("join", case[0], tuple(case[1])))
        elif ln["r"]["kind"] == "none":
            ctx.nontrivial.add(("join", case[0], tuple(case[1])))
        if t % 4999 == 11:
            ctx.sample({"dir": case[0], "parts": case[1], "result": ln["r"]["kind"], "path": ps.txt(ln["r"]["v"])})
    ctx.count(len(lines))
    _judge(ctx, lines, lambda ln: ("safe_join", {"dir": ps.txt(ln["dir"]), "parts": [ps.txt(p) for p in ln["parts"]]}), kind, prefix=prefix)
    return seen


def judge_sans(ctx: Ctx, cases, kind="san"):
    lines = pmap(ps.san_case, cases, workers=ctx.workers, chunksize=512)
    changed = 0
    for t, (case, ln) in enumerate(zip(cases, lines)):
        ln["t"], ln["i"] = t, 0
        if ln["out"] != ln["x"]:
            changed += 1
            ctx.nontrivial.add(("san", case[0]))
        if t % 9973 == 5:
            ctx.sample({"filename": case[0], "secure_filename": ps.txt(ln["out"])})
    ctx.count(len(lines))
    _judge(ctx, lines, lambda ln: ("secure_filename", {"x": ln["x"]}), kind, batch=6000)
    return changed


def judge_serves(ctx: Ctx, targets_by_api, tree, kind="serve", prefix="", case_extra=None):
    """targets_by_api: list of (api, raw target); requests run in this process (they chdir / import).
    One trace = a tree line (as seen from the api's exported root) + up to 400 requests."""
    lines, t, n_in_t, cur_root = [], 0, 0, None
    stats = {"200": 0, "404": 0, "exc": 0}
    excs = {}
    for api, raw in targets_by_api:
        if n_in_t > 0 and ps.rootrel_of(api) != cur_root:
            t, n_in_t = t + 1, 0
        if n_in_t == 0:
            cur_root = ps.rootrel_of(api)
            hdr = tree.line(cur_root)
            hdr["t"], hdr["i"] = t, 0
            lines.append(hdr)
        ln = ps.serve_line(tree, api, raw)
        n_in_t += 1
        ln["t"], ln["i"] = t, n_in_t
        lines.append(ln)
        if ln["exc"]:
            stats["exc"] += 1
            excs.setdefault(f"{api}:{ln['exc']}", raw)
        elif ln["status"] == 200:
            stats["200"] += 1
            ctx.nontrivial.add(("serve", api, raw))
        else:
            stats["404"] += 1
            if ".." in ps.txt(ln["path"]) or ps.txt(ln["path"]).startswith("/"):
                ctx.nontrivial.add(("serve", api, raw))
        if len(lines) % 2503 == 7:
            ctx.sample({"api": api, "target": raw, "status": ln["status"], "served_file_id": ln["served"]})
        if n_in_t >= 400:
            t, n_in_t = t + 1, 0
    ctx.count(len(targets_by_api))
    qbase = tree.base.replace("/", "%2F")   # replay files must not depend on this run's scratch directory

    def describe(ln):
        raw = ps.txt(ln.get("raw", [])).replace(tree.base, "{BASE}").replace(qbase, "{QBASE}")
        suffix = ln.get("api", "tree") + (":" + ln["exc"] if ln.get("exc") else "")
        return suffix, dict(case_extra or {}, api=ln.get("api"), raw=raw)

    _judge(ctx, lines, describe, kind, prefix=prefix)
    if stats["200"] == 0 or stats["404"] == 0:
        raise MachineryError(f"end-to-end driver is vacuous: {stats}")
    for k, v in excs.items():
        ctx.notes.setdefault("e2e_exceptions", {})[k] = v
    return stats


# --------------------------------------------------------------------------- model checking
def model_checks(ctx: Ctx):
    q = ctx.quick
    ctx.model_check(AREA, "MCPathSafety", "MCQ_laws", timeout=600)
    for cfg in (["MCQ_contract", "MCQ_a3p1", "MCQ_small_p3"] if q else
                ["MCQ_contract", "MCQ_a3p1", "MCQ_small_p3", "MCT_a3p2", "MCT_a2p3"]):
        ctx.model_check(AREA, "MCPathSafety", cfg, timeout=3000)
    # 3 atoms x 3 components (and x 6 in thorough) through the depth abstraction; AbsCommutes in the concrete
    # configurations above ties the abstraction to the real accumulated path
    ctx.model_check(AREA, "MCPathSafety", "MCQ_abs_a3p3", timeout=600)
    # NUL-then-dotdot atoms ('NUL/..', '/..', 'a.b NUL .c' ...)
    for cfg in (["MCQ_nul_a3p1", "MCQ_nul_a2p2", "MCQ_nul_abs_a3p3"] if q else
                ["MCQ_nul_a3p1", "MCQ_nul_a2p2", "MCQ_nul_abs_a3p3", "MCT_nul_a3p2"]):
        ctx.model_check(AREA, "MCPathSafety", cfg, timeout=1200)
    if not q:
        ctx.model_check(AREA, "MCPathSafety", "MCT_abs_a3p6", timeout=3000)
    for cfg in (["MCQ_san"] if q else ["MCQ_san", "MCT_san", "MCT_san7"]):
        ctx.model_check(AREA, "MCFilename", cfg, timeout=3000)
    # non-vacuity: every hand-broken transcription must violate the contract
    broken = {}
    for mod, cfgs in (("MCPathSafety", ["MCV_nonorm", "MCV_noeq", "MCV_noprefix", "MCV_noabs"]),
                      ("MCPathSafety", ["MCV_abs_nonorm", "MCV_abs_noeq"]),
                      ("MCPathSafety", ["MCV_nulpartial"]),
                      ("MCFilename", ["MCV_san_nostrip", "MCV_san_nosep", "MCV_san_nosplit", "MCV_san_rstriponly"]),
                      ("MCFilename", ["MCV_san_trunc3_idem", "MCV_san_trunc4_idem"][:1 if q else 2])):
        for cfg in (cfgs[:2] if q else cfgs):
            r = tlc.run_tlc(AREA, mod, cfg, workers=2, tmp=ctx.tmp, allow_violation=True, timeout=600)
            broken[cfg] = r.invariant_violated
            if not r.invariant_violated:
                raise MachineryError(f"broken variant {cfg} satisfies the contract: the invariants may be vacuous")
    if broken.get("MCV_san_trunc3_idem") != "Idempotent":
        raise MachineryError(f"'truncate after the strip' must violate idempotence, got {broken.get('MCV_san_trunc3_idem')}")
    if not q:   # ... while it keeps the output shape: only the idempotence clause can see such a change
        ctx.model_check(AREA, "MCFilename", "MCQ_san_trunc3_shape", timeout=600)
        ctx.model_check(AREA, "MCFilename", "MCQ_san_trunc4_shape", timeout=600)
    ctx.notes["broken_variants_violate"] = broken
    ctx.exhaustive = True


# --------------------------------------------------------------------------- drivers
def join_cases(ctx: Ctx):
    q = ctx.quick
    rng = random.Random(ctx.seed)
    cases = []
    for cfg in (["MCX_a3p1", "MCX_a2p2_q", "MCX_small_p3", "MCX_nul_a3p1"] if q else
                ["MCX_a3p1", "MCX_a2p2", "MCX_small_p3", "MCX_full_p3", "MCX_nul_a3p1"]):
        for v in ctx.export(AREA, "MCPathSafety", cfg, count_states=False, timeout=3000):
            if isinstance(v, dict) and "parts" in v:
                cases.append([ps.txt(v["dir"]), [ps.txt(p) for p in v["parts"]], {"ok": v["ok"], "path": v["path"]}])
    n_model = len(cases)
    if n_model < 1000:
        raise MachineryError(f"only {n_model} cases exported from the model")
    # code -> spec: more bases, look-alike atoms
    c1 = ps.components(ps.CORE_ATOMS, 2)
    cases += list(ps.enum_join_cases(ps.BASES, ps.components(ps.ATOMS, 1 if q else 2), 1))
    cases += list(ps.enum_join_cases(ps.BASES[:6] if q else ps.BASES, ps.components(ps.CORE_ATOMS, 1), 2))
    if not q:
        cases += list(ps.enum_join_cases(ps.BASES[:4], c1, 2))
        cases += list(ps.enum_join_cases(ps.BASES[:4], ps.components(ps.CORE_ATOMS, 1), 3))
    cases += [[b, []] for b in ps.BASES]
    # components in which a NUL (or another character a C-level normpath might stop at) is FOLLOWED by dot-dots
    # (judged separately in run(): keys NulDotDot...)
    cases += ps.random_join_cases(rng, 4000 if q else 150000)
    return cases, n_model


def serve_targets(ctx: Ctx):
    q = ctx.quick
    rng = random.Random(ctx.seed + 1)
    tree_probe = ps.Tree(os.path.join(ctx.tmp, "e2e-probe"))
    special = ps.sentinel_targets(tree_probe)
    out = []
    for raw in special + ps.enum_targets(ps.SEGS, 1) + ps.enum_targets(ps.CORE_SEGS, 2):
        for api in ps.APIS:
            out.append((api, raw))
    more = ps.enum_targets(ps.CORE_SEGS, 3)[len(ps.CORE_SEGS) + len(ps.CORE_SEGS) ** 2:]
    more += ps.random_targets(rng, 1500 if q else 15000)
    if not q:
        more += ps.enum_targets(ps.SEGS, 2)
    for n, raw in enumerate(more):
        if q:
            out.append((ps.APIS[n % len(ps.APIS)], raw))
        else:
            for api in ps.APIS:
                out.append((api, raw))
    return out, tree_probe


def san_cases(ctx: Ctx):
    q = ctx.quick
    rng = random.Random(ctx.seed + 2)
    cases = []
    for v in ctx.export(AREA, "MCFilename", "MCX_san_q" if q else "MCX_san", count_states=False, timeout=3000):
        if isinstance(v, dict) and "in" in v:
            cases.append([ps.txt(v["in"]), v["out"]])
    n_model = len(cases)
    if n_model < 1000:
        raise MachineryError(f"only {n_model} filename cases exported from the model")
    if q:
        chars = ps.codepoints(0, 0x250) + ps.codepoints(0x2000, 0x2070) + ps.codepoints(0xFF00, 0xFF70) + \
            ps.codepoints(0xFE30, 0xFE70) + ps.codepoints(0xD7FE, 0xD802) + ps.codepoints(0xDFFE, 0xE001) + \
            ps.codepoints(0x2100, 0x2130) + ps.codepoints(0x2480, 0x24A0) + ps.codepoints(0x3000, 0x3004)
        cases += ps.san_context_cases(chars)
        cases += [[chr(c)] for c in range(0x250, 0x3400, 3)]
    else:
        cases += ps.san_context_cases(ps.codepoints(0, 0x3400) + ps.codepoints(0xF900, 0x10000) + ps.codepoints(0x1D000, 0x1F300))
        cases += [[chr(c)] for c in range(0x3400, 0x110000)]
    cases += [["My cool movie.mov"], ["../../../etc/passwd"], ["i contain cool \xfcml\xe4uts.txt"], [""], ["."], [".."],
              ["_._"], [" . "], ["a/../b"], ["..\\..\\x"], ["．．／etc"], ["‥/‥/x"], [".․a"],
              ["a b\tc\nd"], ["　.bashrc"], ["\xa0.profile"], ["CON"], ["aux.txt"], ["-rf"], *[[n] for n in ps.WINDOWS_DEVICE_NAMES], ["x" * 300 + "/" + "." * 20]]
    cases += ps.random_san_cases(rng, 5000 if q else 200000)
    return cases, n_model


def judge_long_names(ctx: Ctx):
    """size dimension of secure_filename: long names x which character class sits at the ends and around the usual
    length limits (255, 4096), judged with the same clauses (shape, idempotence); keys LongName..."""
    cases = ps.long_san_cases(random.Random(ctx.seed + 4), ctx.quick)
    lines = pmap(ps.san_case, cases, workers=ctx.workers, chunksize=64)
    stats = {"names": len(cases), "longest_input": max(len(c[0]) for c in cases), "output_255_or_256": 0, "output_over_255": 0,
             "longest_output": 0}
    for t, (case, ln) in enumerate(zip(cases, lines)):
        ln["t"], ln["i"] = t, 0
        n = len(ln["out"])
        stats["output_255_or_256"] += n in (255, 256)
        stats["output_over_255"] += n > 255
        stats["longest_output"] = max(stats["longest_output"], n)
        if n >= 250:
            ctx.nontrivial.add(("longname", case[0]))
        if t % 1999 == 3:
            ctx.sample({"filename_length": len(case[0]), "head": case[0][:6], "tail": case[0][-6:], "secure_filename_length": n,
                        "secure_filename_tail": ps.txt(ln["out"][-6:])})
    ctx.count(len(lines))
    stats["inputs_of_255_or_more"] = sum(len(c[0]) >= 255 for c in cases)
    if stats["inputs_of_255_or_more"] < 1000:        # (outputs are not a guard: a length limit may be legitimate)
        raise MachineryError(f"long-name driver is vacuous: {stats}")
    _judge(ctx, lines, lambda ln: ("secure_filename", {"x": ln["x"]}), "san", batch=800, prefix="LongName")
    return stats


# --------------------------------------------------------------------------- growth: loader kinds, options, argument types
def loader_targets(ctx: Ctx, tree):
    """(api, raw) for the second family of entry points: cache / mimetype / disallow options, a FILE exported as a
    'directory', package loaders on a sub directory and on the whole package, PathLike arguments, cwd-relative root"""
    rng = random.Random(ctx.seed + 3)
    raws = ps.sentinel_targets(tree) + ps.enum_targets(ps.SEGS, 1) + ps.enum_targets(ps.CORE_SEGS, 2)
    raws += ["b.txt", "deep/c.txt", "../a.txt", "../sub/b.txt", "deep/../../a.txt", "root/a.txt", "root/../secret.txt",
             "__init__.py", "rootx/secret.txt", "root/../rootx/secret.txt", "a.txt/../../secret.txt", "x", "../x",
             "%2e%2e/x", "..%2fsecret.txt", "%00", "a.txt%00", "//", "/"]
    raws += ps.random_targets(rng, 200 if ctx.quick else 6000)
    if not ctx.quick:
        raws += ps.enum_targets(ps.CORE_SEGS, 3)[len(ps.CORE_SEGS) + len(ps.CORE_SEGS) ** 2:]
    return [(api, raw) for api in ps.APIS2 for raw in raws]      # grouped by api: one tree view per group


def observations(ctx: Ctx, tree):
    """growth (a), (c), (d): what the code does outside the property's domain -- recorded, never a verdict"""
    lines = [dict(tree.line(), t="links", i=0)]
    seen = {}
    for api in ("sfd_abs", "sdm_abs", "sdm_pkg"):
        for raw in ps.LINK_TARGETS:
            ln = ps.serve_line(tree, api, raw)
            ln["op"], ln["t"], ln["i"] = "servelink", "links", len(lines)
            lines.append(ln)
            seen[f"{api} {raw}"] = f"{ln['status']} file id {ln['served']}" + (f" {ln['exc']}" if ln["exc"] else "")
    rej = ctx.judge(AREA, JUDGE, lines)
    if rej:
        raise MachineryError(f"observation lines must not produce verdicts: {rej[:3]}")
    ctx.notes["observation_symlink_inside_root_pointing_outside"] = seen
    ctx.notes["observation_bytes_arguments"] = ps.bytes_directory_probe(tree)
    from werkzeug.utils import secure_filename
    ctx.notes["observation_windows_device_names_on_posix"] = {n: secure_filename(n) for n in ps.WINDOWS_DEVICE_NAMES}


# --------------------------------------------------------------------------- reinterpretable spellings x which files exist
def reinterp_requests(ctx: Ctx, probe, only=None):
    """Double-encoded / overlong / fullwidth / backslash / home-directory spellings (after the server's single
    decoding) through every entry point, over a tree where the literal name exists inside the root ("L") and over
    one where it does not ("N"); sentinels outside the root exist in both.  Keys Reinterp...  HOME and PWD point
    at the package directory meanwhile, so that an expanding helper would reach a sentinel."""
    deep = not ctx.quick or only is not None          # a replayed case may stem from the thorough tier
    raws_n = ps.reinterp_raws(probe, deep=deep)
    lit, raws_l = ps.literal_tree(os.path.join(ctx.tmp, "e2e-literal"), deep=deep)
    apis = list(ps.APIS) + (["sdm_nocache", "sdm_pkg_all"] if not ctx.quick else [])
    # BASE x SPELLING: every base form of send_from_directory gets every home-directory spelling (quick) / every
    # spelling (thorough); HOME points at a directory that holds sentinels
    homes = set(ps.home_raws())
    stats = {}
    saved = {k: os.environ.get(k) for k in ("HOME", "PWD")}
    try:
        for name, tree, raws in (("L", lit, raws_l), ("N", probe, raws_n)):
            if only is not None and only["tree"] != name:
                continue
            os.environ["HOME"] = os.environ["PWD"] = tree.pkgdir
            if only is not None:
                raw = only["raw"].replace("{BASE}", tree.base).replace("{QBASE}", tree.base.replace("/", "%2F"))
                targets = [(only["api"], raw), (only["api"], "a.txt"), (only["api"], "nothing-here")]
            else:
                targets = [(api, raw) for api in apis for raw in raws]
                targets += [(api, raw) for api in ps.BASE_FORM_APIS for n, raw in enumerate(raws)
                            if not ctx.quick or raw in homes or n % 5 == 0]
            stats[name] = judge_serves(ctx, targets, tree, kind="reinterp", prefix="Reinterp", case_extra={"tree": name})
    finally:
        for k, v in saved.items():
            if v is None:
                os.environ.pop(k, None)
            else:
                os.environ[k] = v
    if only is None:
        n_lit = len(lit.files) - (len(ps.TREE_FILES) - 2)
        stats["literal_files_inside_root"] = n_lit
        stats["literal_names_not_creatable"] = len(lit.not_created)
        stats["spellings"] = len(raws_n)
        if n_lit < 50 or stats["L"]["200"] < 5 * stats["N"]["200"]:
            raise MachineryError(f"reinterpretation driver is vacuous (literal files are not served): {stats}")
        # the same texts handed directly to safe_join (no server in between), once and twice decoded
        texts = sorted({t for r in raws_n for t in (r, ps.unquote_to_bytes(r).decode("utf-8", "replace"),
                                                  ps.unquote_to_bytes(ps.unquote_to_bytes(r)).decode("utf-8", "replace"))})
        cases = [[b, [t]] for b in ps.BASES[:2 if ctx.quick else 4] for t in texts]
        if not ctx.quick:
            cases += [[b, ["sub", t]] for b in ps.BASES[:2] for t in texts]
        stats["safe_join_direct"] = judge_joins(ctx, cases, kind="join", prefix="Reinterp")
    return stats


# --------------------------------------------------------------------------- the repository's own tests
REPO_TEST_FILES = ["tests/test_security.py", "tests/test_utils.py", "tests/test_send_file.py",
                   "tests/middleware/test_shared_data.py", "tests/test_datastructures.py"]


def repo_test_traces(ctx: Ctx, only_test=None, kind="repotests"):
    """code -> spec from the repository's own tests: run them under harness/pytest_pathsafety_plugin.py and judge
    every recorded safe_join / secure_filename / send_from_directory / SharedDataMiddleware call."""
    import glob
    import json
    import posixpath
    import subprocess
    import sys

    from ..core import REPO, VERIF, cps

    out = os.path.join(ctx.tmp, f"repo-records-{len(ctx.model_runs)}.json")
    env = dict(os.environ, VERIF_TRACE_OUT=out, PYTHONPATH=VERIF + os.pathsep + os.path.join(REPO, "src"),
               PYTHONDONTWRITEBYTECODE="1")
    whole = not ctx.quick and only_test is None
    files = ["tests"] if whole else REPO_TEST_FILES
    cmd = [sys.executable, "-m", "pytest", "-q", "-p", "no:cacheprovider", "-p", "harness.pytest_pathsafety_plugin",
           "--no-header", "-n", str(min(ctx.workers, 8)) if whole else "0", *files]
    p = subprocess.run(cmd, cwd=REPO, env=env, capture_output=True, text=True, timeout=1800)
    parts = sorted(glob.glob(out + ".*"))
    if not parts:
        raise MachineryError("recording the repository's tests produced no trace file:\n" + (p.stdout + p.stderr)[-1500:])
    records = []
    for f in parts:
        records += json.load(open(f))
    if only_test is not None:
        records = [r for r in records if r["test"] == only_test]
    skipped, lines, meta = {}, [], []

    def skip(why):
        skipped[why] = skipped.get(why, 0) + 1

    def add(ln, rec):
        ln["t"], ln["i"] = f"repo{len(lines)}", 0
        lines.append(ln)
        meta.append(rec)

    for r in records:
        untrusted = "".join(x or "" for x in r.get("parts", [])) + (r.get("path") or "") + r.get("path_info", "")
        if any(sep and sep in untrusted for sep in r.get("altseps", [])):
            # (tests/test_security.py::test_safe_join_os_sep leaves security._os_alt_seps = "*" behind)
            skip("alternative separators configured by the test (outside POSIX semantics)")
            continue
        if r["k"] == "join":
            if r["dir"] is None or any(x is None for x in r["parts"]):
                skip("safe_join with a non-str argument")
                continue
            add({"op": "join", "dir": cps(r["dir"]), "cwd": cps(r["cwd"]), "parts": [cps(x) for x in r["parts"]],
                 "r": {"kind": r["kind"], "v": cps(r["v"]), "exc": r["exc"]},
                 "np": cps(posixpath.normpath(r["v"])) if r["kind"] == "path" else [],
                 "has_exp": False, "exp_ok": False, "exp_path": []}, r)
        elif r["k"] == "san":
            if r["x"] is None:
                skip("secure_filename with a non-str argument or result")
                continue
            add({"op": "san", "x": cps(r["x"]), "nfkd": cps(r["nfkd"]), "out": cps(r["out"]), "out2": cps(r["out2"]),
                 "exc": r["exc"], "has_exp": False, "exp": []}, r)
        else:  # sfd / sdm
            if r["k"] == "sfd" and (r["root"] is None or r["path"] is None):
                skip("send_from_directory with a bytes / non-path argument")
                continue
            opened = r["opened"]
            if any(o.startswith("\x00") for o in opened):
                skip("served object has no file name")
                continue
            if opened and r["root"] is None:
                skip("loader root unknown")
                continue
            base = {"op": "open", "api": r["api"], "root": cps(r["root"] or ""), "cwd": cps(r["cwd"]), "status": r["status"],
                    "exc": r["exc"]}
            if not opened:
                add(dict(base, file=[], opened=False), r)
            for o in opened:
                add(dict(base, file=cps(o), opened=True), r)
    ctx.notes["repo_tests"] = {"files": files, "recorded": len(records), "judged": len(lines), "skipped": skipped,
                               "pytest_exit": p.returncode, "pytest_tail": (p.stdout.strip().splitlines() or [""])[-1][:200]}
    floor = 1 if only_test is not None else 30
    if len(lines) < floor:
        raise MachineryError(f"only {len(lines)} records of the repository's tests fall inside the trace vocabulary "
                             f"(floor {floor}); recorded {len(records)}, skipped {skipped}\n" + (p.stdout + p.stderr)[-800:])
    ctx.count(len(lines))
    for r in meta:
        if r["k"] in ("sfd", "sdm") and r["opened"] or r["k"] == "join" and r["kind"] == "none":
            ctx.nontrivial.add(("repotests", r["test"], r["k"], json.dumps(r, sort_keys=True, default=str)[:300]))
    rejects = ctx.judge(AREA, JUDGE, lines, batch=3000)
    index = {ln["t"]: (ln, m) for ln, m in zip(lines, meta)}
    for rj in rejects:
        ln, m = index[rj["t"]]
        api = {"join": "safe_join", "san": "secure_filename"}.get(m["k"], m.get("api", m["k"]))
        ctx.violation(f"RepoTests{rj['clause']}:{api}", "RepoTests" + rj["clause"], {"test": m["test"], "record": m}, kind=kind)
    if p.returncode != 0 and not rejects:
        raise MachineryError("the repository's tests fail under the recording plugin although no record was rejected:\n"
                             + (p.stdout + p.stderr)[-1500:])
    return len(lines)


def run(ctx: Ctx):
    q = ctx.quick
    ctx.rule = ("case = one safe_join(base, *components) call, one request through send_from_directory / "
                "SharedDataMiddleware over the temporary tree, or one secure_filename call (+ its re-application), executed "
                "on the real code and judged by TLC; non-trivial = safe_join call that is refused or accepted with '..', "
                "'//', backslash or NUL in its components; request that is served (200) or carries '..' / a leading slash; "
                "filename that secure_filename changes")
    ctx.assumptions += [
        "POSIX path semantics (os.sep = '/', no os.altsep); Windows separators and device names are outside",
        "no symbolic links inside the served root (containment is lexical, as the property states: 'once normalised')",
        "NFKD is the Unicode database: its value is logged by the recorder and fed to the judge's transcription; the "
        "output predicates and idempotence are judged on the real return values for all of Unicode",
        "bounded model: atoms {.., ., '', /, //, \\, C:, ~, %2e%2e, NUL, a, a.b}, <= 3 atoms per component, <= 3 components, "
        "bases /s/r, r, '', /; filenames over {. _ - a SP / TAB ~ \\ NUL US} up to length 6 (7 on the small alphabet)",
    ]
    model_checks(ctx)
    # safe_join
    cases, n_model = join_cases(ctx)
    ctx.notes["join_cases_from_model"] = n_model
    seen = {"none": 0, "path": 0, "exc": 0}
    for k in range(0, len(cases), 100000):
        for key, n in judge_joins(ctx, cases[k:k + 100000]).items():
            seen[key] += n
    ctx.notes["join_outcomes"] = seen
    if ctx.notes["join_outcomes"]["path"] == 0 or ctx.notes["join_outcomes"]["none"] == 0:
        raise MachineryError(f"safe_join driver is vacuous: {ctx.notes['join_outcomes']}")
    nul = ps.nul_join_cases(q)
    ctx.notes["nul_then_dotdot_outcomes"] = dict(judge_joins(ctx, nul, prefix="NulDotDot"), cases=len(nul))
    if ctx.notes["nul_then_dotdot_outcomes"]["path"] < 100 or ctx.notes["nul_then_dotdot_outcomes"]["none"] < 100:
        raise MachineryError(f"NUL-then-dotdot driver is vacuous: {ctx.notes['nul_then_dotdot_outcomes']}")
    # end to end
    targets, probe = serve_targets(ctx)
    ctx.notes["serve_outcomes"] = judge_serves(ctx, targets, probe)
    # growth: every loader kind / option / argument type under the same containment clause (keys Loaders...)
    ctx.notes["loader_outcomes"] = judge_serves(ctx, loader_targets(ctx, probe), probe, kind="serve", prefix="Loaders")
    observations(ctx, probe)
    # reinterpretable spellings x (literal name exists inside / only the reinterpreted name exists outside)
    ctx.notes["reinterp_outcomes"] = reinterp_requests(ctx, probe)
    # secure_filename
    cases, n_model = san_cases(ctx)
    ctx.notes["filename_cases_from_model"] = n_model
    ctx.notes["filenames_changed"] = sum(judge_sans(ctx, cases[k:k + 120000]) for k in range(0, len(cases), 120000))
    ctx.notes["long_name_outcomes"] = judge_long_names(ctx)
    # the repository's own tests, recorded and judged call by call
    repo_test_traces(ctx)


def replay(ctx: Ctx, data):
    case, kind = data["case"], data.get("kind", "join")
    ctx.nontrivial.update({("replay", 0), ("replay", 1)})
    ctx.sample(case)
    if kind == "repotests":
        repo_test_traces(ctx, only_test=case["test"], kind=kind)
    elif kind == "reinterp":
        reinterp_requests(ctx, ps.Tree(os.path.join(ctx.tmp, "e2e-probe")), only=case)
    elif kind == "join":
        judge_joins(ctx, [[case["dir"], case["parts"]]], kind)
    elif kind == "san":
        judge_sans(ctx, [[ps.txt(case["x"])]], kind)
    else:
        tree = ps.Tree(os.path.join(ctx.tmp, "e2e-probe"))
        raw = case["raw"].replace("{BASE}", tree.base).replace("{QBASE}", tree.base.replace("/", "%2F"))
        # two fixed companions keep the driver's own sanity check (some 200, some 404) meaningful
        judge_serves(ctx, [(case["api"], raw), (case["api"], "a.txt"), (case["api"], "nothing-here")], tree, kind)
