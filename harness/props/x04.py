"""X04 (extension area) -- the body state machine of werkzeug.wrappers.Response and the iterables around it.

Contract = what the docstrings of src/werkzeug/wrappers/response.py, src/werkzeug/wsgi.py (ClosingIterator,
FileWrapper, wrap_file), Response.from_app / force_type and docs/wrappers.rst state; every clause in
spec/respbody/RespBody.tla (Clause) and WsgiIter.tla (CIClause, FWClause, AppClause, WrapFileClause) quotes its sentence.

1. TLC model-checks the implementation-shaped model (Step: `response` attribute as list / tuple / iterable with the
   items not yet yielded, Content-Length / ETag presence, direct_passthrough, implicit_sequence_conversion, _on_close,
   per iterable counters) against the contract on every transition of every history of <= 3 (quick) / 4 (thorough)
   accessor calls over every body kind, plus the conservation invariant ("no byte twice, none lost"); the same for
   every next/close history of a ClosingIterator, every next/close/seek/tell history of a FileWrapper and the
   from_app / force_type table.  Deliberately broken model variants must fail.
2. spec -> code: every exported transition (with a shortest path to its pre-state) is performed on a real Response /
   ClosingIterator / FileWrapper with instrumented iterables (next() / StopIteration / close() counters, event log).
3. code -> spec: seeded random histories (<= 8 calls, arbitrary chunks, all Unicode planes) on the real objects.
Every recorded execution is judged by RespBodyTrace.tla (TLC): first violated clause = verdict; any other
disagreement with the model = drift.
"""
from __future__ import annotations

import concurrent.futures as cf
import copy
import random
import re

from .. import respbody as B
from .. import tlc
from ..core import Ctx, pmap

LEVEL = "model_checking"
AREA = "respbody"

BODY_MUTANTS = ["deferred", "freeze_noclose", "getdata_reiter", "mkseq_noencode", "setdata_nolen", "call_buffers",
                "close_skips_callbacks", "closed_stream_writes"]
ITER_MUTANTS = ["ci_no_iterable_close", "fw_stops_at_short_block", "app_buffered_drops_written", "app_drops_written", "ci_reverse", "ci_single_ignored",
                "fw_no_close", "app_not_buffered", "app_never_closed"]


def _do(job):
    kind, case = job
    if kind == "hist":
        return B.run_case(copy.deepcopy(case))
    if kind == "ci":
        return B.ci_case(case)
    if kind == "fw":
        return B.fw_case(case)
    if kind == "wf":
        return B.wf_case(case)
    if kind == "app":
        return B.app_case(case)
    raise ValueError(kind)


def _key(kind, case, r):
    cl, step = r["clause"], r.get("step", 0)
    if kind == "hist":
        op = case["ops"][step - 1] if 0 < step <= len(case["ops"]) else {"o": "-", "k": ""}
        name = op["k"] if op["o"] == "copy" else op["o"]
        return "%s:%s:%s%s" % (cl, case["init"]["kind"], name, ":passthrough" if case["init"]["pt"] else "")
    if kind == "app":
        return "%s:%s:%s:%s" % (cl, case["via"], "buffered" if case["buffered"] else "unbuffered", "written" if case["nw"] else "nowrite")
    if kind == "ci":
        return "%s:%s:%s" % (cl, case["c"]["mode"], "closable" if case["c"]["hc"] else "plain")
    if kind == "fw":
        return "%s:%s" % (cl, "short-reads" if case["c"]["short"] else "full-reads")
    return "%s:%s" % (cl, "server" if case["server"] else "generic")


def _nontrivial(ctx, kind, case, ln):
    if kind == "hist":
        i = case["init"]
        ctx.nontrivial.add(("hist", i["kind"], i["pt"], min(len(i["items"]), 3),
                            tuple((h["op"]["o"], h["o"]["exc"], h["o"]["post"]["ty"]) for h in ln["hist"][:4])))
    elif kind in ("ci", "fw"):
        ctx.nontrivial.add((kind, tuple(sorted((k, str(v)) for k, v in case["c"].items() if k not in ("items", "content"))),
                            tuple((h["op"]["o"], h["o"]["exc"]) for h in ln["hist"][:5])))
    elif kind == "app":
        ctx.nontrivial.add(("app", case["via"], case["buffered"], case["hc"], min(case["nw"], 1), min(len(case["items"]), 2)))
    else:
        ctx.nontrivial.add(("wf", case["server"], case["bsgiven"] > 0))


def _corrupt(lines):
    """non-vacuity of the judge: copies of good recorded lines with one field falsified; each must be rejected"""
    out = []
    want = {"get_data": None, "call": None, "freeze": None}
    for ln in lines:
        if ln["op"] != "hist":
            continue
        for n, h in enumerate(ln["hist"]):
            o = h["op"]["o"]
            if o in want and want[o] is None and h["o"]["exc"] == "":
                bad = copy.deepcopy(ln)
                bad["hist"] = bad["hist"][: n + 1]
                b = bad["hist"][n]["o"]
                if o == "get_data" and b["ret"]["k"] == "bytes":
                    b["ret"]["by"] = b["ret"]["by"] + [33]
                elif o == "call" and b["ret"]["k"] == "chunks" and h["op"]["k"] != "HEAD":
                    b["ret"]["ch"] = b["ret"]["ch"] + [{"k": "b", "v": [33]}]
                elif o == "freeze":
                    b["post"]["cl"] = b["post"]["cl"] + 1
                else:
                    continue
                want[o] = bad
    for ln in lines:
        if ln["op"] == "fw" and any(h["o"]["ret"]["k"] == "bytes" for h in ln["hist"]):
            bad = copy.deepcopy(ln)
            n = next(k for k, h in enumerate(bad["hist"]) if h["o"]["ret"]["k"] == "bytes")
            bad["hist"] = bad["hist"][: n + 1]
            bad["hist"][n]["o"]["ret"]["by"] = []
            want["fw"] = bad
            break
    for ln in lines:
        if ln["op"] == "app" and ln["o"]["exc"] == "" and ln["c"]["via"] == "from_app":
            bad = copy.deepcopy(ln)
            bad["o"]["closes1"] += 1
            want["app"] = bad
            break
    for k, v in want.items():
        if v is not None:
            out.append((k, v))
    return out


def judge_jobs(ctx: Ctx, jobs, selftest=True):
    t0 = ctx.elapsed()
    lines = pmap(_do, jobs, workers=ctx.workers, chunksize=64)
    ctx.notes["wall_real_code_s"] = round(ctx.notes.get("wall_real_code_s", 0) + ctx.elapsed() - t0, 1)
    for t, ln in enumerate(lines):
        ln["t"], ln["i"] = t, 0
    bad = _corrupt(lines) if selftest else []
    for k, (what, ln) in enumerate(bad):
        ln["t"], ln["i"] = len(lines) + k, 0
    t0 = ctx.elapsed()
    ndrift = len(ctx.model_drift)
    rejects = ctx.judge(AREA, "RespBodyTrace", lines + [ln for _, ln in bad], batch=1500)
    ctx.notes["wall_judge_s"] = round(ctx.notes.get("wall_judge_s", 0) + ctx.elapsed() - t0, 1)
    ctx.notes["model_drift_records"] = ctx.notes.get("model_drift_records", 0) + len(ctx.model_drift) - ndrift
    if selftest:
        caught = {r["t"] - len(lines) for r in rejects if r["t"] >= len(lines)}
        ctx.notes["corrupted_lines_rejected"] = {what: (k in caught) for k, (what, _) in enumerate(bad)}
        if len(bad) < 3 or len(caught) != len(bad):
            raise tlc.MachineryError(f"judge self-test: {len(bad)} corrupted lines, rejected {sorted(caught)}")
    ctx.traces -= len(bad)
    for (kind, case), ln in zip(jobs, lines):
        ctx.count(1)
        _nontrivial(ctx, kind, case, ln)
    for r in rejects:
        if r["t"] >= len(lines):
            continue
        kind, case = jobs[r["t"]]
        ctx.violation(_key(kind, case, r), r["clause"], case, kind=kind)
    return lines


class _Tlc:
    """TLC processes side by side with the replay / judge pipeline; bookkeeping in the caller's thread (collect)"""

    def __init__(self, ctx: Ctx, runs):
        self.ctx, self.runs = ctx, runs
        nheavy = max(1, len([r for r in runs if r[3] == "check"]))
        per = max(2, ctx.workers // min(nheavy, 3))
        self.ex = cf.ThreadPoolExecutor(max_workers=max(3, ctx.workers // 2))

        def one(run):
            tag, module, cfg, mode = run
            return tlc.run_tlc(AREA, module, cfg, workers=1 if mode == "export" else per if mode == "check" else 2, tmp=ctx.tmp,
                               timeout=3000, allow_violation=(mode == "mutant"))
        order = sorted(runs, key=lambda r: {"export": 0, "check": 1, "mutant": 2}[r[3]])
        self.fut = {r[0]: self.ex.submit(one, r) for r in order}
        self.done = set()

    def collect(self, tags=None):
        ctx, out = self.ctx, {}
        for tag, module, cfg, mode in self.runs:
            if tag in self.done or (tags is not None and tag not in tags):
                continue
            try:
                r = self.fut[tag].result()
            except BaseException:
                self.ex.shutdown(wait=False, cancel_futures=True)
                raise
            self.done.add(tag)
            out[tag] = r
            if mode == "mutant":
                m = re.findall(r'\b[cv] \|-> "(\w+)"', r.stdout)
                what = r.invariant_violated if r.invariant_violated not in (None, "StepsOK", "AppOK") else (m[-1] if m else r.invariant_violated)
                ctx.notes.setdefault("broken_model_variants_rejected", {})[cfg] = what
                if not r.invariant_violated:
                    raise tlc.MachineryError(f"broken model variant {cfg} satisfies the contract: the clauses are vacuous")
                continue
            ctx.states += r.distinct
            ctx.transitions += r.generated
            ctx.model_runs.append({"spec": f"{AREA}/{module}", "cfg": cfg, "distinct": r.distinct, "generated": r.generated,
                                   "depth": r.depth, "wall_s": round(r.wall_s, 1),
                                   **({"exported": len(r.printed)} if mode == "export" else {})})
        if len(self.done) == len(self.runs):
            self.ex.shutdown()
        return out


def run(ctx: Ctx):
    q = ctx.quick
    rng = random.Random(ctx.seed)
    ctx.rule = ("case = one history of accessor calls on a real Response (a TLC-exported transition reached by a shortest "
                "path, or a seeded random history), one next/close history on a real ClosingIterator, one "
                "next/close/seek/tell history on a real FileWrapper, one wrap_file / from_app / force_type call; "
                "non-trivial = distinct (body kind, passthrough, size, first four (call, outcome, body type)) resp. "
                "distinct (case parameters, first five (call, outcome))")
    ctx.assumptions += [
        "iterables handed to the Response behave like generators: nothing is yielded after close(); close() calls of a real "
        "generator are observed as finished / not finished (gi_frame), of the instrumented iterators and files as call counts",
        "JSON bodies are claimed only where the model can classify them: digits 1-9 (that number) or digits mixed with 'x' / "
        "non-ASCII bytes (not JSON); everything else is not judged",
        "stream.tell() is claimed as the body length only when every item is bytes (str items are counted in characters by the code: drift only)",
        "Content-Length of the WSGI headers and HEAD / 1xx / 204 / 304 bodies are C05's clauses: compared with the model as drift only",
        "call_on_close functions and iterables of the harness are picklable; FreezePicklable is claimed after freeze() until the "
        "body is replaced or written to",
        "the committed model closes the iterable consumed by make_sequence() at once (fixes/X04-make-sequence-*.diff); the "
        "behaviour before that fix (close deferred to Response.close()) is accepted as non-drift",
        "quick tier replays a seeded sample of the exported Response / FileWrapper transitions, thorough all of them",
    ]
    runs = [("xbody", "MCRespBody", "MCX_body" if q else "MCX_body3", "export"),
            ("xci", "MCWsgiIter", "MCX_ci", "export"), ("xfw", "MCWsgiIter", "MCX_fw" if q else "MCX_fw4", "export"),
            ("xapp", "MCWsgiIter", "MCX_app", "export"),
            ("body", "MCRespBody", "MCQ_body" if q else "MCT_body", "check"),
            ("ci", "MCWsgiIter", "MCQ_ci", "check"), ("fw", "MCWsgiIter", "MCQ_fw" if q else "MCT_fw", "check")]
    if not q:
        runs.append(("body3", "MCRespBody", "MCT_body3", "check"))
    for v in (BODY_MUTANTS[:3] if q else BODY_MUTANTS):
        runs.append(("m_" + v, "MCRespBody", "MCB_body_" + v, "mutant"))
    for v in (ITER_MUTANTS[:3] if q else ITER_MUTANTS):
        runs.append(("m_" + v, "MCWsgiIter", "MCB_" + v, "mutant"))
    bg = _Tlc(ctx, runs)

    # 3. code -> spec (first: TLC is still exporting)
    jobs = []
    for _ in range(3000 if q else 60000):
        jobs.append(("hist", B.rand_case(rng, 8 if q else 12)))
    for _ in range(500 if q else 8000):
        jobs.append(("ci", B.rand_ci_case(rng)))
        jobs.append(("fw", B.rand_fw_case(rng)))
        jobs.append(("app", B.rand_app_case(rng)))
    jobs += [("wf", {"server": s, "bsgiven": b}) for s in (True, False) for b in (0, 1, 7, 8192, 65536)]
    lines = judge_jobs(ctx, jobs)
    samples = list(zip(jobs, lines))[:: max(1, len(lines) // 3)]

    # 2. spec -> code
    res = bg.collect({"xbody", "xci", "xfw", "xapp"})
    jobs = []
    trans = [v for v in res["xbody"].printed if isinstance(v, dict) and "pre" in v]
    cases = B.lts_paths(trans, lambda tr: tr["init"], lambda tr: tr["init"])
    ctx.notes["exported_body_transitions"] = len(trans)
    if len(cases) != len(trans) or len(cases) < 5000:
        raise tlc.MachineryError(f"body export: {len(trans)} transitions, {len(cases)} replayable paths")
    if q:
        cases = rng.sample(cases, 5000)
    jobs += [("hist", c) for c in cases]
    for tag, kind, least in (("xci", "ci", 500), ("xfw", "fw", 3000)):
        tr = [v for v in res[tag].printed if isinstance(v, dict) and "pre" in v]
        cs = B.lts_paths(tr, lambda t: t["c"], lambda t: t["c"])
        ctx.notes[f"exported_{kind}_transitions"] = len(tr)
        if len(cs) != len(tr) or len(cs) < least:
            raise tlc.MachineryError(f"{kind} export: {len(tr)} transitions, {len(cs)} replayable paths")
        if q and len(cs) > 2000:
            cs = rng.sample(cs, 2000)
        jobs += [(kind, {"c": c["init"], "ops": c["ops"]}) for c in cs]
    table = [v for v in res["xapp"].printed if isinstance(v, dict) and "c" in v and "o" in v]
    ctx.notes["exported_app_rows"] = len(table)
    if len(table) < 80:
        raise tlc.MachineryError(f"from_app table export: {len(table)} rows")
    jobs += [("app", row["c"]) for row in table]
    ctx.notes["exported_cases_replayed"] = len(jobs)
    lines = judge_jobs(ctx, jobs, selftest=False)
    samples += list(zip(jobs, lines))[:: max(1, len(lines) // 3)]
    bg.collect()
    ctx.exhaustive = True
    for (kind, case), ln in samples:
        if kind == "hist":
            ctx.sample({"init": {k: v for k, v in case["init"].items() if k != "items"},
                        "items": [B.mk_item(it) if it["k"] == "s" else bytes(it["v"]).hex() for it in case["init"]["items"]],
                        "calls": [[h["op"]["o"], h["o"]["exc"] or h["o"]["ret"]["k"], h["o"]["post"]["ty"]] for h in ln["hist"]]})
        else:
            ctx.sample({"kind": kind, "case": case if kind in ("app", "wf") else case["c"]})


def replay(ctx: Ctx, data):
    kind = data.get("kind") or "hist"
    ctx.sample(data["case"])
    ctx.nontrivial.update({("replay", 0), ("replay", 1)})
    judge_jobs(ctx, [(kind, data["case"])], selftest=False)
