"""C06 -- every HTTP header serialiser is inverted by its parser, and parsing is a normal form.

1. TLC model-checks spec/headercodec: both halves of every pair are transcribed in HeaderCodec.tla
   (quote/unquote, list, dict, options header, ETags, Range, Content-Range, Age, CSP, IMF-fixdate with
   UTC normalisation); MCHeaderCodec.tla enumerates (a) every VALUE of the documented domain up to the
   bounds and checks Parse(Dump(v)) = v, (b) every TEXT up to a length over an alphabet of the
   syntax characters (malformed input included) and checks the normal-form law
   p = Parse(s) in the dump domain => Parse(Dump(p)) = p.  Broken variants of the model must fail.
2. spec -> code: TLC exports those values / texts; each is executed on the real functions.
3. code -> spec: seeded values over the full Unicode domain for all 16 codecs (also set header,
   If-Range, Cache-Control typed properties, Authorization, WWW-Authenticate), a sweep over every code
   point < 256 and the class boundaries of the spec's predicates, and header texts built from syntax
   atoms; every case records (v, dumped, parsed, redumped, reparsed).  HeaderCodecTrace.tla (TLC)
   decides domain membership, parsed = v, reparsed = parsed, and reports drift between the real
   dump text / parse and the transcription.
4. Second layer (HeaderCodec2.tla / MCHeaderCodec2.tla): the typed property layer of Request/ResponseCacheControl
   (every sequence of property assignments; getters with their "empty" values and int conversion), base64 over
   byte sequences, Authorization Basic over UTF-8, the token68 / auth-param forms of both auth classes (str.title,
   Digest quoting rule), parse_options_header with RFC 2231 charset values and continuations, HeaderSet as a
   case-insensitively de-duplicated list; the same three bindings (TLC laws, export replay, judged real round
   trips with drift) under the codec names cachecontrol, basic, authparam, options2231.
5. Histories with aliasing (Aliasing.tla: a parser that memoises a shared mutable result violates Independent): for every
   parser of the family that returns a container (also parse_cookie and parse_accept_header) the same text is parsed
   twice, the first result is mutated (add / remove / change / clear) and the text parsed again, other texts are parsed
   and mutated in between, the value is dumped twice and mutated before a further dump; every such parse call is a
   "hist" line and must still return the value of its text (clauses HistRaised / HistIndependence).
6. Value histories: the value handed to the serialiser is built through a history of its public mutators (HeaderSet:
   add / remove / discard / update / clear / item assignment and deletion, modelled in HeaderCodec2.tla HSApply and
   checked by TLC over every history: the result is a set and parses back to itself); v is what the value's own public
   reads say (list, len, membership) and dump -> parse must return it, dump(parse(dump(v))) = dump(v).  Datetimes of every
   tzinfo kind (naive, timezone.utc, a fresh zero timezone, fixed offsets, zoneinfo UTC / London / Kolkata, hand-written
   tzinfo subclasses; with and without microseconds) go through http_date, IfRange, dump_cookie expires and the Response
   date setters: the parsed instant equals the input at one-second resolution.  Clauses VHRaised / VHRoundTrip /
   VHRedumpRaised / VHNormalForm / VHDumpStable.
7. Structure look-alikes: every string of length <= 4 over { \\ " a SP ; = , } as a value of the options, dict and list
   codecs (next to other parameters whose keys the text may name) and hand-written values made of each codec's own syntax
   ('a.txt; size=1', 'x", name="y', UNC paths, trailing backslashes, ...) for options, dict, list, set, cache-control,
   auth parameters and CSP: parse(dump(v)) = v with the same number of keys (clauses LARaised / LARoundTrip /
   LARedumpRaised / LANormalForm; drift as for rt).
"""
from __future__ import annotations

import concurrent.futures as cf
import json
import random

from .. import headercodec as hc
from .. import tlc
from ..core import Ctx, pmap
from ..tlc import MachineryError

LEVEL = "model_checking"
AREA = "headercodec"
TOKEN = set(hc.TOKEN_CHARS)


def _text(cp):
    try:
        return "".join(map(chr, cp))
    except (TypeError, ValueError):
        return repr(cp)


def _run_chunk(chunk):
    return hc.run_cases(chunk)


def judge_cases(ctx: Ctx, cases, kind="c06"):
    chunks = [cases[i:i + 400] for i in range(0, len(cases), 400)]
    recs = pmap(_run_chunk, chunks, workers=min(ctx.workers, 8), chunksize=1) if len(chunks) > 4 else [_run_chunk(c) for c in chunks]
    lines = []
    for chunk in recs:
        for r in chunk:
            r["t"], r["i"] = len(lines), 0
            lines.append(r)
    ctx.count(len(lines))
    for k, ln in enumerate(lines):
        if ln["err"] == "" and ln["op"] == "rt" and any(chr(c) not in TOKEN for c in ln["dumped"] if c >= 0):
            ctx.nontrivial.add((ln["codec"], tuple(ln["dumped"])))
        elif ln["err"] == "" and ln["op"] == "nf" and ln["redumped"]:
            ctx.nontrivial.add((ln["codec"], "nf", tuple(ln["v"])))
        if k % 4801 == 0:
            ctx.sample({"op": ln["op"], "codec": ln["codec"], "v": _text(ln["v"]) if ln["op"] == "nf" else json.dumps(ln["v"])[:200],
                        "dumped": _text(ln["dumped"]), "parsed": json.dumps(ln["parsed"])[:200], "redumped": _text(ln["redumped"])}, limit=10)
    rejects = ctx.judge(AREA, "HeaderCodecTrace", lines, batch=2500)
    for r in rejects:
        case, ln = cases[r["t"]], lines[r["t"]]
        if r["clause"] == "OutOfDomain":
            raise MachineryError(f"driver produced a value outside the judged domain: {json.dumps(case)[:400]}")
        obs = {"dumped": _text(ln["dumped"]), "parsed": ln["parsed"], "redumped": _text(ln["redumped"]), "reparsed": ln["reparsed"],
               "err": ln["err"], "err2": ln["err2"]}
        ctx.violation(f"{r['clause']}:{ln['codec']}", r["clause"], {"case": case, "observed": obs}, kind=kind)
    return lines


def _run_hist_chunk(chunk):
    return hc.run_histories(chunk)


def judge_histories(ctx: Ctx, hcases, kind="c06hist"):
    """Histories with aliasing: every parse call of a history is one "hist" line (same trace id), judged by TLC."""
    chunks = [hcases[i:i + 100] for i in range(0, len(hcases), 100)]
    recs = pmap(_run_hist_chunk, chunks, workers=min(ctx.workers, 8), chunksize=1) if len(chunks) > 4 else [_run_hist_chunk(c) for c in chunks]
    lines, t = [], 0
    for chunk in recs:
        for hl in chunk:
            for i, ln in enumerate(hl):
                ln["t"], ln["i"] = t, i
                lines.append(ln)
                if ln["hk"] in ("parse-mutate-parse", "dump-mutate-dump") and ln["err"] == "":
                    ctx.nontrivial.add(("hist", ln["codec"], ln["hk"], tuple(ln["dumped"])))
            t += 1
    ctx.count(len(lines))
    if lines:
        ln = lines[min(len(lines) - 1, 1)]
        ctx.sample({"op": "hist", "codec": ln["codec"], "step": ln["hk"], "text": _text(ln["dumped"]), "parsed": json.dumps(ln["parsed"])[:200]}, limit=12)
    at = {(ln["t"], ln["i"]): ln for ln in lines}
    for r in ctx.judge(AREA, "HeaderCodecTrace", lines, batch=2500):
        ln = at[(r["t"], r["i"])]
        case = hcases[r["t"]]
        if r["clause"] == "OutOfDomain":
            raise MachineryError(f"history driver produced a value outside the judged domain: {ln['hk']} {json.dumps(case)[:400]}")
        obs = {"step": ln["hk"], "text": _text(ln["dumped"]), "expected": ln["v"], "parsed": ln["parsed"], "err": ln["err"]}
        ctx.violation(f"{r['clause']}/{ln['hk']}:{ln['codec']}", r["clause"], {"case": case, "observed": obs}, kind=kind)
    return lines


def _run_vh_chunk(chunk):
    return hc.run_vhs(chunk)


def judge_value_histories(ctx: Ctx, vcases, kind="c06vh"):
    """Values built through a history of their public mutators (and datetimes of every tzinfo kind) before they are dumped."""
    chunks = [vcases[i:i + 200] for i in range(0, len(vcases), 200)]
    recs = pmap(_run_vh_chunk, chunks, workers=min(ctx.workers, 8), chunksize=1) if len(chunks) > 4 else [_run_vh_chunk(c) for c in chunks]
    lines, t = [], 0
    for chunk in recs:
        for vl in chunk:
            for i, ln in enumerate(vl):
                ln["t"], ln["i"] = t, i
                lines.append(ln)
                if ln["err"] == "":
                    ctx.nontrivial.add(("vh", ln["codec"], ln["hk"], tuple(ln["dumped"])))
            t += 1
    ctx.count(len(lines))
    for ln in lines[:1] + lines[-1:]:
        ctx.sample({"op": "vh", "codec": ln["codec"], "history": ln["hk"], "dumped": _text(ln["dumped"]), "parsed": json.dumps(ln["parsed"])[:200]}, limit=14)
    at = {(ln["t"], ln["i"]): ln for ln in lines}
    for r in ctx.judge(AREA, "HeaderCodecTrace", lines, batch=2500):
        ln, case = at[(r["t"], r["i"])], vcases[r["t"]]
        if r["clause"] == "OutOfDomain":
            raise MachineryError(f"value-history driver produced a value outside the judged domain: {json.dumps(case)[:500]}")
        obs = {"value": ln["v"], "dumped": _text(ln["dumped"]), "parsed": ln["parsed"], "redumped": _text(ln["redumped"]), "reparsed": ln["reparsed"],
               "err": ln["err"], "err2": ln["err2"]}
        ctx.violation(f"{r['clause']}/{ln['hk']}:{ln['codec']}", r["clause"], {"case": case, "observed": obs}, kind=kind)
    return lines


def _run_la_chunk(chunk):
    return hc.run_las(chunk)


def judge_lookalikes(ctx: Ctx, lcases, kind="c06la"):
    """Values that contain the codec's own syntax as text (deterministic enumeration + hand-written look-alikes)."""
    chunks = [lcases[i:i + 400] for i in range(0, len(lcases), 400)]
    recs = pmap(_run_la_chunk, chunks, workers=min(ctx.workers, 8), chunksize=1) if len(chunks) > 4 else [_run_la_chunk(c) for c in chunks]
    lines = []
    for chunk in recs:
        for ln in chunk:
            ln["t"], ln["i"] = len(lines), 0
            lines.append(ln)
            if ln["err"] == "":
                ctx.nontrivial.add(("la", ln["codec"], tuple(ln["dumped"])))
    ctx.count(len(lines))
    for ln in lines[2000:2001] + lines[-1:]:
        ctx.sample({"op": "la", "codec": ln["codec"], "dumped": _text(ln["dumped"]), "parsed": json.dumps(ln["parsed"])[:200]}, limit=16)
    for r in ctx.judge(AREA, "HeaderCodecTrace", lines, batch=2500):
        ln, case = lines[r["t"]], lcases[r["t"]]
        if r["clause"] == "OutOfDomain":
            raise MachineryError(f"look-alike driver produced a value outside the judged domain: {json.dumps(case)[:500]}")
        obs = {"dumped": _text(ln["dumped"]), "parsed": ln["parsed"], "redumped": _text(ln["redumped"]), "reparsed": ln["reparsed"],
               "err": ln["err"], "err2": ln["err2"]}
        ctx.violation(f"{r['clause']}:{ln['codec']}", r["clause"], {"case": case, "observed": obs}, kind=kind)
    return lines


def run(ctx: Ctx):
    q = ctx.quick
    ctx.rule = ("case = one value (rt) or one header text (nf) of one of 16 codecs (quote, quote/no-token, list, set, dict, options, etags, "
                "range, content-range, age, csp, date, if-range, cache-control, authorization, www-authenticate) executed on the real "
                "dump/to_header and parse/from_header functions twice (dump, parse, re-dump, re-parse) and judged by TLC; cases: every "
                "value / text TLC exported from the bounded model, seeded values over the Unicode domain, a sweep over all code points "
                "< 256 and the class boundaries, texts built from syntax atoms and realistic headers; non-trivial = distinct (codec, "
                "dumped text containing a character that needs quoting or a separator) or distinct text whose parse could be re-dumped")
    ctx.assumptions += [
        "str values: all Unicode scalars except CR/LF (code point sequences); option values additionally without the literal %22",
        "dict / option keys: RFC 9110 tokens without '*' (distinct; option keys lower case, as parse_options_header documents); the "
        "primary option value is non-empty, has no ';' and no surrounding white space",
        "ETags: non-empty, no '\"'; compared as strong / weak sets.  HeaderSet: compared as the item list the set iterates",
        "Range: lower-case token unit, >= 1 range, each 0 <= start < stop, start-, or suffix -n (n > 0); a multi-range list that is not "
        "ascending / non-overlapping or has anything after an open-ended range is judged too (clause RoundTrip/multi-range-order)",
        "Content-Range: token unit and is_byte_range_valid(start, stop, length); Age: whole seconds <= timedelta.max",
        "dates: second resolution, utc offsets of whole seconds in (-24h, 24h), the UTC instant within years 1000..9999; naive datetimes "
        "and plain dates mean UTC (documented); equality is equality of the instant",
        "Cache-Control (typed properties of Response/RequestCacheControl), Authorization (Basic over Unicode user/password without ':' "
        "in user; token68-like tokens; parameter schemes with >= 1 str parameter), WWW-Authenticate: laws on recorded values only "
        "(base64 and the property layer are not transcribed); email.utils is not modelled, the IMF-fixdate text is pinned by HttpDate",
        "RFC 2231 key*=charset'lang'%XX values and key*N continuations are transcribed on the parse side (options2231); "
        "dump_options_header never emits them (non-ASCII values are quoted as they are, and that pair is inverse); keys with '*' stay "
        "outside the dump domain; percent-decoded invalid UTF-8 and non-ASCII text inside a key*= value are flagged, not modelled",
        "cachecontrol: a value is a sequence of typed-property assignments on an empty ResponseCacheControl (bool properties: "
        "True/False/None; int properties: ints, True/False/None; no_cache/private: str, True/False/None) or a RequestCacheControl "
        "built from str|None items; compared by the typed view of every property and the underlying dict",
        "basic: user without ':' (password may contain ':', both may be empty), UTF-8; base64 transcribed for canonical input, "
        "binascii's lenient skipping of foreign characters is flagged, not modelled",
    ]
    # 1. model checking
    ctx.model_check(AREA, "MCHeaderCodec", "MCQ_inv", timeout=900)
    ctx.model_check(AREA, "MCHeaderCodec", "MCQ_nf", timeout=900)
    # second layer (HeaderCodec2.tla: cache-control typed properties, base64 / Basic / auth-params, RFC 2231 option values,
    # HeaderSet) and the list codec one length bound higher; small configs, run side by side
    small = [("MCHeaderCodec2", "MC2Q_inv"), ("MCHeaderCodec2", "MC2Q_nf"), ("MCHeaderCodec", "MCQ_inv_l"), ("MCHeaderCodec", "MCQ_nf_l")]
    w = max(1, ctx.workers // 4)
    with cf.ThreadPoolExecutor(max_workers=4) as ex:
        list(ex.map(lambda mc: ctx.model_check(AREA, mc[0], mc[1], timeout=900, workers=w), small))
    if not q:
        for cfg in ("MCT_inv", "MCT_inv3", "MCT_nf", "MCT_nfw", "MCT_inv_l", "MCT_nf_l"):
            ctx.model_check(AREA, "MCHeaderCodec", cfg, timeout=3000)
        for cfg in ("MC2T_inv", "MC2T_nf"):
            ctx.model_check(AREA, "MCHeaderCodec2", cfg, timeout=3000)
    ctx.exhaustive = True
    variants = (("MCHeaderCodec", "MCV_range_anyorder"), ("MCHeaderCodec", "MCV_quote_order"), ("MCHeaderCodec", "MCV_token_choice"),
                ("MCHeaderCodec", "MCV_utc_offset"), ("MCHeaderCodec2", "MC2V_b64pad"), ("MCHeaderCodec2", "MC2V_usercolon"),
                ("MCHeaderCodec2", "MC2V_digesttoken"), ("MCHeaderCodec2", "MC2V_intempty"), ("MCHeaderCodec2", "MC2V_setitem"))
    with cf.ThreadPoolExecutor(max_workers=4) as ex:
        res = list(ex.map(lambda mc: tlc.run_tlc(AREA, mc[0], mc[1], workers=1, tmp=ctx.tmp, allow_violation=True, timeout=600), variants))
    broken = {mc[1]: r.invariant_violated for mc, r in zip(variants, res)}
    ctx.notes["broken_model_variants_violate"] = broken
    if not all(broken.values()):
        raise MachineryError(f"a deliberately broken model variant passes (vacuous invariants?): {broken}")
    # 2. spec -> code
    printed = []
    for cfg in (("MCX_inv_q", "MCX_nf_q") if q else ("MCX_inv", "MCX_nf")):
        printed += ctx.export(AREA, "MCHeaderCodec", cfg, count_states=False, timeout=3000)
    cases = hc.model_cases(printed)
    printed2 = []
    for cfg in (("MC2X_inv", "MC2X_nf") if q else ("MC2XT_inv", "MC2XT_nf")):
        printed2 += ctx.export(AREA, "MCHeaderCodec2", cfg, count_states=False, timeout=3000)
    cases += hc.model_cases2(printed2)
    ctx.notes["model_cases_exported"] = len(cases)
    # 3. code -> spec
    cases += hc.sweep_cases()
    rng = random.Random(ctx.seed)
    n = 400 if q else 5000
    for codec in hc.CODECS:
        for _ in range(n):
            cases.append(hc.random_case(rng, codec))
    cases += hc.nf_cases(rng, 250 if q else 3000)
    for codec in hc.CODECS2:
        for _ in range(300 if q else n):
            cases.append(hc.random_case2(rng, codec))
    cases += hc.nf_cases2(rng, 150 if q else 3000)
    by = {}
    for c in cases:
        by[(c["op"], c["codec"])] = by.get((c["op"], c["codec"]), 0) + 1
    ctx.notes["cases_by_op_codec"] = {f"{o}:{c}": k for (o, c), k in sorted(by.items())}
    judge_cases(ctx, cases)
    # 5. histories with aliasing: parse twice / mutate the returned container and parse again / parse after other texts /
    #    dump twice / mutate the value and dump again (Aliasing.tla: a memoising parser violates Independent)
    ctx.model_check(AREA, "Aliasing", "MCA_fresh", timeout=300, workers=1)
    r = tlc.run_tlc(AREA, "Aliasing", "MCA_memo", workers=1, tmp=ctx.tmp, allow_violation=True, timeout=300)
    ctx.notes["memoising_parser_model_violates"] = r.invariant_violated
    if not r.invariant_violated:
        raise MachineryError("the memoising-parser model no longer violates Independent (vacuity)")
    hcases = []
    for codec in hc.HIST_CODECS:
        for _ in range(40 if q else 1500):
            hcases.append(hc.history_case(rng, codec))
    ctx.notes["histories"] = len(hcases)
    judge_histories(ctx, hcases)
    # 6. value histories: the value is built through its public mutators before it is dumped (HeaderSet incl. item assignment
    #    naming the current member / a case variant / another member; list, dict, options dict, ETags inputs, cache-control,
    #    CSP, Content-Range, Range, both auth classes, Accept); datetimes of every tzinfo kind through every date formatter
    vcases = []
    for codec in hc.VH_CODECS:
        for _ in range((150 if codec == "setv" else 30) if q else 2000):
            vcases.append(hc.value_history_case(rng, codec))
    vcases += hc.date_cases(rng, 100 if q else 5000)
    ctx.notes["value_histories"] = len(vcases)
    judge_value_histories(ctx, vcases)
    # 7. structure look-alikes (deterministic, both tiers): every string of length <= 4 over \\ " a SP ; = , as a value of the
    #    options / dict / list codecs next to other parameters, and hand-written values made of each codec's own syntax
    lcases = hc.lookalike_cases()
    ctx.notes["lookalike_cases"] = len(lcases)
    judge_lookalikes(ctx, lcases)


def replay(ctx: Ctx, data):
    case = data["case"]["case"]
    if case.get("op") == "la":
        ctx.sample({"replayed": json.dumps(case)[:300]})
        judge_lookalikes(ctx, [case], kind=data.get("kind", "c06la"))
        ctx.nontrivial.update({("replay", 0), ("replay", 1)})
        return
    if case.get("op") in ("vh", "vhdate"):
        ctx.sample({"replayed": json.dumps(case)[:300]})
        judge_value_histories(ctx, [case], kind=data.get("kind", "c06vh"))
        ctx.nontrivial.update({("replay", 0), ("replay", 1)})
        return
    if case.get("op") == "hist":
        ctx.sample({"replayed": json.dumps(case)[:300]})
        judge_histories(ctx, [case], kind=data.get("kind", "c06hist"))
        ctx.nontrivial.update({("replay", 0), ("replay", 1)})
        return
    ctx.sample({"replayed": json.dumps(case)[:300]})
    judge_cases(ctx, [case], kind=data.get("kind", "c06"))
    ctx.nontrivial.update({("replay", 0), ("replay", 1)})
