"""C18 -- context-local data never leaks between concurrent contexts.

1. TLC checks the contract (spec/locals/Locals.tla, bounded instance MCLocals) against the laws of
   the property statement (no leak, child snapshot, release is local, proxy resolves in the
   accessing context), and the implementation-shaped heap-of-shared-references model
   (LocalsImpl.tla: ContextVar -> reference to a dict / list, spawn copies references, mutators
   copy-on-write) against the contract for every interleaving within the bounds.  Non-vacuity:
   every `Bug` variant of the heap model (in-place mutator, proxy bound at creation, ...) must be
   refuted by TLC.
2. spec -> code: TLC exports the labelled transition system of the contract; tours that take every
   exported transition are executed on the real Local / LocalStack / LocalManager / LocalProxy
   with the contexts realised as copy_context() objects, as real threads stepped in lock-step,
   and as asyncio tasks on a hand-stepped loop.
3. code -> spec: seeded random schedules (more contexts, names, objects, deeper stacks), again in
   the three realisations.  Every step records the result and what *every* live context reads;
   LocalsTrace.tla (TLC) judges each line against the contract.
"""
from __future__ import annotations

import concurrent.futures as cf
import hashlib
import json
import random

from .. import locals as loc
from .. import tlc
from ..core import Ctx, pmap
from ..tlc import MachineryError

LEVEL = "model_checking"
AREA = "locals"
BUGS = ("setattr", "delattr", "release", "push", "pop", "release_stack", "proxy_early", "spawn_fresh",
        "release_all", "falsy_unbound", "iop_rebind", "mgr_iter", "cleanup_first", "mw_forget", "mw_counter", "cv_lookup", "set_skip_equal", "cvd_default_unbound", "gc_cleanup")
BUGS_QUICK = ("setattr", "pop", "release", "proxy_early", "falsy_unbound", "iop_rebind", "mgr_iter", "mw_counter",
              "cv_lookup", "set_skip_equal", "cvd_default_unbound", "gc_cleanup")
MUTATORS = {"set", "del", "release", "push", "pop", "release_stack", "cleanup", "proxy_mutate", "proxy_pop",
            "proxy_clear", "proxy_iadd", "proxy_isub", "proxy_ior", "proxy_imul", "mw", "release_dunder",
            "release_stack_dunder", "pop_all", "mw_enter", "mw_close", "cv_set", "cvd_set", "cvd_reset", "mw_abandon"}
RELEASE_PATHS = {"release", "release_stack", "cleanup", "release_dunder", "release_stack_dunder", "mw", "pop_all",
                 "mw_close"}


def _job(job):
    """Executed in a worker process: one behaviour in one realisation -> trace lines."""
    real, ops, made, ctor = job
    return loc.run_trace(real, ops, made=made, ctor=ctor)


def _nontrivial(ops) -> bool:
    """A behaviour in which a leak could show: a mutation after a second context exists."""
    spawned = False
    for o in ops:
        if o["op"] == "spawn":
            spawned = True
        elif spawned and o["op"] in MUTATORS:
            return True
    return False


def judge_jobs(ctx: Ctx, jobs, kind="c18"):
    """jobs: list of (realisation, ops, made, constructor variant).  Runs them on the real code,
    judges with TLC."""
    results = pmap(_job, jobs, workers=min(ctx.workers, 16), chunksize=8)
    # Recorded traces that are identical line by line (typically the three realisations of one
    # behaviour) are handed to the judge once; TLC's verdict on that text is the verdict for each
    # of them (the judge does not look at the realisation tag).
    lines, cases, seen = [], {}, {}
    executed = 0
    for (real, ops, made, ctor), tl in zip(jobs, results):
        ctx.count(len(ops))
        executed += len(tl)
        if _nontrivial(ops):
            ctx.nontrivial.add(hashlib.sha1(json.dumps(ops, sort_keys=True).encode()).hexdigest()[:16])
        # histories in which a release path ran while something was bound in the releasing context
        for prev, ln in zip(tl[1:], tl[2:]):
            if ln["op"] in RELEASE_PATHS and any(e["c"] == ln["ctx"] and (e["iter"] or e["stack"]) for e in prev["obs"]):
                ctx.nontrivial.add(("release", ln["op"], ln["k"], ln["v"], hashlib.sha1(
                    json.dumps(ops[: ln["i"] + 1], sort_keys=True).encode()).hexdigest()[:12]))
                ctx.notes["release_after_bound"] = ctx.notes.get("release_after_bound", 0) + 1
        key = hashlib.sha1(json.dumps(tl[1:] + [tl[0]["made"]], sort_keys=True).encode()).digest()
        t = seen.get(key)
        if t is None:
            t = seen[key] = len(seen)
            for ln in tl:
                ln["t"] = t
            lines.extend(tl)
            cases[t] = []
        cases[t].append((real, ops, made, ctor))
    ctx.notes["trace_lines_recorded"] = ctx.notes.get("trace_lines_recorded", 0) + executed
    ctx.notes["trace_lines_distinct_judged"] = ctx.notes.get("trace_lines_distinct_judged", 0) + len(lines)
    ndrift = len(ctx.model_drift)
    par = max(1, min(ctx.workers, 8))  # one round of parallel judge JVMs where possible
    rejects = ctx.judge(AREA, "LocalsTrace", lines, batch=min(6000, max(1500, -(-len(lines) // par))))
    if len(ctx.model_drift) > ndrift:
        # a trace outside the model's vocabulary / a context that was not observed: the harness
        # is broken, nothing may be concluded
        raise MachineryError(f"LocalsTrace reported drift (harness problem): {ctx.model_drift[ndrift:ndrift + 3]}")
    for r in rejects:
        for real, ops, made, ctor in cases[r["t"]]:
            op = ops[r["i"]]
            case = {"real": real, "made": list(made), "ctor": ctor, "ops": ops[: r["i"] + 1]}
            ctx.violation(f"{r['clause']}:{op['op']}:{real}", r["clause"], case, kind=kind)
    return lines


def _three_ways(ops, made, ctor="default"):
    return [(real, ops, made, ctor) for real in loc.REALISATIONS]


def fresh_read_jobs():
    """Reads before any write, for every constructor variant x proxy construction form x
    realisation: the root context (empty Context / fresh thread / fresh task) and the main context
    read everything, then every kind of proxy is created and read, then the release paths run on
    the still empty locals, and everything is read again."""
    jobs = []
    kinds = ["x", loc.TOP, loc.CVK, loc.FNK]
    for ctor in loc.CTORS:
        for how in (0, 1, 2):
            ops = [loc.mkop(1, "nop"), loc.mkop(1, "get", n="x"), loc.mkop(1, "iter"), loc.mkop(1, "top"),
                   loc.mkop(1, "pop"), loc.mkop(1, "del", n="x")]
            ops += [loc.mkop(1, "mkproxy", k=k, v=how) for k in kinds]
            ops += [loc.mkop(1, "nop")] + [loc.mkop(1, "proxy_read", k=k) for k in kinds]
            ops += [loc.mkop(1, "proxy_mutate", k=loc.CVK, v=1), loc.mkop(1, "proxy_iadd", k=loc.FNK, v=1),
                    loc.mkop(1, "spawn", child=2), loc.mkop(2, "nop"), loc.mkop(2, "release"),
                    loc.mkop(2, "release_stack_dunder"), loc.mkop(2, "cleanup"), loc.mkop(2, "pop_all"),
                    loc.mkop(2, "mw", v=1, k="deco"), loc.mkop(2, "nop"),
                    # ... and after the first writes the main context still sees nothing
                    loc.mkop(2, "set", n="x", b=1), loc.mkop(2, "push", b=5), loc.mkop(2, "cv_set", b=9),
                    loc.mkop(1, "nop"), loc.mkop(2, "nop")]
            jobs += _three_ways(ops, [], ctor)
    return jobs


def export_tours(ctx: Ctx, cfg, recs, rng, maxlen):
    lts = loc.LTS(recs)
    tours = lts.tours(rng, maxlen=maxlen)
    covered = sum(len(p) for p in tours)
    ctx.notes.setdefault("lts", []).append({"cfg": cfg, "states": len(lts.succ), "transitions": lts.ntrans,
                                            "tours": len(tours), "steps": covered})
    if covered < lts.ntrans:
        raise MachineryError("tours do not cover the exported transition system")
    return [(p, lts.init_made) for p in tours]


# pairs of universe objects that compare equal but are different objects (spec/locals/Locals.tla)
EQUAL_PAIRS = [(7, 13), (8, 14), (15, 16), (17, 18), (19, 20), (20, 21), (19, 21), (22, 23)]
# how the child changes the object it has just bound, through the proxy (by kind of object)
EQUAL_MUTATE = {7: ("proxy_iadd", 5), 13: ("proxy_iadd", 5), 15: ("proxy_ior", 4), 16: ("proxy_ior", 4),
                17: ("proxy_mutate", 1), 18: ("proxy_mutate", 1), 8: ("proxy_clear", 0), 14: ("proxy_clear", 0)}


def equal_rebind_jobs():
    """Deterministic histories for "equal is not identical": the parent binds a, children are
    created, a child re-binds an equal but distinct b (by attribute assignment, inside a middleware
    request's app, on the stack), changes it through the proxy and reads its identity; parent and
    sibling read; then the identical / the inherited / a different object are bound in turn.  Every
    pair of equal objects in both directions x every realisation (constructor variants rotate)."""
    m = loc.mkop
    jobs = []
    pairs = EQUAL_PAIRS + [(b, a) for a, b in EQUAL_PAIRS]
    for i, (a, b) in enumerate(pairs):
        reads = lambda c: [m(c, "get", n="x"), m(c, "proxy_read", k="x"), m(c, "top"), m(c, "proxy_read", k=loc.TOP)]
        ops = [m(1, "nop"), m(1, "set", n="x", b=a), m(1, "push", b=a), m(1, "mkproxy", k="x"),
               m(1, "mkproxy", k=loc.TOP, v=1), m(1, "mkmgr", k="none"),
               m(1, "spawn", child=2), m(1, "spawn", child=3),
               m(2, "set", n="x", b=b)] + reads(2)                      # equal, not identical
        if b in EQUAL_MUTATE:
            op, v = EQUAL_MUTATE[b]
            ops += [m(2, op, k="x", v=v)]
        ops += reads(1) + reads(3)
        ops += [m(2, "pop"), m(2, "push", b=b)] + reads(2)              # the same on the stack
        if b in EQUAL_MUTATE:
            op, v = EQUAL_MUTATE[b]
            ops += [m(2, op, k=loc.TOP, v=v)]
        ops += reads(1)
        ops += [m(2, "set", n="x", b=b),                                 # identical
                m(2, "set", n="x", b=a), m(2, "get", n="x"),             # the inherited one again
                m(2, "set", n="x", b=1), m(2, "get", n="x"),             # a different one
                m(3, "set", n="x", b=a), m(3, "del", n="x"), m(3, "set", n="x", b=b)] + reads(3)
        # ... and when the writer is the app of a middleware request (manager manages nothing)
        ops += [m(1, "spawn", child=4), m(4, "mw", n="x", b=b, v=1, k="make")] + reads(4) + reads(1)
        jobs += _three_ways(ops, [], loc.CTORS[i % len(loc.CTORS)])
    return jobs


def cv_default_jobs():
    """LocalProxy(ContextVar(.., default=obj)): bound to the default where the var was never set
    (root context, main context, a sibling), to the set value after set(), to the default again
    after reset(token); next to it the var without default, which is unbound until set."""
    m = loc.mkop
    jobs = []
    kinds = [loc.CVD, loc.CVZ, loc.CVK]
    for how in (1, 2):
        reads = lambda c: [m(c, "proxy_read", k=k) for k in kinds]
        ops = [m(1, "nop")] + [m(1, "mkproxy", k=k, v=how) for k in kinds] + [m(1, "nop")] + reads(1)
        ops += [m(1, "spawn", child=2), m(2, "cvd_set", k=loc.CVD, b=1), m(2, "cvd_set", k=loc.CVZ, b=9)] + reads(2) + reads(1)
        ops += [m(2, "spawn", child=3), m(1, "spawn", child=4)] + reads(3) + reads(4)   # 3 inherits, 4 has defaults
        ops += [m(3, "cvd_set", k=loc.CVD, b=5), m(2, "cvd_reset", k=loc.CVD)] + reads(2) + reads(3)
        ops += [m(2, "cvd_set", k=loc.CVD, b=18), m(2, "cvd_set", k=loc.CVD, b=17), m(2, "cvd_reset", k=loc.CVD)] + reads(2)
        ops += [m(2, "cvd_reset", k=loc.CVD), m(2, "cvd_reset", k=loc.CVZ), m(3, "cvd_reset", k=loc.CVD)] + reads(2) + reads(3)
        # the default object itself is shared by everybody who did not set: a change through the proxy shows everywhere
        ops += [m(4, "proxy_mutate", k=loc.CVD, v=1), m(1, "cv_set", b=2), m(1, "nop"), m(4, "nop")]
        jobs += _three_ways(ops, [], loc.CTORS[how % len(loc.CTORS)])
    return jobs


def abandon_jobs():
    """A response iterable of the manager middleware that is never closed: created in context A,
    handed to sibling B which drops the last reference and runs gc.collect().  B's (and A's) data
    must be untouched; later requests on both still release normally."""
    m = loc.mkop
    jobs = []
    for form in ("make", "deco"):
        for a, b in ((1, 2), (2, 1)):
            ops = [m(1, "nop"), m(1, "set", n="x", b=1), m(1, "push", b=2), m(1, "mkproxy", k="x"),
                   m(1, "mkproxy", k=loc.TOP), m(1, "spawn", child=2), m(1, "spawn", child=3),
                   m(2, "set", n="x", b=4), m(2, "push", b=3), m(3, "set", n="y", b=9),
                   m(a, "mw_enter", n="y", b=10, v=0, k=form),      # A's request, never closed
                   m(3, "mw_enter", n="z", b=11, v=0, k=form),      # a third one stays in flight meanwhile
                   m(b, "mw_abandon", child=a), m(b, "nop"), m(a, "nop"),
                   m(b, "mw_enter", v=0, k=form), m(a, "mw_abandon", child=b), m(a, "get", n="x"),
                   m(a, "mw_enter", n="x", b=12, v=0, k=form), m(a, "mw_close", v=1),   # the worker goes on normally
                   m(3, "mw_close", v=0), m(b, "mw", n="x", b=5, v=0, k=form), m(1, "nop"), m(2, "nop")]
            jobs += _three_ways(ops, [], loc.CTORS[(a + len(form)) % len(loc.CTORS)])
    return jobs


def refute_bugs(ctx: Ctx, bugs):
    """Non-vacuity of the TLC check: each broken variant of the heap model must violate the contract."""
    def one(b):
        return b, tlc.run_tlc(AREA, "LocalsImpl", f"MCB_{b}", workers=2, tmp=ctx.tmp, timeout=600,
                              allow_violation=True)

    out = {}
    with cf.ThreadPoolExecutor(max_workers=max(1, min(len(bugs), ctx.workers))) as ex:
        for b, r in ex.map(one, bugs):
            out[b] = r.invariant_violated
            if not r.invariant_violated:
                raise MachineryError(f"heap model variant Bug={b} is not refuted by TLC: the refinement check is vacuous")
    ctx.notes["bug_variants_refuted"] = out


def judge_selftest(ctx: Ctx):
    """The judge must accept a faithfully recorded behaviour and reject it once a single recorded
    field is corrupted (a judge that accepts everything would make the whole check vacuous)."""
    ops = [loc.mkop(1, "set", n="x", b=1), loc.mkop(1, "push", b=2), loc.mkop(1, "mkproxy", k="x"),
           loc.mkop(1, "spawn", child=2), loc.mkop(2, "set", n="x", b=2), loc.mkop(2, "pop"),
           loc.mkop(1, "proxy_mutate", k="x", v=1), loc.mkop(2, "release"),
           loc.mkop(2, "set", n="x", b=9), loc.mkop(2, "proxy_iadd", k="x", v=1),
           loc.mkop(2, "mkmgr", k="local"), loc.mkop(2, "mw", n="x", b=1, v=1, k="make")]
    good = loc.run_trace("copy_context", ops)
    variants = {"clean": None,
                "sibling-attr": lambda tl: tl[5]["obs"][0]["get"][0].__setitem__("id", 2),   # ctx 1 sees ctx 2's x
                "sibling-stack": lambda tl: tl[6]["obs"][0].__setitem__("stack", []),       # ctx 2's pop hit ctx 1
                "proxy-truthy": lambda tl: tl[8]["obs"][1]["prox"][0].__setitem__("truthy", True),
                "return": lambda tl: tl[6]["r"].__setitem__("id", 1),
                # ctx 2's x is object 2 (bound, falsy): claiming RuntimeError there must be rejected
                "falsy-bound": lambda tl: tl[5]["obs"][1]["prox"][0].__setitem__("cur", 0),
                # after `name += 1` in ctx 2 the name must still hold the proxy, for ctx 1 too
                "iop-rebind": lambda tl: tl[10]["obs"][0]["prox"][0].__setitem__("isproxy", False),
                # len() through the proxy must be the accessing context's object's
                "fwd-len": lambda tl: tl[10]["obs"][1]["prox"][0]["fw"].__setitem__(0, 2),
                # after the middleware's iterable was closed in ctx 2, x must be gone there
                "not-released": lambda tl: tl[12]["obs"][1]["get"][0].__setitem__("id", 1),
                # ... and ctx 1 must still have its x
                "release-leaks": lambda tl: tl[12]["obs"][0]["get"][0].__setitem__("id", 0)}
    lines, names = [], []
    for t, (name, f) in enumerate(variants.items()):
        tl = json.loads(json.dumps(good))
        if f:
            try:
                f(tl)
            except (IndexError, KeyError, TypeError):
                continue  # the recording has another shape (broken tree): the clean trace decides
        for ln in tl:
            ln["t"] = t
        lines += tl
        names.append(name)
    traces0 = ctx.traces
    recs = ctx.judge(AREA, "LocalsTrace", lines)
    ctx.traces = traces0  # self-test lines are not evidence about werkzeug
    rejected = {names[r["t"]]: r["clause"] for r in recs}
    ctx.notes["judge_selftest"] = rejected
    clean = [r for r in recs if names[r["t"]] == "clean"]
    if clean:
        # the faithfully recorded behaviour itself is rejected: that is a verdict about the code
        # under test (the self-test cannot be evaluated on such a tree), not a machinery failure
        r = clean[0]
        ctx.violation(f"{r['clause']}:{ops[r['i']]['op']}:copy_context", r["clause"],
                      {"real": "copy_context", "made": [], "ctor": "default", "ops": ops[: r["i"] + 1]}, kind="c18")
        return
    if set(rejected) != set(names) - {"clean"}:
        raise MachineryError(f"LocalsTrace self-test failed: {rejected}")


def run(ctx: Ctx):
    q = ctx.quick
    rng = random.Random(ctx.seed)
    ctx.rule = ("case = one operation (set/get/del/iter/release, push/pop/top/release_stack, LocalManager.cleanup, "
                "LocalManager() / (local) / (stack) / ([..]) / .locals.append, requests through make_middleware / @middleware "
                "(consumed, unconsumed, partly consumed, app raising), __release_local__, pop to empty, "
                "create proxy, read / mutate / pop() / clear() / += -= |= *= through proxy, spawn child context; stored objects: "
                "plain, __bool__-falsy, ints, strs, a tuple, a frozenset, lists, a dict) executed on the real objects inside a "
                "behaviour, followed by reading everything every live context can see, judged by TLC; behaviours: tours "
                "covering every transition of the TLC-exported contract LTS + seeded random schedules, each realised with "
                "copy_context, lock-stepped threads and hand-stepped asyncio tasks; non-trivial = distinct behaviour with a "
                "mutation after a second context exists, or a release path taken while something is bound in the releasing context")
    ctx.assumptions += [
        "interleaving granularity = one public operation (each Local/LocalStack operation is one ContextVar get/set pair on a "
        "per-context variable; preemption inside an operation is not explored)",
        "stored values are objects identified by `is` (plain objects with one field, an object with a state-dependent __bool__, "
        "the int 0, '', lists, a dict); a child's snapshot is a snapshot of the bindings (shallow), as with contextvars",
        "`name += x` on a name holding a proxy applies the operator to the object bound in the acting context, drops the result "
        "and leaves the proxy in the name (_ProxyIOp docstring); operands of the wrong type raise what Python raises for the object",
        "forwarded len/iter/[0]/in/+/hash/str/== are judged against what Python answers for the modelled object (items of a list "
        "grown through the proxy are not modelled: `7 in` accepts both answers there); `unbound == x` is not judged",
        "a release path must leave nothing of what it releases visible in the releasing context and must not touch any other; "
        "left open (both outcomes accepted): whether locals are released when the app raises inside the middleware, and a "
        "LocalManager(...) call that raises (LocalManager(bare LocalStack) raises TypeError on this tree although the annotation "
        "lists it) -- then the previous manager stays in use; results of the middleware call itself are not judged",
        "bindings are by identity: objects that compare equal (two [] / {} / set(), objects with __eq__, True / 1 / 1.0, equal "
        "strings built at run time) are different objects; binding one where an equal one is bound (or inherited) must bind it",
        "LocalProxy(ContextVar with default) is bound to the default wherever the var is not set (also after reset); "
        "an unclosed middleware response that is dropped and garbage-collected in another context releases nothing anywhere",
        "a proxy bound to a falsy object is bound: bool(proxy) = bool(object), unbound-ness is judged by RuntimeError / "
        "_get_current_object / repr, never by truthiness; None itself is not stored (LocalStack uses it for 'empty')",
        "iteration order of Local.__iter__ is not specified and not judged (items compared as a set)",
        "bounded models: <= 3 contexts, names {x,y}, 2 objects, stack depth <= 2, <= 5 (quick) / 7 (thorough) operations; "
        "plus all behaviours of any length for 3 contexts, 1 name, depth 1 (thorough)",
    ]
    phases = ctx.notes.setdefault("phase_s", {})
    t0 = ctx.elapsed()
    # 1. model checking -------------------------------------------------------------------------
    # (independent TLC runs, started side by side: most of their wall time is JVM start-up)
    w = max(2, ctx.workers // 2)
    with cf.ThreadPoolExecutor(max_workers=11) as ex:
        futs = [ex.submit(ctx.model_check, AREA, "MCLocals", "MCQ_laws", timeout=600, workers=w),
                ex.submit(ctx.model_check, AREA, "LocalsImpl", "MCQ_impl", timeout=900, workers=w),
                ex.submit(ctx.model_check, AREA, "LocalsImpl", "MCQ_iop", timeout=900, workers=w),
                ex.submit(ctx.model_check, AREA, "LocalsImpl", "MCQ_rel", timeout=900, workers=w),
                ex.submit(ctx.model_check, AREA, "LocalsImpl", "MCQ_ovl", timeout=900, workers=w),
                ex.submit(ctx.model_check, AREA, "LocalsImpl", "MCQ_kinds", timeout=900, workers=w),
                ex.submit(ctx.model_check, AREA, "LocalsImpl", "MCQ_eq", timeout=900, workers=w),
                ex.submit(ctx.model_check, AREA, "LocalsImpl", "MCQ_cvd", timeout=900, workers=w),
                ex.submit(refute_bugs, ctx, BUGS_QUICK if q else BUGS),
                ex.submit(judge_selftest, ctx)]
        for f in futs:
            f.result()
    if not q:
        ctx.model_check(AREA, "MCLocals", "MCT_laws", timeout=3000)
        ctx.model_check(AREA, "LocalsImpl", "MCT_impl", timeout=3000)
        ctx.model_check(AREA, "LocalsImpl", "MCT_impl_full", timeout=3000)
        ctx.model_check(AREA, "LocalsImpl", "MCT_impl_full2", timeout=3000)
        ctx.model_check(AREA, "LocalsImpl", "MCT_iop", timeout=3000)
        ctx.model_check(AREA, "LocalsImpl", "MCT_rel", timeout=3000)
        ctx.model_check(AREA, "LocalsImpl", "MCT_ovl", timeout=3000)
        ctx.model_check(AREA, "LocalsImpl", "MCT_eq", timeout=3000)
        ctx.model_check(AREA, "LocalsImpl", "MCT_cvd", timeout=3000)
    ctx.exhaustive = True
    phases["model_checking"] = round(ctx.elapsed() - t0, 1)
    t0 = ctx.elapsed()
    # 2. spec -> code: tours over the exported transition system ----------------------------------
    jobs = []
    cfgs = (["MCX_q", "MCX_qm", "MCX_q3", "MCX_qf", "MCX_qi", "MCX_qr", "MCX_qo", "MCX_qk", "MCX_qe"] if q
            else ["MCX_q", "MCX_qm", "MCX_q3", "MCX_qf", "MCX_qi", "MCX_qr", "MCX_qo", "MCX_qk", "MCX_qe", "MCX_t", "MCX_t3",
                  "MCX_tf", "MCX_ti", "MCX_tr", "MCX_to", "MCX_te"])
    with cf.ThreadPoolExecutor(max_workers=8) as ex:
        exported = list(ex.map(lambda c: ctx.export(AREA, "MCLocals", c, count_states=False, timeout=1200), cfgs))
    jobs += fresh_read_jobs()
    jobs += equal_rebind_jobs()
    jobs += cv_default_jobs()
    jobs += abandon_jobs()
    ntour = 0
    for cfg, recs in zip(cfgs, exported):
        for p, made in export_tours(ctx, cfg, recs, rng, maxlen=30 if q else 100):
            # every tour starts with the reads-before-any-write step; constructor variants rotate
            jobs += _three_ways([loc.mkop(1, "nop")] + p, made, loc.CTORS[ntour % len(loc.CTORS)])
            ntour += 1
    ctx.notes["tour_traces"] = len(jobs)
    phases["export_and_tours"] = round(ctx.elapsed() - t0, 1)
    t0 = ctx.elapsed()
    # 3. code -> spec: seeded random schedules -----------------------------------------------------
    nrand = 190 if q else 6000
    for i in range(nrand):
        nctx = rng.choice([2, 3, 3, 4])
        made = rng.choice([(), (), ("x",), (loc.TOP,), ("x", "y", loc.TOP)])
        ops = loc.random_ops(rng, rng.randint(8, 40 if q else 80), nctx=nctx, made=made)
        jobs += _three_ways(ops, list(made), rng.choice(loc.CTORS))
        if i < 3:
            ctx.sample({"realisations": list(loc.REALISATIONS), "made": list(made),
                        "ops": [_short(o) for o in ops[:12]], "length": len(ops)})
    ctx.notes["traces"] = len(jobs)
    chunk = 2400  # behaviours per execute+judge round (bounds memory; realisations stay adjacent)
    for i in range(0, len(jobs), chunk):
        judge_jobs(ctx, jobs[i:i + chunk])
    phases["execute_and_judge"] = round(ctx.elapsed() - t0, 1)


def _short(o):
    return {k: v for k, v in o.items() if v not in ("", 0) or k == "ctx"}


def replay(ctx: Ctx, data):
    case = data["case"]
    ops = case["ops"]
    ctx.sample({"real": case["real"], "made": case["made"], "ops": [_short(o) for o in ops]})
    judge_jobs(ctx, [(case["real"], ops, list(case["made"]), case.get("ctor", "default"))], kind=data.get("kind", "c18"))
