"""X07 -- werkzeug.routing beyond C03 / C04 / C12: WebSocket rules, redirect_to, build_only, host matching, the
adapter's other methods (allowed_methods, test, dispatch, get_host, is_endpoint_expecting, iter_rules), rule
factories / templates and converters registered on the Map.

1. TLC model-checks the implementation-shaped matcher extension (spec/routingx/RoutingXImpl.tla) against the
   declarative contract (spec/routingx/RoutingX.tla, an extension of spec/routing/Routing.tla) for every map of
   <= 2 (thorough: 3) rules of a 36-rule universe, every insertion order, setting, bind, request kind, path, method;
   six hand-broken / pre-fix variants of the model must violate the same invariant.
2. spec -> code: the model's cases are exported and replayed on real `Map` objects.
3. code -> spec: singles / ordered pairs of the universe, converter sweeps, seeded random maps (with twins of the
   other kind / method / build_only), rule factories and templates; every recorded line (match, allowed_methods,
   test, dispatch, get_host, is_endpoint_expecting, iter_rules, build, bind, factory) is judged by
   spec/routingx/RoutingXTrace.tla (TLC).  Disagreement with the implementation-shaped model is drift only.
"""
from __future__ import annotations

import concurrent.futures as cf
import itertools
import os
import random

from .. import routing as rt
from .. import routingx as rx
from ..core import Ctx

LEVEL = "model_checking"
AREA = "routingx"

QUICK_MC = ("MCXQ_ws", "MCXQ_rt", "MCXQ_host")
THOROUGH_MC = ("MCXT_ws", "MCXT_ws2", "MCXT_rt", "MCXT_host", "MCXT_mix")
VARIANTS = ("orig", "ws_slash", "rt_first", "bo_match", "host_any")
# bind ids of spec/routingx/MCRoutingX.tla (BindOf)
MODEL_BINDS = {
    1: (False, {"scheme": "http", "server": "e.o", "script": "/", "sub": ""}),
    2: (True, {"scheme": "http", "server": "h.x", "script": "/", "sub": ""}),
    3: (True, {"scheme": "http", "server": "g.x", "script": "/", "sub": ""}),
    4: (False, {"scheme": "http", "server": "e.o", "script": "/app", "sub": "h.x"}),
    5: (False, {"scheme": "http", "server": "e.o", "script": "/app/", "sub": ""}),
}


def tla_env():
    """spec/routingx EXTENDS the modules of spec/routing: put that directory on TLC's library path"""
    from ..tlc import SPEC_ROOT

    opt = "-DTLA-Library=" + os.path.join(SPEC_ROOT, "routing")
    cur = os.environ.get("JAVA_TOOL_OPTIONS", "")
    if opt not in cur:
        os.environ["JAVA_TOOL_OPTIONS"] = (cur + " " + opt).strip()


def check_universe_file():
    from ..tlc import SPEC_ROOT, MachineryError

    cur = open(os.path.join(SPEC_ROOT, AREA, "MCRoutingXU.tla")).read()
    if cur != rx.universe_tla():
        raise MachineryError("spec/routingx/MCRoutingXU.tla is not the universe of harness/routingx.py (regenerate it)")


# ---------------------------------------------------------------------------- 1. model checking  2. spec -> code
def start_tlc(ctx: Ctx, ex):
    """submit the model checks, the broken variants and the exports to the thread pool `ex`"""
    from .. import tlc

    cfgs = QUICK_MC if ctx.quick else QUICK_MC + THOROUGH_MC
    per = ctx.workers if ctx.quick else max(2, ctx.workers // 2)

    def mc(cfg):
        return ctx.model_check(AREA, "MCRoutingX", cfg, workers=per, timeout=900 if ctx.quick else 10800)

    def broken(v):
        r = tlc.run_tlc(AREA, "MCRoutingX", "MCXV_" + v, workers=2, tmp=ctx.tmp, allow_violation=True, timeout=600)
        return v, r.invariant_violated

    def export(cfg):
        return [v for v in ctx.export(AREA, "MCRoutingX", cfg, count_states=False) if isinstance(v, dict) and "idx" in v]

    xs = ("MCXX_cases", "MCXX_host") if ctx.quick else ("MCXX_cases", "MCXX_host", "MCXX_all")
    return ([ex.submit(export, c) for c in xs], [ex.submit(broken, v) for v in VARIANTS], [ex.submit(mc, c) for c in cfgs])


def finish_model_checking(ctx: Ctx, var_f, mc_f):
    from .. import tlc

    for f in mc_f:
        f.result()
    res = dict(f.result() for f in var_f)
    ctx.notes["broken_model_variants_violate"] = res
    bad = [v for v, inv in res.items() if not inv]
    if bad:
        raise tlc.MachineryError(f"broken matcher variants {bad} no longer violate ImplInExpectedX: the invariant may be vacuous")
    ctx.exhaustive = True


def model_groups(ctx: Ctx, cases):
    U = rx.universe()
    by = {}
    for v in cases:
        by.setdefault((tuple(v["idx"]), v["strict"], v["merge"], v["bind"]), []).append(
            {"op": "match", "path": "".join(map(chr, v["path"])), "method": v["meth"], "wsarg": "t" if v["ws"] else "f"})
    ctx.notes["model_cases_replayed"] = len(cases)
    groups = []
    for (idx, s, m, b), ops in sorted(by.items()):
        hm, bind = MODEL_BINDS[b]
        groups.append((rx.make_cfg([dict(U[i - 1]) for i in idx], s, m, hm, bind), ops))
    return groups


# ---------------------------------------------------------------------------- 3. code -> spec
def settings():
    return [(s, m) for s in (True, False) for m in (True, False)]


def universe_groups(ctx: Ctx, rng):
    """singles and ordered pairs of the model's universe on real maps, every operation"""
    U = rx.universe()
    plain = [i for i, r in enumerate(U) if not r["host"]]
    hosted = [i for i, r in enumerate(U) if r["host"]]
    sets = [(i,) for i in range(len(U))]
    sets += list(itertools.permutations(plain, 2)) + list(itertools.permutations(hosted, 2))
    if ctx.quick:
        keep = set(rng.sample(range(len(sets)), 60))
        sets = [p for i, p in enumerate(sets) if i in keep or len(p) == 1]
    groups = []
    toks = ["a", "b", "12", "007", "x y", "07"]
    base_paths = ["/" + t for t in toks] + ["/" + t + "/" for t in toks[:3]] + ["/a/b", "/a//", "//a", "/a/b/", "/"]
    for idxs in sets:
        rules = [dict(U[i]) for i in idxs]
        hosted_map = any(r["host"] for r in rules)
        for (s, m) in (settings() if not ctx.quick else [rng.choice(settings())]):
            if hosted_map:
                b = rng.choice([2, 3, 4])
            else:
                b = rng.choice([1, 5])
            hm, bind = MODEL_BINDS[b]
            bind = dict(bind, scheme=rng.choice(["http", "ws", "https", "wss"]))
            cfg = rx.make_cfg(rules, s, m, hm, bind)
            paths = base_paths if not ctx.quick else rng.sample(base_paths, 7)
            groups.append((cfg, rx.probe_ops(rng, cfg, paths, full=not ctx.quick, methods=("GET", "POST"))))
    return groups


def converter_groups(ctx: Ctx, rng):
    """(f): every converter configuration as the only specific rule next to a catch-all, with boundary paths"""
    V, L = rx.xvar, rt.lit
    convs = [
        V("string", "v", n=1), V("string", "v", n=2), V("string", "v", n=2, m=3), V("string", "v", n=1, m=1), V("strlen", "v", n=1),
        V("strlen", "v", n=3), V("any", "v", items=["about", "help", "foo,bar"]), V("any", "v", items=["a"]), V("uuid", "v"),
        V("int", "v"), V("int", "v", signed=True), V("int", "v", n=3), V("int", "v", lo=3, hi=12), V("int", "v", lo=5), V("int", "v", hi=0),
        V("int", "v", signed=True, hi=5), V("int", "v", n=2, lo=7), V("float", "v"), V("float", "v", signed=True),
        V("float", "v", lo=1500, hi=2500), V("float", "v", signed=True, hi=0), V("any", "v", items=["yes", "no", "maybe"], cust="bool"),
        V("any", "v", items=["yes", "no", "maybe"], cust="boolm"), V("strlen", "v", n=2, cust="code"), V("path", "v", cust="wiki"), V("path", "v", cust="wiki2"),
        V("int", "v", cust="dflt"), V("strlen", "v", n=2, cust="late"),
    ]
    texts = ["a", "ab", "abc", "abcd", "é", "about", "help", "foo,bar", "foo", "yes", "no", "maybe", "0", "3", "2", "12", "13", "5", "4", "-5", "-6",
             "-0", "007", "07", "7", "012", "0012", "1.5", "1.49", "2.5", "2.50", "2.51", "-0.5", "0.0", "1.", ".5", "1e3", rt.UUID1, rt.UUID2,
             rt.UUID1[:-1], rt.UUID1.replace("-", ""), rt.UUID1[:-1] + "g", "a/b", "a/b/c"]
    groups = []
    for c in convs:
        for shape in range(3):
            seg = dict(c)
            if shape == 1:
                seg["pre"], seg["post"] = "v", ".x"
            if c["conv"] == "path" and shape:
                continue
            segs = [L("c"), seg] if shape < 2 else [seg, L("e")]
            main = rx.xrule(segs, branch=(shape == 2 and c["conv"] != "path"))
            fallback = rx.xrule([L("c"), rx.xvar("string", "s")] if shape < 2 else [rx.xvar("string", "s"), L("e")], branch=main["branch"])
            others = rng.choice([[fallback], [fallback], [], [rx.xrule([L("c"), rx.xvar("path", "p")])]])
            rules = [main] + others
            rng.shuffle(rules)
            for i, r in enumerate(rules):
                r["endpoint"] = f"e{i + 1}"
            cfg = rx.make_cfg(rules, rng.random() < 0.7, True, False, dict(rt.DEFAULT_BIND))
            if c.get("cust") == "dflt":
                cfg["map"]["dflt"] = "int"
            if c.get("cust") == "late":
                # the rule with the late-registered converter is added to the map after it was created
                cfg["rules"] = [r for r in cfg["rules"] if r is not cfg["rules"][[x["endpoint"] for x in cfg["rules"]].index(main["endpoint"])]] \
                    + [x for x in cfg["rules"] if x["endpoint"] == main["endpoint"]]
                cfg["late"] = True
            ts = texts if not ctx.quick else rng.sample(texts, 12) + rx.extra_tokens(rules)
            if c["conv"] == "path":
                ts = ts + ["a/b", "a/b/c", "w"]
            paths = []
            for t in ts:
                mid = (seg["pre"] + t + seg["post"])
                paths.append("/c/" + mid if shape < 2 else "/" + mid + "/e" + ("/" if main["branch"] else ""))
            ops = [{"op": "match", "path": p, "method": "GET", "wsarg": "none"} for p in paths]
            ops += rx.build_ops(rng, cfg)
            groups.append((cfg, ops))
    # redirect_to sweep: the placeholder is spelled by the rule's converter (string template) / the Python value (callable)
    for c in convs:
        if c.get("cust") or c["conv"] == "path":
            continue
        for kind in ("str", "fn"):
            for target in (["t/", ("v", "v"), "/x"], ["/abs/", ("v", "v")], [("v", "v"), ".html"]):
                if ctx.quick and rng.random() < 0.6 and not (kind == "str" and c["conv"] == "int" and c["n"]):
                    continue
                main = rx.xrule([L("r"), dict(c)], rto=rx.tpl(kind, *target), methods=rng.choice([None, None, ["GET"]]))
                rules = [main] + rng.choice([[], [rx.xrule([L("r"), rx.xvar("string", "s")])]])
                rng.shuffle(rules)
                bind = dict(rt.DEFAULT_BIND, script=rng.choice(["/", "/app", "/app/"]), scheme=rng.choice(["http", "https"]))
                cfg = rx.make_cfg(rules, True, True, False, bind)
                ts = texts if not ctx.quick else rng.sample(texts, 10) + ["007", "12", "1.50", "x y"]
                groups.append((cfg, [{"op": "match", "path": "/r/" + t, "method": rng.choice(["GET", "GET", "POST"]), "wsarg": "none"} for t in ts]))
    return groups


def random_groups(ctx: Ctx, rng):
    return [rx.random_xmap(rng, ctx.quick) for _ in range(90 if ctx.quick else 3000)]


# ---------------------------------------------------------------------------- judging
def detail_of(ln):
    k = ln["op"]
    if k in ("match", "dispatch"):
        return ln["r"]["kind"]
    if k == "factory":
        return "".join(map(chr, [])) + ln["f"]["fac"]
    return k


def record(ctx: Ctx, groups, factories=(), tag="", pool=None):
    """run the operations on real maps (in the worker processes of `pool`, if given) -> (lines, meta)"""
    results = pool.map(rx.run_ops, groups, chunksize=4) if pool is not None and len(groups) > 8 else [rx.run_ops(g) for g in groups]
    lines, meta = [], {}
    for t, (g, res) in enumerate(zip(groups, results)):
        tid = f"{tag}{t}"
        for ln in res:
            ln["t"] = tid
            if ln["op"] != "cfg":
                meta[(tid, ln["i"])] = (g, ln)
                ctx.count(1)
                if ln["op"] in ("match", "dispatch") and ln["r"]["kind"] != "notfound":
                    ctx.nontrivial.add((tid, ln["op"], tuple(ln["path"]), ln["method"], ln.get("wsarg", "")))
                elif ln["op"] == "build":
                    ctx.nontrivial.add((tid, "build", ln["x"]["ep"]))
        lines.extend(res)
        if t % 97 == 0 and len(res) > 1 and res[1]["op"] == "match":
            ln = res[1]
            ctx.sample({"rules": [rx.describe(r) for r in g[0]["rules"]], "map": g[0]["map"], "bind": g[0]["bind"],
                        "path": "".join(map(chr, ln["path"])), "method": ln["method"], "wsarg": ln["wsarg"], "outcome": ln["r"]["kind"]})
    flines = [rx.run_factory(c) for c in factories]
    for j, (c, ln) in enumerate(zip(factories, flines)):
        ln.update(t=f"{tag}fac", i=j)
        meta[(ln["t"], j)] = (c, ln)
        ctx.count(1)
        ctx.nontrivial.add(("factory", tag, j))
    lines.extend(flines)
    return lines, meta


def judge_recorded(ctx: Ctx, lines, meta):
    for r in ctx.judge(AREA, "RoutingXTrace", lines, batch=1000 if ctx.quick else 2500):
        g, ln = meta[(r["t"], r["i"])]
        if ln["op"] == "factory":
            case = {"factory": list(g)}
            key = f"Factory.{r['clause']}:{g[0]}"
        else:
            cfg, ops = g
            case = {"cfg": cfg, "op": ops[ln["i"]], "rules_text": [rx.describe(x) for x in cfg["rules"]]}
            key = f"{ln['op'].capitalize()}.{r['clause']}:{detail_of(ln)}"
        ctx.violation(key, r["clause"], case, kind="x07")
    return lines


def self_test_groups():
    """small fixed maps whose recorded lines the self-test corrupts (they are also judged as they are)"""
    U = rx.universe()
    plain = dict(rt.DEFAULT_BIND)
    M = lambda *ids, **kw: rx.make_cfg([dict(U[i - 1]) for i in ids], True, True, kw.get("hm", False), kw.get("bind", plain))
    mt = lambda p: {"op": "match", "path": p, "method": "GET", "wsarg": "none"}
    return [
        (M(2), [mt("/a"), {"op": "build", "ep": "e1", "vals": {}, "ext": False, "scheme": ""}]),
        (M(9), [mt("/q"), {"op": "dispatch", "path": "/q", "method": "GET", "catch": False, "view": "ret"},
                {"op": "gethost", "none": False, "dp": "api"}]),
        (M(3), [mt("/a")]),
        (M(16), [mt("/q")]),
        (M(13), [mt("/a")]),
        (M(21, hm=True, bind=dict(plain, server="g.x")), [mt("/a")]),
    ]


def self_test(ctx: Ctx, lines, base):
    """non-vacuity of the judge: recorded lines with one corrupted field each must be rejected.
    base = index of the first self-test group among the recorded groups."""
    import copy

    from ..tlc import MachineryError

    by = {}
    for ln in lines:
        by.setdefault(ln["t"], []).append(ln)

    def grp(k):
        g = by[str(base + k)]
        return copy.deepcopy(g[0]), [copy.deepcopy(x) for x in g[1:]]

    muts = []

    def add(k, j, want, what, change):
        c, ls = grp(k)
        l = ls[j]
        if want(l):
            change(l)
            muts.append((c, l, what))

    add(0, 0, lambda l: l["r"]["kind"] == "wsm", "WebsocketMismatch recorded as NotFound", lambda l: l["r"].update(kind="notfound"))
    add(0, 1, lambda l: l["x"]["url"][:2] == [119, 115], "ws scheme of a built WebSocket URL",
        lambda l: l["x"].update(url=[104, 116, 116, 112] + l["x"]["url"][l["x"]["url"].index(58):]))
    add(1, 0, lambda l: l["r"]["kind"] == "match" and l["r"]["args"], "match argument value",
        lambda l: l["r"]["args"][0].update(v=l["r"]["args"][0]["v"] + [120]))
    add(1, 1, lambda l: l["d"]["called"], "endpoint passed to the view", lambda l: l["d"].update(cep=l["d"]["cep"] + "x"))
    add(1, 2, lambda l: True, "get_host result", lambda l: l["g"].update(res=l["g"]["res"] + [120]))
    add(2, 0, lambda l: l["r"]["kind"] == "redirect", "slash redirect URL", lambda l: l["r"].update(url=l["r"]["url"][:-1]))
    add(3, 0, lambda l: l["r"]["kind"] == "redirect", "redirect_to target", lambda l: l["r"].update(url=l["r"]["url"] + [120]))
    add(4, 0, lambda l: l["r"]["kind"] == "notfound", "build_only rule recorded as matched", lambda l: l["r"].update(kind="match", rule=1))
    add(5, 0, lambda l: l["r"]["kind"] == "notfound", "rule of another host recorded as matched", lambda l: l["r"].update(kind="match", rule=1))
    fl = [copy.deepcopy(l) for l in lines if l["op"] == "factory" and l["f"]["src"]["ws"] and l["f"]["out"]["ws"]][:1]
    for l in fl:
        l["f"]["out"]["ws"] = False
        muts.append(({"op": "cfg", "rules": [], "map": {"strict": True, "merge": True, "rd": True, "hm": False},
                      "bind": rx.enc_bind(rt.DEFAULT_BIND)}, l, "websocket flag of a copied rule"))
    out = []
    for k, (c, l, what) in enumerate(muts):
        c["t"] = l["t"] = f"selftest{k}"
        l["i"] = 0
        out += [c, l]
    ndrift = len(ctx.model_drift)
    rejected = {r["t"] for r in ctx.judge(AREA, "RoutingXTrace", out, batch=4000)}
    ctx.traces -= len(out)
    del ctx.model_drift[ndrift:]          # drift records of deliberately corrupted lines are not evidence
    missed = [what for k, (_, _, what) in enumerate(muts) if f"selftest{k}" not in rejected]
    ctx.notes["corrupted_lines_rejected"] = f"{len(muts) - len(missed)}/{len(muts)}"
    if missed or len(muts) < 6:
        raise MachineryError(f"judge self-test: corrupted fields not rejected: {missed} (of {len(muts)} corrupted lines)")


def run(ctx: Ctx):
    tla_env()
    check_universe_file()
    ctx.assumptions += [
        "contract = the quoted sentences of docs/routing.rst and of the Map / Rule / MapAdapter / converter / exception docstrings "
        "(spec/routingx/RoutingX.tla); where they name two answers (405 and WebsocketMismatch) or none (redirect-only admission) "
        "every named answer is accepted; percent-escapes of redirect targets are compared decoded",
        "outside the claimed domain (judged ok): everything outside the C03 domain, redirect targets that need RFC 3986 dot-segment / "
        "network-path / empty-segment resolution, floats beyond 6+3 digits under min / max, several variables in one host pattern, "
        "rules without host in a host_matching map are generated but simply never match",
        "build() is judged only for endpoints with exactly one rule (rule selection is C04); priority among converters is the "
        "documented class order of C03, a custom weight is exercised but not judged",
    ]
    ctx.rule = ("case = one recorded call (match with / without websocket override, allowed_methods, test, dispatch, get_host, "
                "is_endpoint_expecting, iter_rules, build, bind, factory expansion) on a real Map built from X rule records: the "
                "model's exported cases, singles / ordered pairs of the 36-rule universe, converter sweeps, seeded random maps of "
                "1..7 rules with twins of the other kind; non-trivial = distinct match / dispatch calls whose answer is not "
                "NotFound, builds and factory expansions")
    import collections

    rng = random.Random(ctx.seed + 7)
    # code -> spec recording first (fork pool), then every TLC run concurrently: model checks, broken variants, exports
    # and the judge batches of the recorded lines; the exported model cases are replayed in-process and judged last
    import multiprocessing as mp
    import time

    ph, t0 = {}, time.time()
    # the worker processes are forked before any thread exists; they serve both recordings
    pool = mp.get_context("fork").Pool(min(ctx.workers, 16))
    try:
        groups = universe_groups(ctx, rng) + converter_groups(ctx, rng) + random_groups(ctx, rng)
        st_base = len(groups)
        groups += self_test_groups()
        lines, meta = record(ctx, groups, rx.factory_cases(rng, ctx.quick), pool=pool)
        ph["record"] = round(time.time() - t0, 1)
        with cf.ThreadPoolExecutor(max_workers=5 if ctx.quick else 3) as ex:
            exp_f, var_f, mc_f = start_tlc(ctx, ex)
            jf = ex.submit(judge_recorded, ctx, lines, meta)
            cases = [v for f in exp_f for v in f.result()]
            ph["exports_done"] = round(time.time() - t0, 1)
            mgroups = model_groups(ctx, cases)
            mlines, mmeta = record(ctx, mgroups, tag="model", pool=pool)
            ph["model_replayed"] = round(time.time() - t0, 1)
            judge_recorded(ctx, mlines, mmeta)
            ph["model_judged"] = round(time.time() - t0, 1)
            jf.result()
            ph["code_judged"] = round(time.time() - t0, 1)
            finish_model_checking(ctx, var_f, mc_f)
            ph["model_checked"] = round(time.time() - t0, 1)
    finally:
        pool.terminate()
    ctx.notes["phase_end_s"] = ph
    lines += mlines
    ctx.notes["maps"] = len(groups) + len(mgroups)
    ctx.notes["model_maps"] = len(mgroups)
    ctx.notes["lines_by_op"] = dict(collections.Counter(l["op"] for l in lines))
    ctx.notes["match_outcomes"] = dict(collections.Counter(l["r"]["kind"] for l in lines if l["op"] == "match"))
    ctx.notes["drift_kinds"] = dict(collections.Counter(d.get("what") for d in ctx.model_drift))
    cfgs = [l for l in lines if l["op"] == "cfg"]
    ctx.notes["exercised"] = {
        "host_matching_maps": sum(1 for c in cfgs if c["map"]["hm"]),
        "maps_with_websocket_rules": sum(1 for c in cfgs if any(r["ws"] for r in c["rules"])),
        "maps_built_through_factories": sum(1 for g in groups if g[0].get("via")),
        "redirects_from_redirect_to_string": sum(1 for l in lines if l["op"] == "match" and l["r"]["kind"] == "redirect" and l["r"]["fnrule"] == 0
                                                 and not l["r"]["url"][-1:] == [47]),
        "redirects_from_redirect_to_callable": sum(1 for l in lines if l["op"] == "match" and l["r"]["fnrule"] > 0),
        "matches_with_websocket_override": sum(1 for l in lines if l["op"] == "match" and l["wsarg"] != "none" and l["r"]["kind"] == "match"),
        "websocket_urls_built": sum(1 for l in lines if l["op"] == "build" and l["x"]["url"][:2] == [119, 115]),
        "dispatch_view_calls": sum(1 for l in lines if l["op"] == "dispatch" and l["d"]["called"]),
    }
    self_test(ctx, lines, st_base)


def replay(ctx: Ctx, data):
    tla_env()
    case = data["case"]
    ctx.nontrivial.update({("replay", 0), ("replay", 1)})
    if "factory" in case:
        f = case["factory"]
        ctx.sample({"factory": f[0], "ctx": f[1], "options": f[2]})
        judge_recorded(ctx, *record(ctx, [], [tuple(f)]))
        return
    ctx.sample({"rules": case["rules_text"], "op": case["op"]})
    judge_recorded(ctx, *record(ctx, [(case["cfg"], [case["op"]])]))
