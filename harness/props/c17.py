"""C17 -- content negotiation picks a best-quality, most-specific offer.

1. TLC model-checks spec/accept: every header TEXT of <= N items over the family's range universe x
   q texts, every non-empty offer list of <= M: the spec's own parser returns the intended items
   (bad q ignored), and the implementation-shaped model (stable sort + first-match lookup +
   best_match loop + the three-stage language fallback) meets the declarative contract
   (highest quality, most specific range decides, ties -> specificity -> offer order, never q=0 /
   unmatched).  Broken variants of the model (no specificity tie-break, quality-first sort, the
   language fallbacks as they were before the fixes) must violate the invariants.
2. spec -> code: TLC exports the model's (header text, offers) cases with the contract's choice;
   they are executed on the real classes.
3. code -> spec: realistic headers, a language-fallback family and seeded random headers are run
   through parse_accept_header / Request.accept_* and the four classes; AcceptTrace.tla (TLC)
   parses the header text itself and judges order, every quality(offer) and best_match.
"""
from __future__ import annotations

import random

from .. import accept as ac
from .. import tlc
from ..core import Ctx, pmap
from ..tlc import MachineryError

LEVEL = "model_checking"
AREA = "accept"


def _text(cp):
    return "".join(map(chr, cp))


def judge_cases(ctx: Ctx, cases, kind="c17"):
    recs = pmap(ac.negotiate_all, [cases[i:i + 200] for i in range(0, len(cases), 200)], workers=ctx.workers, chunksize=1)
    lines = []
    for chunk in recs:
        for r in chunk:
            r["t"], r["i"] = len(lines), 0
            lines.append(r)
    ctx.count(len(lines))
    for k, (fam, api, hdr, offers) in enumerate(cases):
        if len(offers) >= 2 and ("," in hdr):
            ctx.nontrivial.add((fam, hdr, tuple(offers)))
        if k % 997 == 0:
            ln = lines[k]
            ctx.sample({"family": fam, "api": api, "header": hdr, "offers": offers, "best_match": None if ln["none"] else _text(ln["best"]),
                        "qualities": ln["quals"], "order": [[_text(o["v"]), o["q"]] for o in ln["order"]]})
    rejects = ctx.judge(AREA, "AcceptTrace", lines, batch=2500)
    for r in rejects:
        fam, api, hdr, offers = cases[r["t"]]
        ln = lines[r["t"]]
        if r["clause"] == "OutOfDomain":
            raise MachineryError(f"driver produced a case outside the judged domain: {cases[r['t']]!r}")
        case = {"fam": fam, "api": api, "hdr": hdr, "offers": list(offers),
                "observed": {"best": None if ln["none"] else _text(ln["best"]), "quals": ln["quals"],
                             "order": [[_text(o["v"]), o["q"]] for o in ln["order"]], "exc": ln["exc"]}}
        ctx.violation(f"{r['clause']}:{fam}", r["clause"], case, kind=kind)
    return lines


def export_cases(ctx: Ctx, cfgs):
    cases = []
    for cfg in cfgs:
        for v in ctx.export(AREA, "MCAccept", cfg, count_states=False, timeout=1200):
            if isinstance(v, dict) and "hdr" in v:
                cases.append((v["fam"], "class", _text(v["hdr"]), [_text(o) for o in v["offers"]]))
    return cases


def run(ctx: Ctx):
    q = ctx.quick
    ac.selfcheck()
    ctx.rule = ("case = (family, header text, offer list) executed on parse_accept_header / Request.accept_* and "
                "Accept/MIMEAccept/LanguageAccept/CharsetAccept (iteration order, quality(offer) for every offer, best_match) and "
                "judged by TLC against the spec's own parse of the header text; cases: TLC-exported model cases, realistic "
                "browser headers x offers, a language-fallback family, seeded random headers (ranges x q texts x separators x "
                "letter case); non-trivial = distinct (family, header with >= 2 items, >= 2 offers)")
    ctx.assumptions += [
        "header domain: list elements `range[;name=value]*` of token characters, optional SP/HTAB around ',' and ';', at most one q "
        "per element, no quoted strings, no white space around '=', no empty elements, q with <= 3 decimals ('-0', 'q=' empty are outside)",
        "offers: non-empty lists of valid offers (MIME: type/subtype[;params], wildcards only as a/* or */*)",
        "MIME matching: equal type/subtype and equal parameter bags, wildcards on either side (the documented MIMEAccept rule)",
        "charset aliases: the python codec registry classes utf-8 / iso8859-1 / ascii, all other names compared case-insensitively",
        "LanguageAccept: exact stage, then the ranges' primary tags, then the offers' primary tags; an offer that a range matches "
        "exactly with q=0 is never chosen by a fallback (property: 'an offer whose best range has q=0 ... is never chosen')",
    ]
    # 1. model checking
    ctx.model_check(AREA, "MCAccept", "MCQ_all", timeout=600)
    ctx.model_check(AREA, "MCAccept", "MCQ_parse1", timeout=600)
    ctx.model_check(AREA, "MCAccept", "MCQ_parse2", timeout=600)
    if not q:
        for cfg in ("MCT_i3_mime", "MCT_i3_language", "MCT_i3_charset", "MCT_i3_accept", "MCT_o3", "MCT_wide", "MCT_parse"):
            ctx.model_check(AREA, "MCAccept", cfg, timeout=3000)
    broken = {}
    for cfg in ("MCV_nospec", "MCV_qfirst", "MCV_head"):
        r = tlc.run_tlc(AREA, "MCAccept", cfg, workers=ctx.workers, tmp=ctx.tmp, allow_violation=True, timeout=600)
        broken[cfg] = r.invariant_violated
        if not r.invariant_violated:
            raise MachineryError(f"broken model variant {cfg} passes: the invariants may be vacuous")
    ctx.notes["broken_model_variants_violate"] = broken
    ctx.exhaustive = True
    # 2. spec -> code
    cases = export_cases(ctx, ["MCX_small", "MCX_pairs"] if q else ["MCX_pairs", "MCX_more"])
    ctx.notes["model_cases_exported"] = len(cases)
    # 3. code -> spec
    cases += ac.handmade_cases()
    rng = random.Random(ctx.seed)
    for _ in range(5000 if q else 150000):
        cases.append(ac.random_case(rng, rng.choice(ac.FAMS)))
    ctx.notes["cases_by_family"] = {f: sum(1 for c in cases if c[0] == f) for f in ac.FAMS}
    judge_cases(ctx, cases)


def replay(ctx: Ctx, data):
    c = data["case"]
    ac.selfcheck()
    case = (c["fam"], c["api"], c["hdr"], list(c["offers"]))
    ctx.sample(c)
    judge_cases(ctx, [case], kind=data.get("kind", "c17"))
    ctx.nontrivial.update({("replay", 0), ("replay", 1)})
