"""C17 -- content negotiation picks a best-quality, most-specific offer.

1. TLC model-checks spec/accept: every header TEXT of <= N items over the family's range universe x
   q texts, every non-empty offer list of <= M: the spec's own parser returns the intended items
   (bad q ignored), and the implementation-shaped model (stable sort + first-match lookup +
   best_match loop + the three-stage language fallback) meets the declarative contract
   (highest quality, most specific range decides, ties -> specificity -> offer order, never q=0 /
   unmatched).  Broken variants of the model (no specificity tie-break, quality-first sort, the
   language fallbacks as they were before the fixes) must violate the invariants.
2. spec -> code: TLC exports the model's (header text, offers) cases with the contract's choice;
   they are executed on the real classes.
3. code -> spec: realistic headers, a language-fallback family and seeded random headers are run
   through parse_accept_header / Request.accept_* and the four classes; AcceptTrace.tla (TLC)
   parses the header text itself and judges order, every quality(offer) and best_match.
4. growth: AcceptWide.tla widens the judge's parser to quoted-string parameter values, OWS, empty elements
   and the undecided q / parameter forms (every treatment accepted; MCWide.tla model-checks the parser),
   the codings family (Accept-Encoding, identity / '*'), LanguageAccept / CharsetAccept with separators,
   letter case and aliases varied on both sides, lookups / MIME helpers / to_header round trip (drift only),
   and the Accept calls of the repository's own tests recorded by harness/pytest_accept_plugin.py.
   Keys of these parts start with Wide.., Coding.., RepoTests...
"""
from __future__ import annotations

import random

from .. import accept as ac
from .. import tlc
from ..core import Ctx, pmap
from ..tlc import MachineryError

LEVEL = "model_checking"
AREA = "accept"


def _text(cp):
    return "".join(map(chr, cp))


def judge_cases(ctx: Ctx, cases, kind="c17"):
    recs = pmap(ac.negotiate_all, [cases[i:i + 200] for i in range(0, len(cases), 200)], workers=ctx.workers, chunksize=1)
    lines = []
    for chunk in recs:
        for r in chunk:
            r["t"], r["i"] = len(lines), 0
            lines.append(r)
    ctx.count(len(lines))
    for k, (fam, api, hdr, offers) in enumerate(cases):
        if len(offers) >= 2 and ("," in hdr):
            ctx.nontrivial.add((fam, hdr, tuple(offers)))
        if k % 997 == 0:
            ln = lines[k]
            ctx.sample({"family": fam, "api": api, "header": hdr, "offers": offers, "best_match": None if ln["none"] else _text(ln["best"]),
                        "qualities": ln["quals"], "order": [[_text(o["v"]), o["q"]] for o in ln["order"]]})
    rejects = ctx.judge(AREA, "AcceptTrace", lines, batch=2500)
    for r in rejects:
        fam, api, hdr, offers = cases[r["t"]]
        ln = lines[r["t"]]
        if r["clause"] == "OutOfDomain":
            raise MachineryError(f"driver produced a case outside the judged domain: {cases[r['t']]!r}")
        case = {"fam": fam, "api": api, "hdr": hdr, "offers": list(offers),
                "observed": {"best": None if ln["none"] else _text(ln["best"]), "quals": ln["quals"],
                             "order": [[_text(o["v"]), o["q"]] for o in ln["order"]], "exc": ln["exc"]}}
        ctx.violation(f"{r['clause']}:{fam}", r["clause"], case, kind=kind)
    return lines


def export_cases(ctx: Ctx, cfgs):
    cases = []
    for cfg in cfgs:
        for v in ctx.export(AREA, "MCAccept", cfg, count_states=False, timeout=1200):
            if isinstance(v, dict) and "hdr" in v:
                cases.append((v["fam"], "class", _text(v["hdr"]), [_text(o) for o in v["offers"]]))
    return cases


def run(ctx: Ctx):
    q = ctx.quick
    ac.selfcheck()
    ctx.rule = ("case = (family, header text, offer list) executed on parse_accept_header / Request.accept_* and "
                "Accept/MIMEAccept/LanguageAccept/CharsetAccept (iteration order, quality(offer) for every offer, best_match) and "
                "judged by TLC against the spec's own parse of the header text; cases: TLC-exported model cases, realistic "
                "browser headers x offers, a language-fallback family, seeded random headers (ranges x q texts x separators x "
                "letter case); non-trivial = distinct (family, header with >= 2 items, >= 2 offers)")
    ctx.assumptions += [
        "header domain: list elements `range[;name=value]*` of token characters, optional SP/HTAB around ',' and ';', at most one q "
        "per element, no quoted strings, no white space around '=', no empty elements, q with <= 3 decimals ('-0', 'q=' empty are outside)",
        "offers: non-empty lists of valid offers (MIME: type/subtype[;params], wildcards only as a/* or */*)",
        "MIME matching: equal type/subtype and equal parameter bags, wildcards on either side (the documented MIMEAccept rule)",
        "charset aliases: the python codec registry classes utf-8 / iso8859-1 / ascii, all other names compared case-insensitively",
        "wider domain (AcceptWide.tla): quoted-string parameter values, OWS around ',' ';', empty elements / segments, Q=; undecided forms "
        "(q '1.', > 3 decimals, leading zeros, '-0', duplicate q, white space around '=', 'q=' empty, quoted q, parameters after q) are "
        "accepted under every treatment (drift only); backslash escapes and duplicate non-q parameter names are outside",
        "LanguageAccept: exact stage, then the ranges' primary tags, then the offers' primary tags; an offer that a range matches "
        "exactly with q=0 is never chosen by a fallback (property: 'an offer whose best range has q=0 ... is never chosen')",
    ]
    # 1. model checking
    ctx.model_check(AREA, "MCAccept", "MCQ_all", timeout=600)
    ctx.model_check(AREA, "MCAccept", "MCQ_parse1", timeout=600)
    ctx.model_check(AREA, "MCAccept", "MCQ_parse2", timeout=600)
    if not q:
        for cfg in ("MCT_i3_mime", "MCT_i3_language", "MCT_i3_charset", "MCT_i3_accept", "MCT_o3", "MCT_wide", "MCT_parse"):
            ctx.model_check(AREA, "MCAccept", cfg, timeout=3000)
    broken = {}
    for cfg in ("MCV_nospec", "MCV_qfirst", "MCV_head"):
        r = tlc.run_tlc(AREA, "MCAccept", cfg, workers=ctx.workers, tmp=ctx.tmp, allow_violation=True, timeout=600)
        broken[cfg] = r.invariant_violated
        if not r.invariant_violated:
            raise MachineryError(f"broken model variant {cfg} passes: the invariants may be vacuous")
    ctx.notes["broken_model_variants_violate"] = broken
    ctx.exhaustive = True
    # 2. spec -> code
    cases = export_cases(ctx, ["MCX_small", "MCX_pairs"] if q else ["MCX_pairs", "MCX_more"])
    ctx.notes["model_cases_exported"] = len(cases)
    # 3. code -> spec
    cases += ac.handmade_cases()
    rng = random.Random(ctx.seed)
    for _ in range(5000 if q else 150000):
        cases.append(ac.random_case(rng, rng.choice(ac.FAMS)))
    cases += ac.both_sides_cases(random.Random(ctx.seed + 3), 1200 if q else 40000)
    ctx.notes["cases_by_family"] = {f: sum(1 for c in cases if c[0] == f) for f in ac.FAMS}
    judge_cases(ctx, cases)
    # 4. growth: wider header domain (quoted strings, OWS, empty elements, undecided q forms), codings,
    #    lookups / helpers / to_header round trip (drift), the repository's own tests
    ctx.model_check(AREA, "MCWide", "MCQ_wide", timeout=600)
    ctx.model_check(AREA, "MCWide", "MCQ_wide2", timeout=600)
    if not q:
        ctx.model_check(AREA, "MCWide", "MCT_wide2", timeout=3000)
    ctx.notes["wide_forms"] = judge_wide(ctx, wide_cases(ctx))
    repo_tests(ctx)


def judge_wide(ctx: Ctx, cases, kind="c17w"):
    """cases: (fam, api, hdr, offers, prefix, tags) -> AcceptWideTrace.tla (wider header domain, codings)."""
    recs = pmap(ac.negotiate_wide_all, [cases[i:i + 100] for i in range(0, len(cases), 100)], workers=ctx.workers, chunksize=1)
    lines = [r for chunk in recs for r in chunk]
    for t, ln in enumerate(lines):
        ln["t"], ln["i"] = t, 0
    ctx.count(len(lines))
    tags = {}
    for k, c in enumerate(cases):
        for tg in c[5]:
            tags[tg] = tags.get(tg, 0) + 1
        if c[5] or c[4] == "Coding":
            ctx.nontrivial.add((c[0], c[2], tuple(c[3])))
        if k % 499 == 1:
            ln = lines[k]
            ctx.sample({"family": c[0], "api": c[1], "header": c[2], "offers": c[3], "forms": c[5],
                        "best_match": None if ln["none"] else _text(ln["best"]), "order": [[_text(o["v"]), o["q"]] for o in ln["order"]]})
    for r in ctx.judge(AREA, "AcceptWideTrace", lines, batch=600):
        c, ln = cases[r["t"]], lines[r["t"]]
        if r["clause"] == "OutOfDomain" and ln["rt"]:
            # the judged text is the code's own to_header() output: outside the domain -> skipped and counted
            tags["roundtrip text outside the domain (skipped)"] = tags.get("roundtrip text outside the domain (skipped)", 0) + 1
            continue
        if r["clause"] == "OutOfDomain":
            raise MachineryError(f"driver produced a case outside the wide domain: {c!r}")
        case = {"fam": c[0], "api": c[1], "hdr": c[2], "offers": list(c[3]), "pre": c[4], "forms": list(c[5]),
                "observed": {"best": None if ln["none"] else _text(ln["best"]), "quals": ln["quals"],
                             "order": [[_text(o["v"]), o["q"]] for o in ln["order"]], "exc": ln["exc"]}}
        ctx.violation(f"{c[4]}{r['clause']}:{c[0]}", c[4] + r["clause"], case, kind=kind)
    return tags


def wide_cases(ctx: Ctx):
    rng = random.Random(ctx.seed + 17)
    cases = [(f, api, h, o, "Wide", ["fixed"]) for f, h, o in ac.WIDE_FIXED for api in ("class", "request", "roundtrip")]
    for _ in range(1500 if ctx.quick else 60000):
        cases.append(ac.random_wide_case(rng, rng.choice(ac.FAMS)))
    cases += ac.coding_cases(rng, 300 if ctx.quick else 20000)
    return cases


REPO_TEST_FILES = ("tests/test_http.py", "tests/test_datastructures.py", "tests/test_wrappers.py")


def repo_tests(ctx: Ctx, min_calls=40):
    """Record the Accept calls of the repository's own tests (harness/pytest_accept_plugin.py, test process
    only) and judge them with AcceptWideTrace.tla; what is outside the judged domain is skipped and counted."""
    import json
    import os
    import subprocess
    import sys

    from ..core import REPO, VERIF

    out = os.path.join(ctx.tmp, "repo-accept-calls.json")
    env = dict(os.environ, VERIF_TRACE_OUT=out, PYTHONPATH=VERIF + os.pathsep + os.path.join(REPO, "src"), PYTHONDONTWRITEBYTECODE="1")
    p = subprocess.run([sys.executable, "-m", "pytest", "-q", "-p", "no:cacheprovider", "-p", "harness.pytest_accept_plugin",
                        "--no-header", "-n", "0", *REPO_TEST_FILES], cwd=REPO, env=env, capture_output=True, text=True, timeout=900)
    if not os.path.exists(out):
        raise MachineryError("recording the repository's tests produced no trace file:\n" + (p.stdout + p.stderr)[-1500:])
    data = json.load(open(out))
    lines = data["lines"]
    for t, ln in enumerate(lines):
        ln["t"], ln["i"] = t, 0
    skipped = dict(data["skipped"])
    judged = len(lines)
    for r in ctx.judge(AREA, "AcceptWideTrace", lines, batch=600):
        ln = lines[r["t"]]
        if r["clause"] == "OutOfDomain":
            skipped["outside the judged domain"] = skipped.get("outside the judged domain", 0) + 1
            judged -= 1
            continue
        case = {"fam": ln["fam"], "api": ln["api"], "test": ln.get("test", ""), "line": ln}
        ctx.violation(f"RepoTests{r['clause']}:{ln['fam']}", "RepoTests" + r["clause"], case, kind="c17repo")
    ctx.count(judged)
    ctx.notes["repo_tests"] = {"files": list(REPO_TEST_FILES), "calls_recorded": len(lines), "calls_judged": judged,
                               "skipped_by_reason": skipped, "pytest_tail": (p.stdout + p.stderr).strip().splitlines()[-1:]}
    if judged < min_calls:
        raise MachineryError(f"only {judged} Accept calls of the repository's tests were judged: {ctx.notes['repo_tests']}")


def replay(ctx: Ctx, data):
    c = data["case"]
    ac.selfcheck()
    if data.get("kind") == "c17w":
        ctx.sample(c)
        judge_wide(ctx, [(c["fam"], c["api"], c["hdr"], list(c["offers"]), c["pre"], c.get("forms", []))])
        ctx.nontrivial.update({("replay", 0), ("replay", 1)})
        return
    if data.get("kind") == "c17repo":
        ctx.sample({k: v for k, v in c.items() if k != "line"})
        ln = dict(c["line"], t=0, i=0)
        for r in ctx.judge(AREA, "AcceptWideTrace", [ln]):
            if r["clause"] != "OutOfDomain":
                ctx.violation(f"RepoTests{r['clause']}:{ln['fam']}", "RepoTests" + r["clause"], c, kind="c17repo")
        ctx.count(1)
        ctx.nontrivial.update({("replay", 0), ("replay", 1)})
        return
    case = (c["fam"], c["api"], c["hdr"], list(c["offers"]))
    ctx.sample(c)
    judge_cases(ctx, [case], kind=data.get("kind", "c17"))
    ctx.nontrivial.update({("replay", 0), ("replay", 1)})
