"""C04 -- URL building and matching are mutually inverse.

spec/routing/RoutingBuild.tla holds the contract (converter value domains, Deliver = what a server
hands to the router for a URL, the round-trip / converse relations) and the model (ToUrl / Parse per
converter, BuildUrl with rule selection, defaults, query encoding, script root, subdomain / host,
force_external; MatchM for maps with distinct literal first segments).  TLC checks on MCBuild that the
model satisfies the laws for every rule shape x converter x value over representative code points x
binding, and that the two pre-fix variants (path converter stopping at LF, any-converter emitting its
item raw) violate them.  Spec -> code: the model's cases are exported and executed on the real
Map / MapAdapter.  Code -> spec: seeded random maps / values / bindings and a code point sweep are
executed (build, deliver, match on the same adapter and through bind_to_environ, Request.args, rebuild,
and match / build / rematch on mutated neighbours of the delivered path); every recorded line is
judged by RoutingBuildTrace.tla.
"""
from __future__ import annotations

from .. import tlc
from ..core import Ctx, pmap
from ..routing_build import alias_cases, concurrent_cases, edge_cases, run_concurrent, gen_case, run_case, run_history, sweep_cases, txt

LEVEL = "model_checking"
AREA = "routing"

BOUNDARY_POINTS = sorted(set(
    list(range(0, 0x30)) + list(range(0x39, 0x42)) + list(range(0x5A, 0x62)) + list(range(0x7A, 0x100))
    + [0x100, 0x7FF, 0x800, 0xD7FF, 0xE000, 0xFFFD, 0xFFFF, 0x10000, 0x10FFFF, 0x2028, 0x2029, 0x85, 0x1C, 0x1D, 0x1E, 0x130, 0xDF]))


def _run(job):
    kind, arg = job
    case = gen_case(arg) if kind == "rand" else arg
    try:
        if case.get("concurrent"):
            return run_concurrent(case)
        return run_history(case) if case.get("hist_mode") else run_case(case)
    except Exception as e:  # noqa: BLE001  -- construction problems of the harness itself are machinery
        return [{"op": "harness_error", "err": f"{type(e).__name__}: {e}", "case": case}]


def _key(ln, clause):
    if ln["op"] == "rt":
        kinds = sorted({s["conv"]["k"] for r in ln["map"]["rules"] if r["ep"] == ln["ep"] for s in r["segs"] if s["k"] == "var"})
        return f"{clause}:rt:{'+'.join(kinds) or 'static'}"
    kinds = sorted({s["conv"]["k"] for r in ln["map"]["rules"] for s in r["segs"] if s["k"] == "var"})
    return f"{clause}:conv:{'+'.join(kinds) or 'static'}"


def _nontrivial(ln):
    if ln["op"] != "rt" or not ln["url"]:
        return None
    u = txt(ln["url"])
    if "%" in u or "?" in u or u.startswith("http") or any(r["defaults"] for r in ln["map"]["rules"]):
        return u + "|" + str(len(ln["map"]["rules"]))
    return None


def _judge(ctx: Ctx, jobs, results):
    lines, origin = [], {}
    for t, (job, out) in enumerate(zip(jobs, results)):
        for i, ln in enumerate(out):
            if ln["op"] == "harness_error":
                raise tlc.MachineryError(f"C04 harness failed on a case: {ln['err']} {str(ln['case'])[:400]}")
            ln["t"], ln["i"] = t, i
            lines.append(ln)
            origin[(t, i)] = job
            ctx.count(1, _nontrivial(ln))
        if t % 997 == 0 and out and out[0]["op"] == "rt":
            o = out[0]
            ctx.sample({"rules": [str(len(r["segs"])) + " segs" for r in o["map"]["rules"]], "url": txt(o["url"]), "delivered_path": txt(o["dpath"]),
                        "matched": o["e"]["kind"], "rebuilt": txt(o["rebuilt"])})
    by = {(ln["t"], ln["i"]): ln for ln in lines}
    for r in ctx.judge(AREA, "RoutingBuildTrace", lines, batch=1500):
        ln = by[(r["t"], r["i"])]
        job = origin[(r["t"], r["i"])]
        if r["clause"] == "HarnessDeliver":
            raise tlc.MachineryError(f"C04 recorder delivered a URL differently from Deliver: {txt(ln.get('url', ln.get('rebuilt', [])))!r}")
        case = {"job": [job[0], job[1]], "i": r["i"], "url": txt(ln.get("url", [])) or txt(ln.get("path", []))}
        ctx.violation(_key(ln, r["clause"]), r["clause"], case, kind="c04")
    return lines


def _apalache_update(ctx: Ctx):
    # unbounded in the length of behaviours: an inductive invariant of the code's variant, discharged by Apalache for 6 threads
    obligations = (("Init", "IndInv", 0, "NoError"), ("IndInit", "IndInv", 1, "NoError"), ("IndInit", "Safety", 0, "NoError"),
                   ("TypeInit", "Safety", 0, "Error"))      # the last one must fail: Safety does not follow from typing alone
    res = {f"{i}=>{v}@{n}": tlc.run_apalache(AREA, "ApaUpdate", init=i, inv=v, length=n, tmp=ctx.tmp) for i, v, n, _ in obligations}
    ctx.notes["apalache_update_protocol_inductive_invariant"] = res
    if "unavailable" not in res.values():
        for (i, v, n, want) in obligations:
            if res[f"{i}=>{v}@{n}"] != want:
                raise tlc.MachineryError(f"ApaUpdate: obligation {i} => {v} (length {n}) gave {res[f'{i}=>{v}@{n}']}, expected {want}")


def run(ctx: Ctx):
    q = ctx.quick
    ctx.rule = ("case = (map of 1-5 rules with pairwise distinct literal first segment per domain part, built from literals that need quoting, "
                "all converter kinds with their options, prefix/suffix literals around a variable, defaults pairs, groups of three rules of one endpoint "
                "sharing two arguments with 2 / 1 / 0 defaults in all six declaration orders (each argument absent / default / other), "
                "growth cases (variables in the subdomain / host part incl. host:<int:port> and two variables in one domain part, bound on and off the target domain; "
                "2-3 variables in one path segment with literal separators; int / float min / max, string maxlength, dotted and double-slash path values; "
                "sort_parameters / sort_key, append_unknown=False, list and None extras; defaults for a rule's own placeholders -- int-typed default of a float, "
                "short default under fixed_digits, signed, texts that need quoting, defaults in subdomain / host placeholders -- built without the value, "
                "with it equal to the default and with another value next to a sibling rule; Map(default_subdomain) x rule subdomain None / '' / explicit x "
                "bind(subdomain=None / '' / other / the default) and the subdomain bind_to_environ derives), Submount / Subdomain factories, "
                "subdomain or host matching; binding with script root / subdomain / scheme; endpoint, values in the converters' domains, extra "
                "query values, force_external); executed as build -> deliver -> match (same adapter and bind_to_environ) -> Request.args -> rebuild, "
                "then match / build / rematch on mutated neighbours of the delivered path; plus TLC-exported model cases, a code point sweep and a fixed "
                "enumeration of boundary values (texts ending / starting with LF, CR, space, '.', '%', '%0A', '+', '?', '#'; numbers 0, -0, min / max, "
                "fixed_digits padding, huge ints, 16-17 digit floats) for every converter kind x position of the variable in the rule, and a fixed set of "
                "histories on one Map and adapter (round trip, mutate every dict match() returned by pop / set / clear, round trip with the same input dict, "
                "clear the input dict, round trip with fresh values or a MultiDict; rules with defaults and no converters incl. '/', with converters, a defaults "
                "pair, a placeholder default, below Submount / Subdomain, every script root); "
                "non-trivial = distinct built URL that needs percent-coding, carries a query, is external, or comes from a map with defaults")
    ctx.assumptions += [
        "Deliver: relative URLs are requested from the adapter's own host; the server strips the script root, percent-decodes the path as UTF-8 and passes the query apart",
        "floats travel as repr() text: call values in positional notation with up to 17 significant digits are judged; float texts in matched paths only up to 15 digits",
        "rules with defaults follow the documented patterns: a short rule carrying the default of the long rule's last variable, defaults outside the URL, or a "
        "chain of rules of one endpoint whose default sets are nested (2 / 1 / 0 defaults); sibling rules with equally many defaults on different arguments are not generated",
        "methods, alias, websocket, redirect_to and build_only are not part of the check",
        "domain-part variables are judged for values a client preserves: lower-case letters / digits / hyphens in dot-separated labels, ints other than the scheme's default port",
        "several variables in one segment are judged where no value (as spelled in the path) contains a literal character of the segment and adjacent variables are separated by a literal",
        "float min / max are judged for values with at most 6 integer and 3 fraction digits; under sort_parameters the extras are compared as a multiset (exact order is drift)",
    ]
    for cfg in (("MCBuild_q", "MCBuild_qd", "MCBuild_qg", "MCBuild_qp", "MCBuild_qs", "MCBuild_qe") if q else ("MCBuild_q", "MCBuild_qd", "MCBuild_qg", "MCBuild_qp", "MCBuild_qs", "MCBuild_qe", "MCBuild_t7", "MCBuild_t1", "MCBuild_t2", "MCBuild_t3", "MCBuild_t4", "MCBuild_t5", "MCBuild_t6")):
        ctx.model_check(AREA, "MCBuild", cfg, timeout=3000)
    ctx.exhaustive = True
    for cfg, name in (("MCBuild_orig_path", "pre_fix_path_model_violates"), ("MCBuild_orig_any", "pre_fix_any_model_violates"),
                      ("MCBuild_flagkey", "build_key_without_default_count_model_violates"),
                      ("MCBuild_strdefault", "placeholder_default_spelled_by_str_model_violates")):
        r = tlc.run_tlc(AREA, "MCBuild", cfg, workers=ctx.workers, tmp=ctx.tmp, allow_violation=True, timeout=1200)
        ctx.notes[name] = r.invariant_violated
        if not r.invariant_violated:
            raise tlc.MachineryError(f"{cfg}: the pre-fix model no longer violates the laws (vacuity)")
    # histories on one Map: heap model of "match returns a fresh dict, build copies what it is given"; the aliasing variants must fail
    ctx.model_check(AREA, "RoutingAlias", "MCAlias_fresh", timeout=600)
    for cfg, name in (("MCAlias_alias", "match_handing_out_rule_defaults_model_violates"), ("MCAlias_retain", "build_retaining_given_dict_model_violates")):
        r = tlc.run_tlc(AREA, "RoutingAlias", cfg, workers=ctx.workers, tmp=ctx.tmp, allow_violation=True, timeout=600)
        ctx.notes[name] = r.invariant_violated
        if not r.invariant_violated:
            raise tlc.MachineryError(f"{cfg}: the aliasing model variant no longer violates the invariants (vacuity)")
    # concurrent first use: lock + _remap flag protocol of Map.update(); clearing the flag early / dropping the lock must fail
    ctx.model_check(AREA, "RoutingUpdate", "MCUpdate_late", timeout=600)
    for cfg, name in (("MCUpdate_early", "flag_cleared_before_sorting_model_violates"), ("MCUpdate_nolock", "update_without_lock_model_violates")):
        r = tlc.run_tlc(AREA, "RoutingUpdate", cfg, workers=ctx.workers, tmp=ctx.tmp, allow_violation=True, timeout=600)
        ctx.notes[name] = r.invariant_violated
        if not r.invariant_violated:
            raise tlc.MachineryError(f"{cfg}: the update protocol variant no longer violates the invariants (vacuity)")
    if not q:
        _apalache_update(ctx)
    exported = [v for cfg in (("MCBuild_x" if q else "MCBuild_xt"), "MCBuild_xd", "MCBuild_xg", "MCBuild_xp", "MCBuild_xs")
                for v in ctx.export(AREA, "MCBuild", cfg, count_states=False, timeout=3000) if isinstance(v, dict) and "map" in v]
    ctx.notes["model_cases_exported"] = len(exported)
    if len(exported) < 100:
        raise tlc.MachineryError("too few exported model cases")
    jobs = []
    for c in exported:
        for r in c["map"]["rules"]:
            r["via"] = "plain"
        c["npaths"], c["pseed"] = (1 if q else 3), ctx.seed
        jobs.append(("model", c))
    edges = edge_cases()    # deterministic boundary values per converter kind x position: part of every run, no random draw
    ctx.notes["edge_cases"] = len(edges)
    jobs += [("edge", c) for c in edges]
    jobs += [("alias", c) for c in alias_cases()]
    jobs += [("conc", c) for c in concurrent_cases()]   # thread A parked inside Map.update()'s sort, thread B does a round trip   # histories: mutate what match() returned / what build() was given, go round again
    jobs += [("sweep", c) for c in sweep_cases(BOUNDARY_POINTS if q else sorted(set(BOUNDARY_POINTS) | set(range(0, 0x800, 1)) | set(range(0x800, 0x11000, 97))))]
    n = 1800 if q else 30000
    jobs += [("rand", ctx.seed * 1000003 + i) for i in range(n)]
    results = pmap(_run, jobs, workers=ctx.workers, chunksize=32)
    _judge(ctx, jobs, results)


def replay(ctx: Ctx, data):
    job = tuple(data["case"]["job"])
    out = _run(job)
    ctx.sample({"job": job[0], "url": data["case"].get("url", "")})
    ctx.nontrivial.update({("replay", 0), ("replay", 1)})
    _judge(ctx, [job], [out])
