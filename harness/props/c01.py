"""C01 -- multipart decoding does not depend on how the body is chunked.

1. TLC model-checks the implementation-shaped decoder model (spec/multipart/Multipart.tla) for
   ChunkIndep / PrefixOfRef / NoSpuriousError over every generator wire and every schedule.
2. spec -> code: the generator's wires are exported from TLC and fed to the real decoder under
   all 2-way (and, for a sample / in thorough: all 3-way) splits and byte-at-a-time.
3. code -> spec: a corpus (browser captures, hand-made delimiter-adjacent payloads, seeded random
   bodies) x schedules, and MultiPartParser with every buffer_size / short-read plans, recorded
   and judged by MultipartTrace.tla (TLC), which also reports model drift.
"""
from __future__ import annotations

import random

from .. import mp
from ..core import Ctx, pmap

LEVEL = "model_checking"
AREA = "multipart"


def _runs_for(wire: bytes, bnd: bytes, scheds, limits=(None, None)):
    out = []
    for ch in scheds:
        r = mp.run_decoder(wire, bnd, ch, limits[0], limits[1])
        out.append({"op": "run", "api": "decoder", "chunks": ch,
                    "maxmem": -1 if limits[0] is None else limits[0],
                    "maxparts": -1 if limits[1] is None else limits[1],
                    "steps": r["steps"], "err": r["err"]})
    return out


def _form_runs(wire, bnd, sizes_plans, limits=(None, None)):
    out = []
    for bs, plan in sizes_plans:
        res = mp.run_form(wire, bnd, bs, plan, limits[0], limits[1])
        out.append({"op": "form", "api": "parser", "buffer_size": bs, "plan": plan or [],
                    "maxmem": -1 if limits[0] is None else limits[0],
                    "maxparts": -1 if limits[1] is None else limits[1], "res": res})
    return out


def _group(args):
    """Executed in a worker process: everything recorded for one wire."""
    wire, bnd, scheds, forms, modelhdr = args
    cfg = {"op": "cfg", "bnd": list(bnd), "wire": list(wire), "ref": mp.ref_of(wire, bnd),
           "formref": mp.run_form(wire, bnd, len(wire) + 1), "modelhdr": modelhdr, "ctype": "multipart"}
    runs = _runs_for(wire, bnd, scheds) + _form_runs(wire, bnd, forms)
    # the same schedules with the part-count limit set to exactly the number of parts of the body: an exact
    # limit must not start to depend on how the bytes arrive (clause PartsLimitSpurious)
    ref = cfg["ref"]
    if ref["err"] == "" and ref["parts"]:
        n = len(ref["parts"])
        fine = sorted(scheds, key=lambda c: -len(c))[:3]
        runs += _runs_for(wire, bnd, fine, (None, n)) + _form_runs(wire, bnd, forms[:2], (None, n))
    return cfg, runs


def schedules_for(n, rng, *, three_way: bool, nrandom: int):
    s = mp.splits2(n)
    if three_way:
        s += mp.splits3(n)
    if n > 1:
        s.append([1] * (n - 1))  # byte at a time
    # empty pieces: a receive call that delivers nothing (cut points at 0, at the end, or coinciding) is still a
    # split of the same bytes; only None means end of input
    s += [[0], [n, 0], [max(1, n // 2), 0], [0, 1, 0]]
    s += mp.random_splits(rng, n, nrandom)
    return s


def form_plans(n, rng, *, all_sizes: bool):
    sizes = list(range(1, n + 2)) if all_sizes else sorted({1, 2, 3, 7, 16, max(1, n // 2), n, n + 1})
    out = [(bs, None) for bs in sizes]
    for _ in range(4):
        out.append((rng.choice([8, 64, 1024, n + 1]), [rng.randint(1, 7) for _ in range(rng.randint(1, 5))]))
    return out


def build_groups(ctx: Ctx, model_wires):
    rng = random.Random(ctx.seed)
    q = ctx.quick
    groups = []
    # (a) spec -> code: wires exported from the TLC generator
    sample3 = set(rng.sample(range(len(model_wires)), min(len(model_wires), 12 if q else 250)))
    for idx, (w, b) in enumerate(model_wires):
        scheds = schedules_for(len(w), rng, three_way=idx in sample3, nrandom=2)
        forms = form_plans(len(w), rng, all_sizes=False) if idx % (8 if q else 2) == 0 else []
        groups.append((w, b, scheds, forms, True))
    # (b) code -> spec corpus
    corpus = mp.handmade_corpus()
    for w, b in corpus:
        n = len(w)
        scheds = schedules_for(n, rng, three_way=(n <= (62 if q else 110)), nrandom=5 if q else 50)
        groups.append((w, b, scheds, form_plans(n, rng, all_sizes=n <= (150 if q else 400)), n <= 120))
    for w, b in mp.browser_corpus():
        n = len(w)
        scheds = mp.splits2(n) if not q else [[i] for i in range(1, n, 3)]
        scheds += mp.random_splits(rng, n, 10 if q else 100, kmax=12)
        if not q:
            scheds.append([1] * (n - 1))
        groups.append((w, b, scheds, form_plans(n, rng, all_sizes=not q), False))
    for _ in range(150 if q else 1200):
        w, b = mp.random_body(rng)
        n = len(w)
        scheds = schedules_for(n, rng, three_way=(n <= (40 if q else 70)), nrandom=4 if q else 20)
        groups.append((w, b, scheds, form_plans(n, rng, all_sizes=n <= (80 if q else 200)), False))
    return groups


def judge_groups(ctx: Ctx, groups, kind="c01", slice_size=400):
    """Record and judge in slices so that memory stays bounded in the thorough tier."""
    for a in range(0, len(groups), slice_size):
        _judge_slice(ctx, groups[a:a + slice_size], kind, base=a)


def _judge_slice(ctx: Ctx, groups, kind, base):
    results = pmap(_group, groups, workers=ctx.workers, chunksize=4)
    lines, index = [], {}
    for t0, ((w, b, scheds, forms, mh), (cfg, runs)) in enumerate(zip(groups, results)):
        t = base + t0
        if cfg["ref"]["err"]:
            # the one-piece decode itself fails: the body counts as outside the domain (nothing claimed); counted, and
            # an unrelated exception class is reported as drift so that it cannot pass unnoticed
            oc = ctx.notes.setdefault("bodies_outside_domain_by_reference_error", {})
            oc[cfg["ref"]["err"]] = oc.get(cfg["ref"]["err"], 0) + 1
            if cfg["ref"]["err"].startswith("exc:") and len(ctx.model_drift) < 20:
                ctx.model_drift.append({"kind": "reference-decode-crashed", "err": cfg["ref"]["err"], "bnd": list(b)[:40]})
        cfg["t"] = t
        lines.append(cfg)
        for i, r in enumerate(runs):
            r["t"], r["i"] = t, i
            lines.append(r)
            ctx.count(1, None)
        nchunks = {len(r.get("chunks", [])) + 1 for r in runs if r["op"] == "run"}
        if cfg["ref"]["err"] == "" and cfg["ref"]["parts"]:
            ctx.nontrivial.add((bytes(w), bytes(b)))
        if t % 97 == 0:
            ctx.sample({"wire": w.decode("latin-1"), "boundary": b.decode("latin-1"), "schedules": len(scheds),
                        "form_runs": len(forms), "example_schedule": scheds[len(scheds) // 2] if scheds else []})
    rejects = ctx.judge(AREA, "MultipartTrace", lines, batch=3000)
    bykey = {(ln["t"], ln.get("i")): ln for ln in lines if ln["op"] != "cfg"}
    cfgs = {ln["t"]: ln for ln in lines if ln["op"] == "cfg"}
    for r in rejects:
        ln = bykey[(r["t"], r["i"])]
        c = cfgs[r["t"]]
        case = {"wire": c["wire"], "bnd": c["bnd"], "api": ln["api"], "chunks": ln.get("chunks"),
                "buffer_size": ln.get("buffer_size"), "plan": ln.get("plan"),
                "maxmem": ln["maxmem"], "maxparts": ln["maxparts"],
                "wire_text": bytes(c["wire"]).decode("latin-1")}
        ctx.violation(f"{r['clause']}:{ln['api']}", r["clause"], case, kind=kind)


def repo_test_traces(ctx: Ctx):
    """code -> spec from the repository's own tests: run the multipart / form / request tests under the
    recording plugin and turn every MultipartDecoder session into a trace group."""
    import json
    import os
    import subprocess
    import sys

    from ..core import REPO, VERIF, cps

    out = os.path.join(ctx.tmp, "repo-sessions.json")
    env = dict(os.environ, VERIF_TRACE_OUT=out, PYTHONPATH=VERIF + os.pathsep + os.path.join(REPO, "src"),
               PYTHONDONTWRITEBYTECODE="1")
    files = ["tests/sansio/test_multipart.py", "tests/test_formparser.py", "tests/test_wrappers.py", "tests/test_test.py"]
    p = subprocess.run([sys.executable, "-m", "pytest", "-q", "-p", "no:cacheprovider", "-p", "harness.pytest_trace_plugin",
                        "-x", "--no-header", "-n", "0", *files], cwd=REPO, env=env, capture_output=True, text=True, timeout=600)
    if not os.path.exists(out):
        raise MachineryErrorLocal("recording the repository's tests produced no trace file:\n" + (p.stdout + p.stderr)[-1500:])
    sessions = json.load(open(out))
    lines, t = [], 0
    for s in sessions:
        chunks = [bytes(st["chunk"]) for st in s["steps"] if st["chunk"] is not None]
        wire = b"".join(chunks)
        bnd = bytes(s["bnd"])
        if not wire or len(wire) > 40000:
            continue
        cfg = {"t": f"repo{t}", "op": "cfg", "bnd": list(bnd), "wire": list(wire), "ref": mp.ref_of(wire, bnd),
               "formref": {"err": "skip", "fields": [], "files": []}, "modelhdr": False, "ctype": "multipart"}
        steps, fed, cursor, eof_seen = [], 0, 0, False
        for st in s["steps"]:
            if st["chunk"] is not None:
                fed += len(st["chunk"])
            evs = []
            for e in st["ev"]:
                if e["k"] == "P":
                    evs.append({"k": "P", "kind": e["kind"], "name": cps(e["name"] if e["name"] is not None else "\x00None"),
                                "hasfn": e["kind"] == "file", "fname": cps(e["fname"]) if e["kind"] == "file" and e["fname"] is not None else [],
                                "hdr": [[cps(k), cps(v)] for k, v in e["hdr"]]})
                elif e["k"] == "D":
                    enc, cursor = mp._slice_or_lit(bytes(e["data"]), wire, cursor)
                    enc.update({"k": "D", "more": e["more"]})
                    evs.append(enc)
                elif e["k"] == "EPI":
                    eof_seen = True
            steps.append({"fed": fed, "buflen": st["buflen"], "ev": evs})
        complete = eof_seen or s["err"] != ""
        if not complete:
            # the test stopped feeding before the end: only the per-step clauses apply
            cfg["ref"] = dict(cfg["ref"], err="partial") if cfg["ref"]["err"] == "" and False else cfg["ref"]
        run = {"t": f"repo{t}", "i": 0, "op": "run" if complete else "runpart", "api": "repo-tests",
               "chunks": [], "maxmem": -1 if s["maxmem"] is None else s["maxmem"],
               "maxparts": -1 if s["maxparts"] is None else s["maxparts"], "steps": steps, "err": s["err"], "test": s["test"][:120]}
        lines += [cfg, run]
        t += 1
    ctx.notes["repo_test_sessions"] = t
    if t < 20:
        raise MachineryErrorLocal(f"only {t} decoder sessions recorded from the repository's tests")
    rejects = ctx.judge(AREA, "MultipartTrace", lines, batch=2000)
    bykey = {ln["t"]: ln for ln in lines if ln["op"] != "cfg"}
    cfgs = {ln["t"]: ln for ln in lines if ln["op"] == "cfg"}
    for r in rejects:
        ln, c = bykey[r["t"]], cfgs[r["t"]]
        ctx.violation(f"{r['clause']}:repo-tests", r["clause"],
                      {"wire": c["wire"], "bnd": c["bnd"], "api": "decoder", "chunks": [len(x["chunk"]) for x in []],
                       "test": ln["test"], "maxmem": ln["maxmem"], "maxparts": ln["maxparts"], "buffer_size": None, "plan": None,
                       "steps_fed": [s["fed"] for s in ln["steps"]]}, kind="c01-repo")
    for ln in lines:
        if ln["op"] != "cfg":
            ctx.count(1, ("repo", ln["t"]))


class MachineryErrorLocal(Exception):
    pass


def export_model_wires(ctx: Ctx, cfgs):
    wires = []
    for cfg in cfgs:
        for v in ctx.export(AREA, "MCQ_base", cfg, count_states=False):
            if isinstance(v, dict) and "wire" in v:
                wires.append((bytes(v["wire"]), bytes(v["bnd"])))
    return wires


def run(ctx: Ctx):
    q = ctx.quick
    ctx.rule = ("case = (multipart body, arrival schedule or buffer_size/short-read plan) executed on the real "
                "decoder/parser and judged by TLC; bodies: TLC generator wires (exported), hand-made delimiter-adjacent "
                "payloads x 3 boundaries x 3 line-break styles, browser captures, seeded random bodies; "
                "non-trivial = distinct (body, boundary) that decodes to >= 1 part in one piece")
    ctx.assumptions += [
        "well-formed body := the decoder accepts it when it sees it in one piece (one-shot decode is the reference, as the property states)",
        "bounded model: boundary b / bnd, payload alphabet {CR, LF, '-', 'b', 'x'(, 'n')}, payload <= 4..5, <= 3 chunks",
    ]
    # 1. model checking
    ctx.model_check(AREA, "MCQ_base", "MCQ_fixed", timeout=600)
    if not q:
        for cfg in ("MCT_3chunks", "MCT_styles", "MCT_2parts", "MCT_bnd"):
            ctx.model_check(AREA, "MCQ_base", cfg, timeout=3000)
        # non-vacuity: the same invariants fail on the model of the decoder as it was before the fix
        from .. import tlc
        r = tlc.run_tlc(AREA, "MCQ_base", "MCQ_base", workers=ctx.workers, tmp=ctx.tmp, allow_violation=True)
        ctx.notes["orig_model_violates"] = r.invariant_violated
        if not r.invariant_violated:
            raise tlc.MachineryError("pre-fix decoder model no longer violates ChunkIndep: invariants may be vacuous")
    ctx.exhaustive = True
    # 2. + 3. conformance
    wires = export_model_wires(ctx, ["MCX_wires"] if q else ["MCX_wires", "MCX_wires_styles"])
    ctx.notes["model_wires_exported"] = len(wires)
    groups = build_groups(ctx, wires)
    judge_groups(ctx, groups)
    # 4. the repository's own tests, recorded and judged step by step
    try:
        repo_test_traces(ctx)
    except MachineryErrorLocal as e:
        from ..tlc import MachineryError
        raise MachineryError(str(e))


def replay(ctx: Ctx, data):
    case = data["case"]
    w, b = bytes(case["wire"]), bytes(case["bnd"])
    lim = (None if case["maxmem"] < 0 else case["maxmem"], None if case["maxparts"] < 0 else case["maxparts"])
    cfg = {"t": 0, "op": "cfg", "bnd": list(b), "wire": list(w), "ref": mp.ref_of(w, b),
           "formref": mp.run_form(w, b, len(w) + 1), "modelhdr": False, "ctype": "multipart"}
    if case["api"] == "decoder":
        runs = _runs_for(w, b, [case["chunks"]], lim)
    else:
        runs = _form_runs(w, b, [(case["buffer_size"], case["plan"] or None)], lim)
    lines = [cfg]
    for i, r in enumerate(runs):
        r["t"], r["i"] = 0, i
        lines.append(r)
    ctx.count(len(runs))
    ctx.nontrivial.update({("replay", 0), ("replay", 1)})
    ctx.sample(case)
    for r in ctx.judge(AREA, "MultipartTrace", lines):
        ctx.violation(f"{r['clause']}:{case['api']}", r["clause"], case, kind=data.get("kind", "c01"))
