"""C08 -- multi-value containers behave exactly like their documented model.

1. TLC model-checks the documented model (spec/containers/Containers.tla, bounded by MCContainers):
   representation invariants, coherence laws between the reads, documented post-conditions of every
   mutator, for MultiDict / ImmutableMultiDict / Headers / HeaderSet, to the fixpoint of the bounded
   state space; plus an implementation-shaped HeaderSet model (parallel list + lower-case set).
2. spec -> code: the complete labelled transition system of the bounded model is exported from TLC
   and every transition is replayed on the real objects along covering walks; after every step ALL
   public reads of the real object are recorded.
3. code -> spec: seeded random scenarios over larger alphabets (several live objects: copies,
   immutable / combined / file variants, environ views) are recorded the same way.
Every recorded line (return value, exception class, reads of every live object, equality / hash /
pickle / deepcopy probes) is judged by ContainersTrace.tla (TLC).
"""
from __future__ import annotations

import concurrent.futures as cf
import random

from .. import containers as C
from .. import tlc
from ..core import Ctx, pmap

LEVEL = "model_checking"
AREA = "containers"

KINDS = ("MultiDict", "ImmutableMultiDict", "Headers", "HeaderSet")


def _key(rej):
    what = rej.get("what", "")
    k = f"{rej.get('kind', '?')}.{what}:{rej['clause']}"
    if rej.get("emp"):
        k += ":empty-value-list"
    return k


def judge_scripts(ctx: Ctx, jobs, kind_of_case="c08", chunk=400):
    """jobs: list of (keys, steps).  Runs them on the real code and judges every recorded line with TLC
    (in chunks of scripts, to bound memory)."""
    for base in range(0, len(jobs), chunk):
        part = jobs[base: base + chunk]
        args = [(t, keys, steps) for t, (keys, steps) in enumerate(part)]
        results = pmap(C.run_script, args, workers=ctx.workers, chunksize=8)
        lines = [ln for ls in results for ln in ls]
        ctx.count(sum(1 for ln in lines if ln["op"] != "begin"))
        rejects = ctx.judge(AREA, "ContainersTrace", lines, batch=2500)
        stopped, reported = set(), set()
        for r in sorted(rejects, key=lambda r: (r["t"], r["i"])):
            # an ==/hash probe does not touch the objects: report it (once per trace and key) and go on;
            # after the first other rejected line of a trace the later ones are consequences
            if r["t"] in stopped:
                continue
            if r["clause"] != "EqHashConsistent":
                stopped.add(r["t"])
            keys, steps = part[r["t"]]
            k = _key(r)
            if (r["t"], k) in reported:
                continue
            reported.add((r["t"], k))
            ln = results[r["t"]][r["i"]]
            case = {"keys": keys, "steps": [{a: b for a, b in st.items() if a != "x"} for st in steps[: r["i"]]],
                    "line": {a: ln[a] for a in ("op", "o", "name", "how", "kind", "r") if a in ln}, "what": r.get("what")}
            ctx.violation(k, r["clause"], case, kind=kind_of_case)
            vk = ctx.notes.setdefault("rejected_keys", {})
            vk[k] = vk.get(k, 0) + 1


def _par(ctx: Ctx, fns):
    """run independent TLC invocations side by side (each is a separate JVM)"""
    with cf.ThreadPoolExecutor(max_workers=max(1, min(len(fns), ctx.workers // 2))) as ex:
        return [f.result() for f in [ex.submit(fn) for fn in fns]]


def export_walks(ctx: Ctx, cfgs, maxlen):
    rng = random.Random(ctx.seed)
    jobs = []
    ntrans = 0
    exported = _par(ctx, [lambda cfg=cfg: ctx.export(AREA, "MCQ", cfg, count_states=False, timeout=1800) for _, cfg in cfgs])
    for (kind, cfg), printed in zip(cfgs, exported):
        trans = [v for v in printed if isinstance(v, dict) and "pre" in v]
        if not trans:
            raise tlc.MachineryError(f"no transitions exported for {kind} ({cfg})")
        ntrans += len(trans)
        keys = sorted({C.dec(tr["a"]["k"]) for tr in trans} - {""})
        walks = C.cover_walks(kind, trans, maxlen, rng)
        covered = sum(len(w) for _, w in walks)
        if covered < len(trans):
            raise tlc.MachineryError(f"covering walks miss transitions of {kind}: {covered} < {len(trans)}")
        for start, walk in walks:
            jobs.append((C.probe_keys(kind, keys), C.walk_script(kind, start, walk)))
            ctx.nontrivial.update((kind, tr["name"], str(tr["pre"]), str(tr["a"])) for tr in walk)
    ctx.notes["model_transitions_exported"] = ntrans
    ctx.notes["replay_walks"] = len(jobs)
    return jobs


def random_jobs(ctx: Ctx, n, nsteps):
    rng = random.Random(ctx.seed * 7919 + 1)
    fams = ["md", "md", "md", "headers", "headers", "headerset", "environ"]
    jobs = []
    for i in range(n):
        keys, steps = C.gen_script(rng, fams[i % len(fams)], nsteps)
        jobs.append((keys, steps))
        if i % 211 == 0:
            ctx.sample({"family": fams[i % len(fams)], "probe_keys": keys,
                        "steps": [f"{s['op']}:{s.get('kind') or s.get('name') or s.get('how')}@{s.get('o', '')}" for s in steps]})
        ctx.nontrivial.add(("random", i))
    return jobs


def run(ctx: Ctx):
    q = ctx.quick
    ctx.rule = ("case = one public call (constructor / mutator / copy / pickle / deepcopy) on a real container after a history, "
                "with ALL public reads of every live object recorded afterwards and judged by TLC against the documented model; "
                "histories: covering walks through the complete exported transition system of the bounded TLC model (every model "
                "transition replayed at least once) + seeded random scenarios over larger alphabets with up to 5 live objects "
                "(copies, immutable / combined / file variants, environ views); non-trivial = distinct replayed model transition "
                "(kind, op, pre-state, args) or distinct random scenario")
    ctx.assumptions += [
        "keys / names / items / values are ASCII strings (str.lower/upper/title are modelled for ASCII letters only); "
        "header values contain no CR/LF; HeaderSet items are RFC 7230 tokens (no quoting in to_header)",
        "an entry whose value list is empty (only setlist(k, []) / setlistdefault(k) create one) may or may not count as a key: "
        "reads are accepted in either view, but never an exception other than the documented KeyError",
        "HeaderSet item assignment hs[i] = x where x equals (up to case) an item at another index is outside the documented model "
        "and is not exercised; copy.copy(HeaderSet) is not claimed (no documented copy)",
        "get(type=int) is probed with digit strings / non-numeric strings only (no signs, blanks, underscores)",
        "equality of Headers is judged only by: same lines => equal, equal => same set of (lower name, value)",
    ]
    # 1. model checking
    w = max(2, ctx.workers // 4)
    mcs = [lambda kind=kind: ctx.model_check(AREA, "MCQ", f"MCQ_{kind}", timeout=900, workers=w) for kind in KINDS]
    mcs.append(lambda: ctx.model_check(AREA, "MCHS", "HeaderSetImpl_fixed", timeout=600, workers=2))
    mcs.append(lambda: tlc.run_tlc(AREA, "MCHS", "HeaderSetImpl_orig", workers=2, tmp=ctx.tmp, allow_violation=True))
    r = _par(ctx, mcs)[-1]
    if not q:
        for cfg in ("MCT_MultiDict", "MCT_Headers", "MCT_HeaderSet"):
            ctx.model_check(AREA, "MCQ", cfg, timeout=3000)
    ctx.notes["pre_fix_headerset_impl_model_violates"] = r.invariant_violated
    if not r.invariant_violated:
        raise tlc.MachineryError("the implementation-shaped HeaderSet model of the pre-fix code no longer violates Refines")
    ctx.exhaustive = True
    # 2. spec -> code replay of the complete transition system
    cfgs = [(k, f"MCQ_{k}_x") for k in KINDS] if q else [(k, f"MCT_{k}_x") for k in KINDS]
    jobs = export_walks(ctx, cfgs, maxlen=30 if q else 40)
    # 3. code -> spec: seeded random scenarios
    jobs += random_jobs(ctx, 320 if q else 3000, 12 if q else 16)
    judge_scripts(ctx, jobs)


def replay(ctx: Ctx, data):
    case = data["case"]
    ctx.nontrivial.update({("replay", 0), ("replay", 1)})
    ctx.sample({"steps": len(case["steps"]), "line": case.get("line")})
    judge_scripts(ctx, [(case["keys"], case["steps"])], kind_of_case=data.get("kind", "c08"))
