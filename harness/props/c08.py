"""C08 -- multi-value containers behave exactly like their documented model.

1. TLC model-checks the documented model (spec/containers/Containers.tla, bounded by MCContainers):
   representation invariants, coherence laws between the reads, documented post-conditions of every
   mutator, for MultiDict / ImmutableMultiDict / Headers / HeaderSet, to the fixpoint of the bounded
   state space; plus an implementation-shaped HeaderSet model (parallel list + lower-case set).
2. spec -> code: the complete labelled transition system of the bounded model is exported from TLC
   and every transition is replayed on the real objects along covering walks; after every step ALL
   public reads of the real object are recorded.
3. code -> spec: seeded random scenarios over larger alphabets (several live objects: copies,
   immutable / combined / file variants, environ views) are recorded the same way.
Every recorded line (return value, exception class, reads of every live object, equality / hash /
pickle / deepcopy probes) is judged by ContainersTrace.tla (TLC).
"""
from __future__ import annotations

import concurrent.futures as cf
import json
import multiprocessing as mp
import os
import random

from .. import containers as C
from .. import tlc
from ..core import Ctx

LEVEL = "model_checking"
AREA = "containers"

KINDS = ("MultiDict", "ImmutableMultiDict", "Headers", "HeaderSet")


def _key(rej):
    what = rej.get("what", "")
    k = f"{rej.get('kind', '?')}.{what}:{rej['clause']}"
    if rej.get("emp"):
        k += ":empty-value-list"
    return k


def _record_and_judge(args):
    """Worker process: run a group of scripts on the real code, write the recorded lines as ndjson and let
    TLC (ContainersTrace) judge them.  Python only transports: the verdicts are the REJECT records TLC prints."""
    gid, tmp, group = args
    path = os.path.join(tmp, f"trace-c08-{gid}.ndjson")
    nlines = ncalls = 0
    index = {}
    with open(path, "w") as f:
        for t, keys, steps in group:
            for ln in (steps if keys is None else C.run_script((t, keys, steps))):   # keys None: lines recorded elsewhere
                f.write(json.dumps(ln, separators=(",", ":")) + "\n")
                nlines += 1
                if ln["op"] != "begin":
                    ncalls += 1
                    index[(t, ln["i"])] = {a: ln[a] for a in ("op", "o", "name", "how", "kind", "r") if a in ln}
    r = tlc.run_tlc(AREA, "ContainersTrace", None, workers=1, tmp=tmp, timeout=1800, env={"TRACE_FILE": path}, heap="2g")
    judged = [v for v in r.printed if isinstance(v, dict) and "judged" in v]
    if not judged or judged[-1]["judged"] != nlines:
        raise tlc.MachineryError(f"judge containers/ContainersTrace: judged {judged} of {nlines} lines\n{r.stdout[-1500:]}")
    os.unlink(path)
    rejects = [v for v in r.printed if isinstance(v, dict) and v.get("reject")]
    drift = [v for v in r.printed if isinstance(v, dict) and v.get("drift")]
    for v in rejects:
        v["line"] = index.get((v["t"], v["i"]), {})
    return rejects, drift, nlines, ncalls, r.distinct, r.generated


def judge_scripts(ctx: Ctx, jobs, kind_of_case="c08", chunk=None):
    """jobs: list of (keys, steps).  Every script is executed on the real code and every recorded line is
    judged by TLC; recording and judging run in ctx.workers processes (one TLC judge each), in chunks of
    scripts to bound memory and file sizes."""
    chunk = chunk or (6000 if ctx.quick else 1500)
    for base in range(0, len(jobs), chunk):
        part = jobs[base: base + chunk]
        ngroups = max(1, min(ctx.workers, len(part) // 4 or 1))
        order = sorted(range(len(part)), key=lambda t: -len(part[t][1]))
        groups = [[] for _ in range(ngroups)]
        for n, t in enumerate(order):          # balance the groups by script length
            groups[n % ngroups].append((t, part[t][0], part[t][1]))
        args = [(base * 1000 + g, ctx.tmp, sorted(grp)) for g, grp in enumerate(groups)]
        if ngroups == 1:
            outs = [_record_and_judge(args[0])]
        else:
            with mp.get_context("fork").Pool(ngroups) as pool:
                outs = pool.map(_record_and_judge, args, chunksize=1)
        rejects = []
        for rj, drift, nlines, ncalls, distinct, generated in outs:
            rejects += rj
            ctx.model_drift.extend(drift[:50])
            ctx.traces += nlines
            ctx.count(ncalls)
            ctx.states += distinct
            ctx.transitions += generated
        stopped, reported = set(), set()
        for r in sorted(rejects, key=lambda r: (r["t"], r["i"])):
            # an ==/hash probe does not touch the objects: report it (once per trace and key) and go on;
            # after the first other rejected line of a trace the later ones are consequences
            if r["t"] in stopped:
                continue
            if r["clause"] != "EqHashConsistent":
                stopped.add(r["t"])
            keys, steps = part[r["t"]]
            k = _key(r)
            if (r["t"], k) in reported:
                continue
            reported.add((r["t"], k))
            case = {"keys": keys, "steps": [{a: b for a, b in st.items() if a != "x"} for st in steps[: r["i"]]],
                    "line": r.get("line", {}), "what": r.get("what")}
            ctx.violation(k, r["clause"], case, kind=kind_of_case)
            vk = ctx.notes.setdefault("rejected_keys", {})
            vk[k] = vk.get(k, 0) + 1


QUICK_TEST_FILES = ("tests/test_datastructures.py", "tests/test_wrappers.py", "tests/test_http.py")


def record_repo_tests(ctx: Ctx, files):
    """run the repository's tests under the recording plugin (test process only; /repo untouched)"""
    import subprocess
    import sys

    from ..core import REPO, VERIF

    out = os.path.join(ctx.tmp, f"repo-container-sessions-{abs(hash(tuple(files))) % 10**8}.json")
    env = dict(os.environ, VERIF_TRACE_OUT=out, PYTHONPATH=VERIF + os.pathsep + os.path.join(REPO, "src"),
               PYTHONDONTWRITEBYTECODE="1")
    p = subprocess.run([sys.executable, "-m", "pytest", "-q", "-p", "no:cacheprovider", "-p", "harness.pytest_containers_plugin",
                        "--no-header", "-n", "0", *files], cwd=REPO, env=env, capture_output=True, text=True, timeout=900)
    tail = (p.stdout + p.stderr)[-1500:]
    if not os.path.exists(out):
        raise tlc.MachineryError("recording the repository's tests produced no trace file:\n" + tail)
    return p, tail, json.load(open(out))


def repo_test_traces(ctx: Ctx, files=QUICK_TEST_FILES, min_sessions=100, recorded=None):
    """code -> spec from the repository's own tests: run the datastructure / wrapper tests under the recording
    plugin (harness/pytest_containers_plugin.py) and judge every container session with ContainersTrace."""
    p, tail, data = recorded or record_repo_tests(ctx, files)
    sessions = [s for s in data["sessions"] if s["lines"]]
    skipped = dict(data["skipped"])
    for s in sessions:
        if s["closed"]:
            skipped["truncated - " + s["closed"]] = skipped.get("truncated - " + s["closed"], 0) + 1
    groups = [[] for _ in range(max(1, min(ctx.workers, len(sessions) // 20 or 1)))]
    nlines = 0
    for t, s in enumerate(sessions):
        lines = [{"t": t, "i": 0, "op": "begin"}]
        for i, ln in enumerate(s["lines"], 1):
            ln["t"], ln["i"] = t, i
            lines.append(ln)
        nlines += len(lines)
        groups[t % len(groups)].append((t, None, lines))
    bykind = {}
    for s in sessions:
        bykind[s["kind"]] = bykind.get(s["kind"], 0) + 1
    ctx.notes["repo_tests"] = {"files": list(files), "sessions_judged": len(sessions), "by_kind": bykind,
                               "calls_judged": nlines - len(sessions),
                               "constructor_from_state": sum(1 for s in sessions if s["ctor"] == "state"),
                               "skipped_or_truncated_by_reason": skipped}
    if len(sessions) < min_sessions:
        raise tlc.MachineryError(f"only {len(sessions)} container sessions recorded from the repository's tests\n{tail}")
    args = [(900000 + g, ctx.tmp, grp) for g, grp in enumerate(groups)]
    if len(args) == 1:
        outs = [_record_and_judge(args[0])]
    else:
        with mp.get_context("fork").Pool(len(args)) as pool:
            outs = pool.map(_record_and_judge, args, chunksize=1)
    seen = set()
    for rj, drift, nl, ncalls, distinct, generated in outs:
        ctx.model_drift.extend(drift[:50])
        ctx.traces += nl
        ctx.count(ncalls)
        ctx.states += distinct
        ctx.transitions += generated
        for r in sorted(rj, key=lambda r: (r["t"], r["i"])):
            if r["t"] in seen:
                continue                       # first rejected line of a session; later ones are consequences
            seen.add(r["t"])
            s = sessions[r["t"]]
            k = "RepoTests." + _key(r)
            case = {"test": s["test"], "lines": s["lines"][: r["i"]], "what": r.get("what")}
            ctx.violation(k, "RepoTests." + r["clause"], case, kind="repo-tests")
            vk = ctx.notes.setdefault("rejected_keys", {})
            vk[k] = vk.get(k, 0) + 1
    ctx.notes["repo_tests"]["pytest_exit"] = p.returncode
    if p.returncode != 0 and not seen:
        # the wrapping must be invisible to the tests: red tests without any rejected session cannot be told
        # from interference by the plugin -> machinery, never a verdict
        raise tlc.MachineryError("the repository's tests do not pass under the recording plugin:\n" + tail)
    for s in sessions[::97]:
        ctx.sample({"repo_test": s["test"], "kind": s["kind"], "calls": [ln.get("name", ln["op"]) for ln in s["lines"]][:12]})
    ctx.nontrivial.update(("repo", t) for t in range(len(sessions)))


def _par(ctx: Ctx, fns):
    """run independent TLC invocations side by side (each is a separate JVM)"""
    with cf.ThreadPoolExecutor(max_workers=max(1, min(len(fns), ctx.workers))) as ex:
        return [f.result() for f in [ex.submit(fn) for fn in fns]]


def export_fns(ctx: Ctx, cfgs):
    return [lambda cfg=cfg: ctx.export(AREA, "MCQ", cfg, count_states=False, timeout=1800) for _, cfg in cfgs]


def export_walks(ctx: Ctx, cfgs, maxlen, exported=None):
    rng = random.Random(ctx.seed)
    jobs = []
    ntrans = 0
    if exported is None:
        exported = _par(ctx, export_fns(ctx, cfgs))
    for (kind, cfg), printed in zip(cfgs, exported):
        trans = [v for v in printed if isinstance(v, dict) and "pre" in v]
        if not trans:
            raise tlc.MachineryError(f"no transitions exported for {kind} ({cfg})")
        ntrans += len(trans)
        keys = sorted({C.dec(tr["a"]["k"]) for tr in trans} - {""})
        walks = C.cover_walks(kind, trans, maxlen, rng)
        covered = sum(len(w) for _, w in walks)
        if covered < len(trans):
            raise tlc.MachineryError(f"covering walks miss transitions of {kind}: {covered} < {len(trans)}")
        for start, walk in walks:
            jobs.append((C.probe_keys(kind, keys), C.walk_script(kind, start, walk)))
            ctx.nontrivial.update((kind, tr["name"], str(tr["pre"]), str(tr["a"])) for tr in walk)
    ctx.notes["model_transitions_exported"] = ntrans
    ctx.notes["replay_walks"] = len(jobs)
    return jobs


def random_jobs(ctx: Ctx, n, nsteps):
    rng = random.Random(ctx.seed * 7919 + 1)
    fams = ["md", "md", "md", "headers", "headers", "headerset", "environ", "twins"]
    jobs = []
    for i in range(n):
        keys, steps = C.gen_script(rng, fams[i % len(fams)], nsteps)
        jobs.append((keys, steps))
        if i % 211 == 0:
            ctx.sample({"family": fams[i % len(fams)], "probe_keys": keys,
                        "steps": [f"{s['op']}:{s.get('kind') or s.get('name') or s.get('how')}@{s.get('o', '')}" for s in steps]})
        ctx.nontrivial.add(("random", i))
    return jobs


def run(ctx: Ctx):
    q = ctx.quick
    ctx.rule = ("case = one public call (constructor / mutator / copy / pickle / deepcopy) on a real container after a history, "
                "with ALL public reads of every live object recorded afterwards and judged by TLC against the documented model; "
                "histories: covering walks through the complete exported transition system of the bounded TLC model (every model "
                "transition replayed at least once) + seeded random scenarios over larger alphabets with up to 5 live objects "
                "(copies, immutable / combined / file variants, environ views); non-trivial = distinct replayed model transition "
                "(kind, op, pre-state, args) or distinct random scenario")
    ctx.assumptions += [
        "keys / names / items / values are ASCII strings (str.lower/upper/title are modelled for ASCII letters only); "
        "header values contain no CR/LF; HeaderSet items are RFC 7230 tokens (no quoting in to_header)",
        "an entry whose value list is empty (only setlist(k, []) / setlistdefault(k) create one) may or may not count as a key: "
        "reads are accepted in either view, but never an exception other than the documented KeyError",
        "HeaderSet item assignment has the ordered-set meaning: hs[i] = x puts x at position i and holds it once (another member "
        "with that name, up to case, is dropped; the member's own name or a case variant replaces the spelling in place); "
        "copy.copy(HeaderSet) is not claimed (no documented copy)",
        "get(type=int) is probed with digit strings / non-numeric strings only (no signs, blanks, underscores)",
        "equality of Headers is judged only by: same lines => equal, equal => same set of (lower name, value)",
        "equality of the MultiDict family is dict equality of key -> value list (key order irrelevant, as for any dict); for every "
        "pair of live objects of one family - including 'twins' with equal content but different key insertion order built from "
        "different constructor inputs / histories, their pickles and deep copies, and ImmutableDict / ImmutableTypeConversionDict / "
        "ImmutableOrderedMultiDict, which have no model of their own - only the bare laws are demanded of what the real == "
        "returned: == symmetric, equal => same hash => one set member / one dict key",
    ]
    files = QUICK_TEST_FILES if q else ("tests",)
    bg = cf.ThreadPoolExecutor(max_workers=1)
    recording = bg.submit(record_repo_tests, ctx, files)     # the repository's tests run while TLC model-checks
    # 1. model checking
    w = max(2, ctx.workers // 4)
    mcs = [lambda kind=kind: ctx.model_check(AREA, "MCQ", f"MCQ_{kind}", timeout=900, workers=2 * w if kind == "Headers" else w)
           for kind in KINDS]
    mcs.append(lambda: ctx.model_check(AREA, "MCHS", "HeaderSetImpl_fixed", timeout=600, workers=2))
    mcs.append(lambda: tlc.run_tlc(AREA, "MCHS", "HeaderSetImpl_preassign", workers=2, tmp=ctx.tmp, allow_violation=True))
    mcs.append(lambda: tlc.run_tlc(AREA, "MCHS", "HeaderSetImpl_orig", workers=2, tmp=ctx.tmp, allow_violation=True))
    cfgs = [(k, f"MCQ_{k}_x") for k in KINDS] if q else [(k, f"MCT_{k}_x") for k in KINDS]
    res = _par(ctx, mcs + export_fns(ctx, cfgs))      # model checks and exports side by side
    r, exported = res[len(mcs) - 1], res[len(mcs):]
    ra = res[len(mcs) - 2]
    ctx.notes["pre_fix_headerset_item_assignment_model_violates"] = ra.invariant_violated
    if not ra.invariant_violated:
        raise tlc.MachineryError("the HeaderSet model with the pre-fix item assignment (duplicate kept in the list) no longer "
                                 "violates Refines")
    if not q:
        for cfg in ("MCT_MultiDict", "MCT_Headers", "MCT_HeaderSet"):
            ctx.model_check(AREA, "MCQ", cfg, timeout=3000)
    ctx.notes["pre_fix_headerset_impl_model_violates"] = r.invariant_violated
    if not r.invariant_violated:
        raise tlc.MachineryError("the implementation-shaped HeaderSet model of the pre-fix code no longer violates Refines")
    ctx.exhaustive = True
    # 2. spec -> code replay of the complete transition system
    jobs = export_walks(ctx, cfgs, maxlen=30 if q else 40, exported=exported)
    # 3. code -> spec: seeded random scenarios
    jobs += random_jobs(ctx, 320 if q else 3000, 12 if q else 16)
    pos = C.positional_jobs(random.Random(ctx.seed + 17), 90 if q else None)     # boundary indices, deliberately
    ctx.notes["positional_boundary_scenarios"] = len(pos)
    ctx.nontrivial.update(("positional", n) for n in range(len(pos)))
    jobs += pos
    judge_scripts(ctx, jobs)
    # 4. code -> spec: the container sessions of the repository's own tests
    repo_test_traces(ctx, files, recorded=recording.result())
    bg.shutdown()


def replay(ctx: Ctx, data):
    case = data["case"]
    if data.get("kind") == "repo-tests":
        node = case["test"].split(" ")[0]
        ctx.nontrivial.update({("replay", 0), ("replay", 1)})
        ctx.sample({"test": case["test"]})
        if node:        # run that test again under the recording plugin and judge all its container sessions
            repo_test_traces(ctx, (node,), min_sessions=1)
        else:           # recorded outside a test (import time): judge the recorded lines again
            lines = [{"t": 0, "i": 0, "op": "begin"}] + [dict(ln, t=0, i=i) for i, ln in enumerate(case["lines"], 1)]
            for r in _record_and_judge((0, ctx.tmp, [(0, None, lines)]))[0][:1]:
                ctx.violation("RepoTests." + _key(r), "RepoTests." + r["clause"], case, kind="repo-tests")
        return
    ctx.nontrivial.update({("replay", 0), ("replay", 1)})
    ctx.sample({"steps": len(case["steps"]), "line": case.get("line")})
    judge_scripts(ctx, [(case["keys"], case["steps"])], kind_of_case=data.get("kind", "c08"))
