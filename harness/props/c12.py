"""C12 -- router redirects stay on the bound host and converge.

Maps of the C03 grammar extended with per-rule strict_slashes / merge_slashes overrides, defaults pairs and
alias pairs are bound with several schemes / server names / script names / subdomains; every request whose
outcome is a RequestRedirect is followed (the target is delivered back to the same adapter, at most 5 hops) and
the recorded chain is judged by RoutingTrace.tla (TLC): OnBoundHost, QueryPreserved, Converges (<= 2 hops of
different kinds, ends in a non-redirect), SameDenotation (the final match has the endpoint and arguments the
declarative meaning gives to the original path), Delivery (harness consistency).
"""
from __future__ import annotations

import itertools
import random

from .. import routing as rt
from ..core import Ctx
from . import c03

LEVEL = "model_checking"
AREA = "routing"
CLAUSES = {"OnBoundHost", "QueryPreserved", "Converges", "SameDenotation", "Delivery"}


def build_groups(ctx: Ctx):
    rng = random.Random(ctx.seed + 12)
    q = ctx.quick
    groups = []
    # (a) the exhaustive pair universe of C03 under every bind (slash / merge redirects only)
    U = rt.universe()
    for i, a in enumerate(U):
        for j, b in enumerate(U):
            if i == j or (q and rng.random() > 0.06) or (not q and rng.random() > 0.3):
                continue
            bind = rng.choice(rt.BINDS)
            rules = [dict(a), dict(b)]
            ws = bind["scheme"] in ("ws", "wss")
            if ws:
                rules = [dict(r, methods=None) for r in rules]
            cases = [(p, "GET", rng.choice(rt.QUERIES)) for p in rt.c12_paths(rules, rng, 24)]
            groups.append((rt.make_cfg(rules, rng.random() < 0.7, rng.random() < 0.7, True, bind), False, cases))
    # (c) alias rules with their own defaults next to several candidate canonical rules, in every declaration
    #     order (quick: 5 orders per template), with and without query args, optionally among unrelated rules
    for tpl in rt.alias_groups():
        orders = list(itertools.permutations(range(len(tpl))))
        rng.shuffle(orders)
        for o in orders[: 5 if q else 120]:
            rules = [dict(tpl[i], strict=rng.choice("dddtf"), merge=rng.choice("ddtf")) for i in o]
            paths = rt.alias_group_paths(rules, rng, 26 if q else 60)
            if rng.random() < 0.4:
                extra = rt.random_rules(rng, rng.randint(1, 2))
                for e in extra:
                    e["methods"] = None
                rules = rules + extra
                rng.shuffle(rules)
            bind = rng.choice(rt.BINDS)
            cases = []
            for p in paths:
                cases.append((p, "GET", rt.NOQ))
                cases.append((p, rng.choice(["GET", "HEAD", "POST"]), rng.choice(rt.QUERIES[1:])))
            groups.append((rt.make_cfg(rules, rng.random() < 0.6, rng.random() < 0.7, rng.random() < 0.9, bind), False, cases))
    # (d) doubled slashes that belong to the match: path-converter values containing `//`, literal `//` of rules
    #     that opted out of merging (merge_slashes=False) in a merging map; requested with and without trailing slash
    for rules, strict, merge, paths in rt.own_slash_groups(rng, q):
        bind = rng.choice(rt.BINDS)
        cases = [(p, "GET", rt.NOQ) for p in paths] + [(p, rng.choice(["GET", "HEAD"]), rng.choice(rt.QUERIES[1:])) for p in paths[:6]]
        groups.append((rt.make_cfg(rules, strict, merge, True, bind), False, cases))
    # (e) adapter creation as a dimension: Map.bind_to_environ(environ[, server_name[, subdomain]]) with SCRIPT_NAME /
    #     PATH_INFO / QUERY_STRING / HTTP_HOST as a WSGI server gives them; non-ASCII / spaced / percent script roots
    envb = (rt.ENV_BINDS if not q else rng.sample(rt.ENV_BINDS, 7)) + rt.PCT_BINDS
    for bind in envb:
        for _ in range(2 if q else 14):
            kind = rng.random()
            if kind < 0.35:
                rules = rt.c12_rules(rng, rng.randint(2, 5))
                paths = rt.c12_paths(rules, rng, 14 if q else 30)
            elif kind < 0.6:
                tpl = rng.choice(rt.alias_groups())
                rules = [dict(r) for r in tpl]
                rng.shuffle(rules)
                paths = rt.alias_group_paths(rules, rng, 14 if q else 30)
            elif kind < 0.8:
                rules, _s, _m, paths = rng.choice(rt.own_slash_groups(rng, True))
            else:
                rules = [dict(r) for r in rng.choice(rt.defaults_families())]
                rng.shuffle(rules)
                paths = rng.sample(rt.FAMILY_PATHS, 12)
            if bind["scheme"] in ("ws", "wss"):
                rules = [dict(r, methods=None) for r in rules]
            cases = [(p, "GET", rng.choice(rt.QUERIES)) for p in paths if p]
            groups.append((rt.make_cfg(rules, rng.random() < 0.7, rng.random() < 0.7, rng.random() < 0.9, bind), False, cases))
    # (f) defaults families: 2-3 rules of one endpoint over the argument sets {}, {p}, {s}, {p, s} with defaults on
    #     subsets, every declaration order; the redirect must keep endpoint AND arguments (none added, none lost)
    fams = rt.defaults_families()
    if q:
        fams = rng.sample(fams, 22)
    for fam in fams:
        orders = list(itertools.permutations(range(len(fam))))
        for o in (orders if not q else [rng.choice(orders)]):
            rules = [dict(fam[i], strict=rng.choice("dddtf")) for i in o]
            if rng.random() < 0.3:
                rules += [dict(r, methods=None) for r in rt.random_rules(rng, 1)]
                rng.shuffle(rules)
            bind = rng.choice(rt.BINDS + rt.ENV_BINDS[:4])
            if bind["scheme"] in ("ws", "wss"):
                rules = [dict(r, methods=None) for r in rules]
            cases = [(p, "GET", rt.NOQ) for p in rt.FAMILY_PATHS] + [(p, "GET", rng.choice(rt.QUERIES[1:])) for p in rt.FAMILY_PATHS[::3]]
            groups.append((rt.make_cfg(rules, rng.random() < 0.7, rng.random() < 0.8, True, bind), False, cases))
    # (g) subdomain binding: Map(default_subdomain) x rule subdomain (not given / "" / www / api) x bind(subdomain not
    #     given / "" / www / api) and bind_to_environ(server_name=...) with the request host = server name or a subdomain
    for dsub in ("www", ""):
        for rs in (None, "", "www", "api"):
            other = {None: "api", "": "www", "www": "", "api": None}[rs]
            fam = [rt.rule([rt.lit("b")], branch=True, endpoint="sb"),
                   rt.rule([rt.lit("all")], branch=True, endpoint="sd", defaults=[rt._d("pg", 1)]),
                   rt.rule([rt.lit("all"), rt.lit("page"), rt.var("int", "pg")], endpoint="sd"),
                   rt.rule([rt.lit("canon"), rt.var("string", "n")], endpoint="sc"),
                   rt.rule([rt.lit("old"), rt.var("string", "n")], branch=True, endpoint="sc", alias=True)]
            fam = [dict(r, sub=rs) for r in fam]
            distract = [dict(rt.rule([rt.lit("b")], endpoint="ob"), sub=other),
                        dict(rt.rule([rt.lit("all"), rt.lit("page"), rt.var("int", "pg")], branch=True, endpoint="od"), sub=other)]
            binds = [{"via": "bind", "bsub": bs} for bs in (None, "", "www", "api")]
            binds += [{"via": "environ_sn", "bsub": bs} for bs in ("", "www", "api")]
            for bx in binds:
                rules = [dict(r) for r in fam + distract]
                rng.shuffle(rules)
                bind = dict(rt.DEFAULT_BIND, server=rng.choice(["example.org", "example.org:8080"]),
                            script=rng.choice(["/", "/app"]), **bx)
                paths = ["/b", "/b/", "/x//b", "/b//", "/all/page/1", "/all/page/2", "/all", "/all//page/1", "/old/me", "/old/me/",
                         "/canon/me", "//evil.com/b", "/all/page/1/"]
                cases = [(p, "GET", rng.choice(rt.QUERIES[:3])) for p in paths]
                cfg = rt.make_cfg(rules, True, True, True, bind)
                cfg["map"]["dsub"] = dsub
                groups.append((cfg, False, cases))
    # (h) method spelling: match(method=...), dispatch(method=...), bind(default_method=...) in lower / mixed / upper case on
    #     maps whose alias / defaults rules (and their canonical rules) declare methods
    spell_maps = [[dict(r, methods=["GET", "POST"]) for r in tpl] for tpl in rt.alias_groups()]
    fams = rt.defaults_families()
    spell_maps += [[dict(r, methods=["GET", "POST"]) for r in f] for f in (rng.sample(fams, 10) if q else fams)]
    combos = [(sp, call) for sp in ("post", "Post", "get", "Get", "GET", "POST", "head", "pOsT") for call in ("match", "dispatch", "default")]
    for k, rules in enumerate(spell_maps):
        rules = [dict(r) for r in rules]
        rng.shuffle(rules)
        paths = rt.alias_group_paths(rules, rng, 12) if any(r["alias"] for r in rules) else rng.sample(rt.FAMILY_PATHS, 12)
        cases = []
        for j, p in enumerate(paths):
            for d in range(3):
                sp, call = combos[(k * 7 + j * 3 + d * 5) % len(combos)]
                qq = rt.NOQ if call == "dispatch" else rng.choice(rt.QUERIES[:2])
                cases.append((p, sp.upper(), qq, {"call": call, "spell": sp}))
        groups.append((rt.make_cfg(rules, True, rng.random() < 0.8, True, rng.choice(rt.BINDS[:3])), False, cases))
    # (b) random maps with defaults / alias pairs and per-rule overrides
    for _ in range(220 if q else 2500):
        rules = rt.c12_rules(rng, rng.randint(2, 6))
        bind = rng.choice(rt.BINDS)
        if bind["scheme"] in ("ws", "wss"):
            rules = [dict(r, methods=None if not r["methods"] or "POST" in r["methods"] else r["methods"]) for r in rules]
        cases = [(p, rng.choice(["GET", "GET", "GET", "HEAD", "POST"]), rng.choice(rt.QUERIES))
                 for p in rt.c12_paths(rules, rng, 30 if q else 60)]
        groups.append((rt.make_cfg(rules, rng.random() < 0.6, rng.random() < 0.7, rng.random() < 0.8, bind), False, cases))
    return groups


def run(ctx: Ctx):
    ctx.rule = ("case = (map with per-rule slash overrides / defaults pair / alias pair, bind (scheme, server, script root, "
                "subdomain), path incl. //host prefixes, repeated slashes, non-ASCII and percent characters, query string or "
                "mapping, method) matched on a real adapter; redirects are followed by re-delivering the target; judged by TLC; "
                "non-trivial = distinct cases whose outcome is a redirect")
    ctx.assumptions += [
        "redirect_to targets supplied by the application are outside the claim; alias / defaults rules are generated together "
        "with their canonical rule and with a URL of their own (a shadowed defaults rule or an alias without canonical rule is "
        "an invalid configuration)",
        "SameDenotation is not judged for paths outside the C03 domain (tripled slashes etc.); the bounded TLC model covers "
        "slash / merged-slashes redirects only (defaults / alias redirects are covered by the recorded executions)",
    ]
    # model checking: on the implementation-shaped matcher model every redirect target matches at once
    ctx.model_check(AREA, "MCRouting", "MCQ_redirect", timeout=900)
    if not ctx.quick:
        ctx.model_check(AREA, "MCRouting", "MCT_redirect", timeout=3000)
    ctx.exhaustive = True
    groups = build_groups(ctx)
    ctx.notes["maps"] = len(groups)
    lines = c03.judge_groups(ctx, groups, clauses=CLAUSES, kind="c12")
    ctx.nontrivial = {(ln["t"], tuple(ln["path"]), ln["method"]) for ln in lines
                      if ln["op"] == "match" and ln["r"]["kind"] == "redirect"}
    c03.repo_test_calls(ctx, CLAUSES, "c12")
    ctx.notes["redirect_chains_2hops"] = sum(1 for ln in lines if ln["op"] == "match" and
                                             sum(1 for h in [ln] + ln["follow"] if h["r"]["kind"] == "redirect") >= 2)


def replay(ctx: Ctx, data):
    case = data["case"]
    g = (case["cfg"], False, [(case["path"], case["method"], case["q"]) + ((case["how"],) if case.get("how") else ())])
    ctx.nontrivial.update({("replay", 0), ("replay", 1)})
    ctx.sample({"rules": case["rules_text"], "path": case["path"], "method": case["method"]})
    c03.judge_groups(ctx, [g], clauses=CLAUSES, kind="c12")
