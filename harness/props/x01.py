"""X01 (extension area) -- werkzeug.middleware.proxy_fix.ProxyFix trusts exactly the values the configured
number of proxies appended.

Contract (spec/proxyfix/ProxyFix.tla PART 1, every clause with the documentation sentence it comes from):
NthFromRight, ZeroIgnored, FewerUntouched, ClientNeverSelected, the rewrites of REMOTE_ADDR / wsgi.url_scheme /
HTTP_HOST / SERVER_NAME / SERVER_PORT / SCRIPT_NAME (host:port interplay, bracketed IPv6 literals), OrigSaved,
WrappedAppCalled, StandardPortDropped (get_host of the rewritten environ).

1. TLC model-checks MCProxyFix: the environ is a record, the middleware one action taken twice; initial states =
   every header list of <= 3 values over a tiny alphabet x every hop count 0..3 (+ every short client text in front
   of 1..2 proxies' values).  Invariants: TrustIndex ("selected value index = Len - n"), ClientNeverSelected,
   ZeroIgnored, FewerUntouched, ImplMeetsContract (the implementation-shaped model against the judge's clauses),
   OrigPreserved, Idempotent, PortConsistent, LiteralIntact, ContractIgnoresClient.  Hand-broken variants (n-th
   from the LEFT, n = 0 not ignored, clamping when fewer values, orig saved late, no "]" test, host port not
   replaced) and the model of the code as pinned (quoted-string list parsing) must FAIL.
2. spec -> code: the model's rows (inputs + the model's result after the first and second pass) are exported from
   TLC and replayed on the real ProxyFix; the recorded outcome is judged by TLC (ProxyFixTrace.tla).
3. code -> spec: the documented situations x counts 0..3, a code point sweep, and a seeded random driver (value
   lists with spaces, empty items, IPv6 literals with / without brackets and ports, upper-case schemes, prefixes
   with / without slash, duplicate header lines through EnvironBuilder, quotes and backslashes in the client's
   part), all judged by ProxyFixTrace.tla.  Python records, TLC decides.
"""
from __future__ import annotations

import concurrent.futures as cf
import random
from collections import Counter

from .. import proxyfix as pf
from .. import tlc
from ..core import Ctx
from ..tlc import MachineryError

LEVEL = "model_checking"
AREA = "proxyfix"
MC = "MCProxyFix"
JUDGE = "ProxyFixTrace"

MODELS_QUICK = ["MCP_quick"]
MODELS_THOROUGH = ["MCP_quick", "MCP_pinned_noquote", "MCP_thorough", "MCP_pinned_noquote_thorough"]
# deliberately wrong models: cfg -> invariants one of which must be reported violated
BROKEN = {
    # the code before repo commit 2d7315b (fixes/X01-*.diff): RFC quoted-string list parsing lets a quote sent by the
    # client merge the proxies' values; rejected by the model invariant and by the clauses the trace judge uses
    "MCP_pinned": {"ClientNeverSelected"},
    "MCP_pinned_contract": {"ImplMeetsContract"},
    "MCP_left": {"TrustIndex", "ImplMeetsContract"},              # n-th value from the left (the client's side)
    "MCP_nozero": {"ZeroIgnored", "ImplMeetsContract"},           # n = 0 not ignored (values[-0])
    "MCP_noshort": {"FewerUntouched", "ImplMeetsContract"},       # fewer values than n: clamps to the left-most
    "MCP_origlate": {"OrigPreserved"},                            # originals saved after the rewrite
    "MCP_nobracket": {"LiteralIntact", "ImplMeetsContract"},      # no "]" test: "[::1]" cut at its last colon
    "MCP_noport": {"PortConsistent", "ImplMeetsContract"},        # X-Forwarded-Port does not touch HTTP_HOST
}


def _cls(line: dict, hdr: str) -> str:
    """label (part of the violation key, not a verdict): what kind of header text the rejected case had"""
    names = {"for": ["for"], "proto": ["proto"], "prefix": ["prefix"], "hostport": ["host", "port"]}.get(hdr.split("/")[0])
    if not names:
        return "-"
    texts = [pf.unslot(line["hd"][k]) or "" for k in names]
    if any('"' in x for x in texts):
        return "quote"
    if any(any(not p.strip(" \t") for p in x.split(",")) for x in texts if x):
        return "empty"
    return "plain"


def _strip(case: dict) -> dict:
    return {k: v for k, v in case.items() if k not in ("exp", "exp2")}


def record(cases):
    lines = []
    for t, c in enumerate(cases):
        ln = pf.run_case(c)
        ln["t"], ln["i"] = t, 0
        lines.append(ln)
    return lines


def observe(ctx: Ctx, cases, lines, seen: Counter):
    for t, (c, ln) in enumerate(zip(cases, lines)):
        env, out, hd, cfg = ln["env"], ln["out"], ln["hd"], ln["cfg"]
        changed = [k for k, _ in pf.KEYS if out[k] != env[k]]
        for k in changed:
            seen["rewritten_" + k] += 1
        texts = {k: pf.unslot(hd[k]) for k in pf.NAMES}
        for k in pf.NAMES:
            x = texts[k]
            if x is None:
                continue
            n_items = len(x.split(","))
            seen["zero_count_with_header"] += cfg[k] == 0
            seen["fewer_values_than_count"] += 0 < n_items < cfg[k]
            seen["count_reaches_past_two"] += cfg[k] >= 3 and n_items >= cfg[k]
            seen["empty_item"] += any(not p.strip(" \t") for p in x.split(","))
            seen["quote_in_header"] += '"' in x
        host_after = pf.unslot(out["host"])
        seen["ipv6_host_with_port"] += bool(host_after) and host_after.startswith("[") and "]:" in host_after and "host" in changed
        seen["no_http_host"] += host_after is None
        seen["standard_port_dropped"] += ln["gh"]["kind"] == "value" and host_after is not None and ln["gh"]["v"] != out["host"]["v"]
        seen["uppercase_scheme"] += "scheme" in changed and (pf.unslot(out["scheme"]) or "").lower() != pf.unslot(out["scheme"])
        seen["prefix_without_slash"] += "script" in changed and not (pf.unslot(out["script"]) or "/").startswith("/")
        seen["duplicate_header_lines"] += any(len(v) > 1 for v in (c.get("lines") or {}).values())
        seen["second_pass_same"] += ln["out2"] == ln["out"]
        ctx.count(1)
        if changed:
            ctx.nontrivial.add((tuple(sorted(cfg.items())), tuple(sorted((k, v) for k, v in texts.items() if v is not None)),
                                tuple(sorted((k, pf.unslot(v)) for k, v in env.items()))))
        if t % 1777 == 5 and changed:
            ctx.sample(pf.describe(c, ln))


def judge(ctx: Ctx, cases, lines, kind="pfix"):
    for r in ctx.judge(AREA, JUDGE, lines, batch=1500 if ctx.quick else 4000):
        ln = lines[r["t"]]
        hdr = r.get("hdr", "")
        ctx.violation(f"{r['clause']}:{hdr or '-'}:{_cls(ln, hdr)}", r["clause"], _strip(cases[r["t"]]), kind=kind)


def code_to_spec_cases(ctx: Ctx):
    rng = random.Random(ctx.seed)
    cases = pf.documented_cases() + pf.sweep_cases()
    cases += [pf.random_case(rng) for _ in range(2500 if ctx.quick else 60000)]
    return cases


def _tlc_job(ctx: Ctx, cfg: str, workers: int, allow: bool):
    return cfg, tlc.run_tlc(AREA, MC, cfg, workers=workers, tmp=ctx.tmp, allow_violation=allow, timeout=3000)


def run(ctx: Ctx):
    q = ctx.quick
    ctx.rule = ("case = one request sent through a real ProxyFix(app, x_for..x_prefix) twice (first and second pass over the same "
                "environ) + get_host of the result; cases: rows exported from the TLC model (every list of <= 3 values over a tiny "
                "alphabet x counts 0..3, client texts in front of proxies' values), the documented situations x counts 0..3, a code "
                "point sweep 33..255 inside a client value and inside the selected value, seeded random lists (OWS, empty items, IPv6 "
                "with/without brackets and ports, upper-case schemes, prefixes with/without slash, duplicate header lines, quotes and "
                "backslashes in the client's part). non-trivial = distinct (counts, header texts, original six keys) for which at least "
                "one of the six keys was rewritten")
    ctx.assumptions += [
        "each trusted proxy appends ', <value>' to the header it received (the X-Forwarded-* convention); its own value is non-empty "
        "and contains no comma, quote or backslash",
        "optional white space is space / tab; other characters str.strip() removes are not generated",
        "empty list elements: every reading between 'counted' and 'ignored' is accepted (nothing is documented)",
        "a quote in a header: only ZeroIgnored / FewerUntouched / ClientNeverSelected are claimed (whether the list has RFC 9110 "
        "quoted-strings is not documented for these headers)",
        "host values other than name | name:digits | [literal] | [literal]:digits, non-numeric forwarded ports, SERVER_PORT after a "
        "forwarded host without port, HTTP_HOST made up when there was none, a second pass, other environ keys: compared with the "
        "implementation-shaped model as drift only",
        "counts are 0..4; negative counts are not documented and not exercised",
        "bounded model: lists of <= 3 values over 3..5 representative values per header (incl. the empty value), counts 0..3, three "
        "original environs, client texts of <= 3 characters over {quote, comma, backslash, letter, space}",
    ]
    nw = max(2, ctx.workers // 4)
    models = MODELS_QUICK if q else MODELS_THOROUGH
    seen: Counter = Counter()
    with cf.ThreadPoolExecutor(max_workers=4 if q else 3) as ex:
        # 1. model checking (committed models must pass, broken ones must fail) and the export run in the background
        f_export = ex.submit(tlc.run_tlc, AREA, MC, "MCPX_quick" if q else "MCPX_thorough", workers=1, tmp=ctx.tmp, timeout=3000)
        f_models = [ex.submit(_tlc_job, ctx, c, nw, False) for c in models]
        f_broken = [ex.submit(_tlc_job, ctx, c, 2, True) for c in BROKEN]
        # 3. code -> spec
        cases = code_to_spec_cases(ctx)
        lines = record(cases)
        observe(ctx, cases, lines, seen)
        judge(ctx, cases, lines)
        # 2. spec -> code
        r = f_export.result()
        rows = [v for v in r.printed if isinstance(v, dict) and "focus" in v]
        ctx.states += r.distinct
        ctx.transitions += r.generated
        ctx.model_runs.append({"spec": f"{AREA}/{MC}", "cfg": "MCPX_quick" if q else "MCPX_thorough", "distinct": r.distinct,
                               "generated": r.generated, "exported": len(rows), "wall_s": round(r.wall_s, 1)})
        ctx.notes["model_rows_exported"] = len(rows)
        if len(rows) < 3000 or 3 * len(rows) != r.distinct:
            raise MachineryError(f"export incomplete: {len(rows)} rows for {r.distinct} states")
        if q:   # every single-header and client row, a third of the host x port product
            rows = [row for n, row in enumerate(rows) if row["focus"] != "hostport" or n % 3 == 0]
        mcases = [pf.case_from_row(row) for row in rows]
        ctx.notes["model_rows_replayed"] = len(mcases)
        mlines = record(mcases)
        observe(ctx, mcases, mlines, seen)
        judge(ctx, mcases, mlines)
        for f in f_models:
            cfg, r = f.result()
            ctx.states += r.distinct
            ctx.transitions += r.generated
            ctx.model_runs.append({"spec": f"{AREA}/{MC}", "cfg": cfg, "distinct": r.distinct, "generated": r.generated,
                                   "depth": r.depth, "wall_s": round(r.wall_s, 1)})
        for f in f_broken:
            cfg, r = f.result()
            ctx.notes.setdefault("broken_models_rejected", {})[cfg] = r.invariant_violated
            if r.invariant_violated not in BROKEN[cfg]:
                raise MachineryError(f"{MC}/{cfg}: the deliberately wrong model is not rejected by {sorted(BROKEN[cfg])} "
                                     f"(got {r.invariant_violated!r}): the invariants may be vacuous")
    ctx.exhaustive = True
    ctx.notes["observed"] = dict(seen)
    ctx.notes["violation_keys"] = dict(Counter(v["key"] for v in ctx.violations))
    ctx.notes["drift_kinds"] = dict(Counter(d.get("what", "") for d in ctx.model_drift))
    # a run in which the guarded things never happen proves nothing
    need = ["rewritten_" + k for k, _ in pf.KEYS] + [
        "zero_count_with_header", "fewer_values_than_count", "count_reaches_past_two", "empty_item", "quote_in_header",
        "ipv6_host_with_port", "no_http_host", "standard_port_dropped", "uppercase_scheme", "prefix_without_slash",
        "duplicate_header_lines", "second_pass_same"]
    for k in need:
        if seen[k] == 0 and not ctx.violations and not ctx.known_hits:
            raise MachineryError(f"vacuous run: {k!r} was never observed")


def replay(ctx: Ctx, data):
    case = data["case"]
    ctx.nontrivial.update({("replay", 0), ("replay", 1)})
    cases = [case]
    lines = record(cases)
    ctx.sample(pf.describe(case, lines[0]))
    ctx.count(1)
    judge(ctx, cases, lines, kind=data.get("kind", "pfix"))
