"""C15 -- URLs keep their meaning between IRI, URI, environ and request.

spec/iri/Iri.tla states the contract over observables (ASCII, idempotence, fixpoints of the two round trips, the
MEANING of every component -- raw reserved delimiters vs. data bytes -- unchanged, escapes of reserved characters
never unquoted, a clean IRI undone exactly) and an implementation-shaped model of the per-component conversions;
TLC checks model => contract for every component string over symbol alphabets (MCIri) and the dispatcher's
suffix-stripping loop against "longest matching mount, concatenation preserved" for every mount table and path
(MCDispatcher).  The TLC tables are replayed on the real iri_to_uri / uri_to_iri / DispatcherMiddleware; seeded
URLs, EnvironBuilder -> Request round trips, dispatcher requests and the latin-1 dance are recorded and judged by
IriTrace.tla (TLC), which also reports model drift.
"""
from __future__ import annotations

import random

from .. import iri as ir
from .. import tlc
from ..core import Ctx, pmap

LEVEL = "model_checking"
AREA = "iri"


def _txt(cp):
    return "".join(chr(c) for c in cp)


def _nontrivial(job):
    kind, a = job
    if kind == "iri":
        x = a["x"]
        return "%" in x or any(ord(c) > 127 for c in x)
    if kind == "env":
        return bool(a["pairs"]) or any(ord(c) > 127 for c in a["path"] + a["root"] + a["hostU"])
    if kind == "disp":
        return len(a["mounts"]) >= 2 and any(a["p"].startswith(m) for m in a["mounts"] if m)
    if kind == "urlrec":
        return a["path"] in (None, "", "/") or bool(a.get("pairs")) or bool(a.get("hostspell"))
    if kind == "envhist":
        return sum(1 for st in a["steps"] if st[0] not in ("new", "emit")) >= 2
    return len(a["s"]) > 0


def _judge(ctx: Ctx, jobs, batch=1500):
    results = pmap(ir.run_job, jobs, workers=ctx.workers, chunksize=64)
    lines, first = [], []
    for t, (job, res) in enumerate(zip(jobs, results)):
        group = res if isinstance(res, list) else [res]     # a builder history yields one line per get_environ
        first.append(group[0] if group else {})
        for i, ln in enumerate(group):
            ln["t"], ln["i"] = t, i
            lines.append(ln)
        ctx.count(max(1, len(group)), (job[0], repr(job[1])) if _nontrivial(job) else None)
    for r in ctx.judge(AREA, "IriTrace", lines, batch=batch):
        job = jobs[r["t"]]
        ctx.violation(f"{r['clause']}:{job[0]}:{job[1].get('src', 'seeded')}", r["clause"], {"job": [job[0], job[1]]}, kind="c15")
    return first


def run(ctx: Ctx):
    q = ctx.quick
    ctx.rule = ("case = (a) one URL scheme://[user[:password]@]host[:port][/path][?query][#fragment] with ASCII / IDN / IPv4 / "
                "bracketed IPv6 hosts and components over Unicode, '%XX' escapes (valid UTF-8 in both hex cases, reserved "
                "characters of each component, controls, invalid / truncated / overlong bytes, hex digits) and stray '%' -- "
                "pushed through every composition of iri_to_uri / uri_to_iri of depth <= 4; (b) every component string of the "
                "TLC tables embedded in a URL; (c) EnvironBuilder(path, query mapping, base_url) -> Request; (d) a mount table "
                "and a request path through DispatcherMiddleware (TLC table + seeded Unicode); (e) the latin-1 dance on "
                "boundary code points; (e3) one environ (EnvironBuilder with PATH_INFO '' / '/' / text, non-empty queries, script roots with "
                "and without trailing slash, optionally after DispatcherMiddleware for a request naming a mount exactly, optionally a "
                "Host header in another letter case / with trailing dot) through Request.url / base_url / root_url / url_root / host_url, "
                "wsgi.get_current_url in all 8 flag combinations and sansio get_current_url with 2..5 arguments, plus the TLC table of "
                "direct sansio calls (root None/''/'/'/'/app'/'/app/'..., path None/''/'/'/..., 4 queries); (e4) URLs whose host is "
                "spelled in upper / mixed case (ACE labels, names, IPv6) or with a trailing dot; (e2) builder histories: construct, then assign path / base_url / script_root / host / url_scheme / "
                "query_string / args (items) in seeded orders, 2-3 get_environ calls on one builder, each judged like (c); non-trivial = distinct case with an escape or non-ASCII text (a, b), a query pair or "
                "non-ASCII text (c), >= 2 mounts with a matching prefix (d)")
    ctx.assumptions += [
        "urllib.parse.urlsplit/urlunsplit and Python's idna codec are outside the model: the judge re-splits the recorded URLs "
        "itself and takes the Unicode / IDNA forms of the host as recorded environment facts",
        "URLs with ASCII tab / CR / LF (removed by urlsplit per WHATWG), port 0 or leading zeros, a password without user name, "
        "raw delimiters inside the user info, or user info whose NFKC form gains a delimiter are outside the domain",
        "EnvironBuilder paths: start with one '/', no raw '?' '#'; paths carrying valid '%XX' escapes are expected to be "
        "recovered percent-decoded (that is how PATH_INFO is defined) and their reconstructed URL is not judged",
    ]
    # ---- 1. TLC: implementation-shaped conversions satisfy the contract; dispatcher loop satisfies its contract
    for cfg in (("MCQ_syms", "MCQ_chars", "MCQ_utf8", "MCQ_dance") if q else ("MCT_syms", "MCT_syms4", "MCT_chars", "MCT_utf8", "MCQ_dance")):
        ctx.model_check(AREA, "MCIri", cfg, timeout=3000)
    for cfg in (("MCQ_disp",) if q else ("MCT_disp", "MCT_disp3")):
        ctx.model_check(AREA, "MCDispatcher", cfg, timeout=3000)
    ctx.exhaustive = True
    # non-vacuity of the models: uri_to_iri as found, and a shortest-prefix dispatcher, must violate the contract
    for mod, cfg, note in (("MCIri", "MCQ_syms_orig", "orig_uri_to_iri_model_violates"),
                           ("MCDispatcher", "MCQ_disp_shortest", "shortest_mount_model_violates")):
        r = tlc.run_tlc(AREA, mod, cfg, workers=ctx.workers, tmp=ctx.tmp, allow_violation=True, timeout=1200)
        ctx.notes[note] = r.invariant_violated
        if not r.invariant_violated:
            raise tlc.MachineryError(f"{mod}/{cfg}: the deliberately wrong model no longer violates the contract (vacuity)")
    # ---- 2. spec -> code: replay the TLC tables on the real functions
    jobs = []
    hu, ha = "h.example", "h.example"
    for cfg in (("MCX_comp", "MCX_chars") if q else ("MCX_comp3", "MCX_chars")):
        tab = [v for v in ctx.export(AREA, "MCIri", cfg, count_states=False, timeout=3000) if isinstance(v, dict) and "kind" in v]
        ctx.notes["exported_" + cfg] = len(tab)
        for v in tab:
            jobs.append(["iri", {"x": ir.wrap(v["kind"], _txt(v["x"])), "hu": hu, "ha": ha, "src": "model-" + v["kind"]}])
    tab = [v for v in ctx.export(AREA, "MCDispatcher", "MCX_disp", count_states=False, timeout=3000) if isinstance(v, dict) and "mounts" in v]
    ctx.notes["exported_MCX_disp"] = len(tab)
    for v in tab:
        jobs.append(["disp", {"mounts": sorted(_txt(m) for m in v["mounts"]), "script0": "", "p": _txt(v["p"]), "src": "model"}])
    # ---- 3. code -> spec: seeded cases
    rng = random.Random(ctx.seed * 7919 + 15)
    for _ in range(3000 if q else 60000):
        x, u, a = ir.gen_url(rng)
        jobs.append(["iri", {"x": x, "hu": u, "ha": a, "src": "seeded"}])
    for _ in range(1200 if q else 20000):
        jobs.append(["env", dict(ir.gen_env(rng), src="seeded")])
    for _ in range(1200 if q else 20000):
        jobs.append(["disp", dict(ir.gen_disp(rng), src="seeded")])
    # URL reconstruction entry points on boundary paths, host spelling variants (own stream), sansio table from TLC
    import concurrent.futures as cf
    with cf.ThreadPoolExecutor(max_workers=3) as ex:
        f1 = ex.submit(ctx.model_check, AREA, "MCUrlRec", "MCQ_urlrec", timeout=600, workers=2)
        f2 = ex.submit(tlc.run_tlc, AREA, "MCUrlRec", "MCQ_urlrec_emptypath", workers=1, tmp=ctx.tmp, allow_violation=True, timeout=600)
        f3 = ex.submit(ctx.export, AREA, "MCUrlRec", "MCX_urlrec", count_states=False, timeout=600)
        f1.result()
        r2, tab = f2.result(), f3.result()
    ctx.notes["empty_path_as_none_model_violates"] = r2.invariant_violated
    if not r2.invariant_violated:
        raise tlc.MachineryError("MCUrlRec/MCQ_urlrec_emptypath: the wrong get_current_url model no longer violates the contract (vacuity)")
    qpairs = {"": [], "a=b": [["a", "b"]], "k=%C3%A9&z=1": [["k", "é"], ["z", "1"]], "a=b+c%26": [["a", "b c&"]]}
    tab = [v for v in tab if isinstance(v, dict) and "kind" in v]
    ctx.notes["exported_MCX_urlrec"] = len(tab)
    for v in tab:
        qb = bytes(v["q"])
        jobs.append(["urlrec", {"kind": "direct", "scheme": "http", "hostU": "h.example", "hostA": "h.example", "port": "",
                                "root": None if v["root"] == [-2] else _txt(v["root"]), "path": None if v["path"] == [-2] else _txt(v["path"]),
                                "q": list(qb), "pairs": qpairs[qb.decode("ascii")], "src": "model"}])
    urng = random.Random(ctx.seed * 7919 + 18)
    for _ in range(400 if q else 12000):
        jobs.append(["urlrec", dict(ir.gen_urlrec(urng), src="seeded")])
    for _ in range(500 if q else 15000):
        x, u, a = ir.gen_url_hostcase(urng)
        jobs.append(["iri", {"x": x, "hu": u, "ha": a, "src": "hostcase"}])
    hrng = random.Random(ctx.seed * 7919 + 17)    # own stream: the cases above stay what they were
    for _ in range(400 if q else 12000):
        jobs.append(["envhist", dict(ir.gen_history(hrng), src="history")])
    bounds = [0, 1, 0x7F, 0x80, 0xFF, 0x100, 0x7FF, 0x800, 0xD7FF, 0xE000, 0xFFFD, 0xFFFF, 0x10000, 0x10FFFF]
    for c in bounds:
        jobs.append(["dance", {"s": chr(c), "src": "boundary"}])
        for d in bounds:
            jobs.append(["dance", {"s": chr(c) + chr(d), "src": "boundary"}])
    for _ in range(300 if q else 5000):
        jobs.append(["dance", {"s": ir.gen_component(rng, "frag", 6, escapes=False), "src": "seeded"}])
    lines = _judge(ctx, jobs)
    shown = set()
    for job, ln in zip(jobs, lines):
        tag = (job[0], job[1]["src"])
        if tag in shown or not _nontrivial(job):
            continue
        shown.add(tag)
        outv = {k: _txt(v) for k, v in ln.items() if k in ("U", "I", "rurl", "rpath", "rhost", "app", "script1", "pinfo1", "d")}
        if job[0] == "urlrec":
            outv = {"urls": sorted({_txt(o["u"]) for o in ln.get("outs", [])})}
        ctx.sample({"job": job[0], "in": dict(job[1]), "out": outv}, limit=12)
    # ---- 4. the judge rejects a corrupted record (non-vacuity of the judge)
    x, u, a = "http://bücher.example/p%C3%A4th%2Fx?k=%26v#fr%C3%A4g", "bücher.example", "xn--bcher-kva.example"
    good = ir.rec_iri(x, u, a)
    bad = dict(good)
    for f in ("I", "II"):                    # pretend uri_to_iri had unquoted %2F in the path
        v = list(good[f])
        k = v.index(ord("%"))
        v[k:k + 3] = [ord("/")]
        bad[f] = v
    good["t"], good["i"], bad["t"], bad["i"] = 0, 0, 1, 0
    rej = ctx.judge(AREA, "IriTrace", [good, bad])
    ctx.notes["corrupted_record_rejected"] = sorted({r["clause"] for r in rej if r["t"] == 1})
    if [r for r in rej if r["t"] == 0]:
        ctx.violation("selftest:iri", rej[0]["clause"], {"job": ["iri", {"x": x, "hu": u, "ha": a}]}, kind="c15")
    elif not ctx.notes["corrupted_record_rejected"]:
        raise tlc.MachineryError("the judge accepted a corrupted uri_to_iri record")
    _growth(ctx)


def _split_host(h: str):
    name, sep, port = h.rpartition(":")
    return (name, port) if sep and port.isdigit() else (h, "")


def _key2(clause, job):
    return f"{clause}:{job[0]}:{job[1].get('src', 'seeded')}"


def _growth(ctx: Ctx):
    """from_environ round trip (EnvRT...) and Map.bind_to_environ (Bind...): spec/iri/EnvRoundTrip.tla"""
    q = ctx.quick
    ctx.rule += ("; (f) EnvironBuilder(...).get_environ() -> EnvironBuilder.from_environ -> get_environ() for paths / script roots "
                 "whose decoded form contains URL syntax ('?', '#', '%XX', tab/LF), query mappings, IDN hosts with ports, methods, "
                 "headers, body kinds and flags (TLC table + seeded); (g) Map.bind_to_environ on builder environs with a server_name "
                 "hint (equal, parent domain, other case, default / other port, IDN, unrelated), host_matching maps and WebSocket "
                 "upgrades (TLC table + seeded)")
    ctx.assumptions += [
        "from_environ round trip: claimed for environs whose PATH_INFO / SCRIPT_NAME are valid UTF-8, PATH_INFO not starting with "
        "'//', SCRIPT_NAME without trailing '/'; only PATH_INFO, SCRIPT_NAME, the decoded query pairs, HTTP_HOST / SERVER_NAME / "
        "SERVER_PORT and the scheme are verdicts, method / headers / content type+length / body / flags and REQUEST_URI are drift",
        "bind_to_environ: path_info, script_name, query_args, url_scheme and (without hint) server_name are verdicts; the subdomain "
        "decision table and the mismatch warning are drift only",
    ]
    # the five independent TLC runs of this part are started together (JVM start-up dominates the small ones)
    import concurrent.futures as cf
    xcfg = "MCX_envrt" if q else "MCX_envrt3"
    w = max(1, ctx.workers // 2)
    with cf.ThreadPoolExecutor(max_workers=5) as ex:
        f_mc = [ex.submit(ctx.model_check, AREA, "MCEnvRT", cfg, timeout=3000, workers=w)
                for cfg in (("MCQ_envrt", "MCQ_bind") if q else ("MCT_envrt", "MCT_bind"))]
        f_orig = ex.submit(tlc.run_tlc, AREA, "MCEnvRT", "MCQ_envrt_orig", workers=1, tmp=ctx.tmp, allow_violation=True, timeout=1200)
        f_x1 = ex.submit(ctx.export, AREA, "MCEnvRT", xcfg, count_states=False, timeout=3000)
        f_x2 = ex.submit(ctx.export, AREA, "MCEnvRT", "MCX_bind", count_states=False, timeout=3000)
        for f in f_mc:
            f.result()
        r = f_orig.result()
        tab_env, tab_bind = f_x1.result(), f_x2.result()
    ctx.notes["orig_from_environ_model_violates"] = r.invariant_violated
    if not r.invariant_violated:
        raise tlc.MachineryError("MCEnvRT/MCQ_envrt_orig: the pre-fix from_environ model no longer violates the round trip (vacuity)")
    jobs = []
    base = {"pairs": [], "scheme": "http", "hostU": "h.example", "hostA": "h.example", "use_ascii_host": True, "port": ""}
    cfg = xcfg
    tab = [v for v in tab_env if isinstance(v, dict) and "pi" in v]
    ctx.notes["exported_" + cfg] = len(tab)
    ctx.notes["exported_envrt_in_domain"] = sum(1 for v in tab if v["pdom"]) + sum(1 for v in tab if v["rdom"])
    for v in tab:
        jobs.append(["envrt", dict(base, path=_txt(v["p"]), root="", src="model-path")])
        jobs.append(["envrt", dict(base, path="/x", root=_txt(v["r"]), src="model-root")])
    tab = [v for v in tab_bind if isinstance(v, dict) and "sub" in v]
    ctx.notes["exported_MCX_bind"] = len(tab)
    k = 0
    for v in tab:
        host = _txt(v["host"])
        arg = None if v["arg"] == [-2] else _txt(v["arg"])
        if any(x.startswith(".") or ".." in x for x in (host, arg or "a")):
            continue   # Python's idna codec refuses empty inner labels (BadHost): TLC-only rows
        k += 1
        if q and k % 6:
            continue
        name, port = _split_host(host)
        if not name:
            continue
        jobs.append(["bind", dict(base, scheme=_txt(v["scheme"]), hostU=name, hostA=name, port=port, path="/p", root="", hm=False,
                                  arg=arg, ws=False, src="model")])
    rng = random.Random(ctx.seed * 7919 + 16)
    for _ in range(500 if q else 15000):
        jobs.append(["envrt", dict(ir.gen_envrt(rng), src="seeded")])
    for _ in range(500 if q else 15000):
        jobs.append(["bind", dict(ir.gen_bind(rng), src="seeded")])
    lines = pmap(ir.run_job2, jobs, workers=ctx.workers, chunksize=64)
    shown = set()
    for t, (job, ln) in enumerate(zip(jobs, lines)):
        ln["t"], ln["i"] = t, 0
        a = job[1]
        nt = ("%" in a["path"] + a["root"] or any(ord(c) > 127 for c in a["path"] + a["root"] + a["hostU"]) or bool(a["pairs"])
              or a.get("arg") is not None)
        ctx.count(1, (job[0], repr(a)) if nt else None)
        tag = (job[0], a["src"])
        if nt and tag not in shown:
            shown.add(tag)
            ctx.sample({"job": job[0], "in": dict(a), "out": {k2: _txt(v) for k2, v in ln.items()
                       if k2 in ("pi1", "pi2", "sn1", "sn2", "qs2", "host2", "pinfo", "script", "sname") or (k2 == "sub" and v != [-2])}}, limit=12)
    for r in ctx.judge(AREA, "EnvRTTrace", lines, batch=1500):
        ctx.violation(_key2(r["clause"], jobs[r["t"]]), r["clause"], {"job": jobs[r["t"]]}, kind="c15")
    # the judge rejects a corrupted record
    good = ir.rec_envrt(dict(base, path="/a%3Fb/é", root="/app", pairs=[["k", "v w"]]))
    bad = dict(good, pi2=good["pi2"][:-1])
    good["t"], good["i"], bad["t"], bad["i"] = 0, 0, 1, 0
    rej = ctx.judge(AREA, "EnvRTTrace", [good, bad])
    ctx.notes["corrupted_envrt_record_rejected"] = sorted({r["clause"] for r in rej if r["t"] == 1})
    for r in rej:
        if r["t"] == 0:
            ctx.violation(_key2(r["clause"], ["envrt", {"src": "selftest"}]), r["clause"],
                          {"job": ["envrt", dict(base, path="/a%3Fb/é", root="/app", pairs=[["k", "v w"]])]}, kind="c15")
    if not ctx.notes["corrupted_envrt_record_rejected"]:
        raise tlc.MachineryError("the judge accepted a corrupted from_environ record")


def replay(ctx: Ctx, data):
    job = data["case"]["job"]
    if job[0] in ("envrt", "bind"):
        ln = ir.run_job2(job)
        ln["t"], ln["i"] = 0, 0
        ctx.count(1, ("replay", 0))
        ctx.sample({"job": job})
        for r in ctx.judge(AREA, "EnvRTTrace", [ln]):
            ctx.violation(_key2(r["clause"], job), r["clause"], data["case"], kind="c15")
        return
    res = ir.run_job(job)
    group = res if isinstance(res, list) else [res]
    for i, ln in enumerate(group):
        ln["t"], ln["i"] = 0, i
    ctx.count(len(group), ("replay", 0))
    ctx.sample({"job": job})
    for r in ctx.judge(AREA, "IriTrace", group):
        ctx.violation(f"{r['clause']}:{job[0]}:{job[1].get('src', 'seeded')}", r["clause"], data["case"], kind="c15")
