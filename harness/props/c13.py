"""C13 -- cookie values round-trip and cannot inject attributes.

spec/cookie/Cookie.tla holds (1) the contract as relations over observables (value rendering: ASCII, every octet
outside the RFC 6265 cookie-octet set inside quotes and escaped, decoding to the UTF-8 bytes of the text; header =
pair + exactly the requested attributes, canonical spelling, fixed order) and (2) an implementation-shaped model of
dump_cookie and of the request cookie parser (_cookie_re scanner, strip, unslash).  TLC checks (2) against (1) for
every value over a representative alphabet plus a sweep of every byte value / class boundary code point, and over
attribute products (MCCookie); a variant with the pinned commit's escape class (0x00-0x19) must violate `Escaped`.
Spec -> code: the model's cases are exported and executed on the real code.  Code -> spec: model cases, a sweep of
boundary code points and seeded random cases are run through dump_cookie / Response.set_cookie, the header is parsed
back by sansio.http.parse_cookie, http.parse_cookie (environ) and the test client's jar; every recorded line is
judged by CookieTrace.tla (which also reports drift from the implementation-shaped model).  Random Cookie header
strings are additionally parsed by the real parser and compared with the scanner model (drift only, no verdict).

Growth: spec/cookie/ClientJar.tla models the test client's jar as a state machine (stored cookies keyed by (domain, path,
name), model clock; Set-Cookie set / overwrite / delete, redirect following, Client.set_cookie / delete_cookie / get_cookie).
TLC explores every history up to 3-4 steps and checks the contract on every transition (a live, undeleted cookie comes back
on every matching request, nothing is sent to a non-matching origin / path or after deletion, stored attributes are the
requested ones); broken matcher / delete variants must violate it.  The labelled transition system is exported and every
transition replayed on a real werkzeug.test.Client (echo app, patched clock); seeded random histories are recorded and
judged by ClientJarTrace.tla (clauses JarSM...).

Repository tests: tests/test_http.py, test_wrappers.py, test_test.py, sansio/test_utils.py (thorough: all of tests/) run under
harness/pytest_cookie_plugin.py; every dump_cookie call, parse_cookie call and Client session they make is judged (keys RepoTests...).
"""
from __future__ import annotations

from .. import cookie as ck
from .. import tlc
from ..core import Ctx, pmap

LEVEL = "model_checking"
AREA = "cookie"


def _dispatch(job):
    kind, case = job
    if kind == "rand":
        case = ck.rand_case(case)
    out = [ck.run_dump(case)]
    if kind not in ("model-attrs", "grammar") and ck.jar_eligible(case):
        out.append(ck.run_jar(case))
    return case, out


def _nontrivial(case):
    a = case["a"]
    return (ck.classes(case["value"]) != "cookie-octets" or a["path_set"] or a["dom_set"] or a["ma_kind"] != "none"
            or a["exp_kind"] != "none" or a["ss_set"] or a["secure"] or a["httponly"] or a["partitioned"])


def _key(clause, line):
    return f"{clause}:{line['flow']}:{ck.classes(line['value'])}"


def _model_cases(ctx, cfgs):
    jobs = []
    for cfg in cfgs:
        vals = [v for v in ctx.export(AREA, "MCCookie", cfg, count_states=False, timeout=1800) if isinstance(v, dict) and "key" in v]
        if not vals:
            raise tlc.MachineryError(f"export {cfg} produced no cases")
        kind = "model-values" if "values" in cfg else "model-attrs"
        for v in vals:
            jobs.append((kind, {"key": v["key"], "value": v["value"], "a": v["a"], "x": {"via": "dump_cookie"}}))
        ctx.notes.setdefault("model_cases_exported", {})[cfg] = len(vals)
    return jobs


# ---------------------------------------------------------------------- the test client's jar as a state machine
def _jar_paths(ctx, cfg, limit):
    """export the labelled transition system of MCClientJar and derive one history per transition (shortest path + the transition)"""
    import json

    recs = [v for v in ctx.export(AREA, "MCClientJar", cfg, count_states=False, timeout=1800) if isinstance(v, dict) and "pre" in v]
    if not recs:
        raise tlc.MachineryError(f"export {cfg} produced no transitions")

    def node(st):
        return json.dumps({"jar": sorted(json.dumps(c, sort_keys=True) for c in st["jar"]), "now": st["now"], "steps": st["steps"]}, sort_keys=True)

    reach = {}  # node -> list of steps of a shortest history (the step counter is part of the state: the graph is layered)
    init = node({"jar": [], "now": 1, "steps": 0})
    reach[init] = []
    recs.sort(key=lambda r: r["pre"]["steps"])
    hist = []
    for r in recs:
        pre, post = node(r["pre"]), node(r["post"])
        if pre not in reach:
            raise tlc.MachineryError("exported transition from an unreached state")
        h = reach[pre] + [ck.jar_step_from_model(r["act"])]
        reach.setdefault(post, h)
        hist.append(h)
    ctx.notes.setdefault("jar_lts", {})[cfg] = {"transitions": len(recs), "states": len(reach)}
    if len(hist) > limit:
        hist = ctx.rng.sample(hist, limit)
    return hist


def _jar_dispatch(job):
    kind, arg = job
    steps = ck.rand_jar_history(arg) if kind == "jar-rand" else arg
    return steps, ck.run_jar_history(steps)


def _jar_key(clause, ln):
    return f"{clause}:{ln['op']}"


def run_jar_sm(ctx: Ctx):
    q = ctx.quick
    ctx.rule += ("; jar state machine: histories (requests with/without Set-Cookie, followed redirects, Client.set_cookie / delete_cookie / "
                 "get_cookie, clock steps) on one werkzeug.test.Client = one per exported model transition (shortest path + transition) plus "
                 "seeded random histories over 6 hosts x 7 paths x 3 names x 11 values; non-trivial = history with >= 2 steps")
    ctx.assumptions += [
        "jar contract: domain / path matching as in RFC 6265 5.1.3 / 5.1.4 (what Client.set_cookie documents); Max-Age=0 or Expires=epoch deletes; "
        "expired cookies and Secure cookies over http may or may not be sent (the client documents that it ignores such parameters); a Set-Cookie "
        "whose Domain does not cover the responding host is outside the contract (rest of that history is not judged)",
        "the jar never reads a clock: the patched clock only drives dump_cookie's clock-derived Expires, which the stored cookie must show",
    ]
    import concurrent.futures as cf

    variants = (("MCJQ_nodot", "AllRequestsOK"), ("MCJQ_noslash", "AllRequestsOK"), ("MCJQ_keepdeleted", "DeleteSteps"))
    with cf.ThreadPoolExecutor(max_workers=3) as ex:  # the deliberately broken variants run next to the real model
        futs = {cfg: ex.submit(tlc.run_tlc, AREA, "MCClientJar", cfg, workers=2, tmp=ctx.tmp, allow_violation=True) for cfg, _ in variants}
        for cfg in ("MCJQ_real",) if q else ("MCJQ_real", "MCJT_real", "MCJT_deep"):
            ctx.model_check(AREA, "MCClientJar", cfg, timeout=3000)
        broken = {cfg: f.result().invariant_violated for cfg, f in futs.items()}
    for cfg, want in variants:
        if broken[cfg] != want:
            raise tlc.MachineryError(f"broken jar variant {cfg} no longer violates {want} (vacuity): {broken[cfg]}")
    ctx.notes["jar_broken_variants_violate"] = broken
    jobs = [("jar-model", h) for h in _jar_paths(ctx, "MCJX_q" if q else "MCJX_t", 1500 if q else 30000)]
    jobs += [("jar-rand", ctx.seed * 1000033 + i) for i in range(400 if q else 12000)]
    results = pmap(_jar_dispatch, jobs, workers=ctx.workers, chunksize=32)
    lines, hists = [], {}
    for t, (job, (steps, out)) in enumerate(zip(jobs, results)):
        hists[t] = steps
        for i, ln in enumerate(out):
            ln["t"], ln["i"], ln["flow"] = t, i, job[0]
            lines.append(ln)
        ctx.count(len(steps), ("jar", job[0], str(steps)) if len(steps) >= 2 else None)
    by = {(ln["t"], ln["i"]): ln for ln in lines}
    for rj in ctx.judge(AREA, "ClientJarTrace", lines, batch=3000, timeout=1800):
        ln = by[(rj["t"], rj["i"])]
        ctx.violation(_jar_key(rj["clause"], ln), rj["clause"], {"jar_history": hists[rj["t"]], "i": rj["i"]}, kind="c13-jar")
    ctx.notes["jar_lines"] = {f: sum(1 for ln in lines if ln["flow"] == f) for f in ("jar-model", "jar-rand")}
    if lines:
        ctx.sample({"kind": "jar history", "ops": [s["op"] for s in hists[len(hists) - 1]]})


# ---------------------------------------------------------------------- the repository's own tests, judged
REPO_TEST_FILES = ["tests/test_http.py", "tests/test_wrappers.py", "tests/test_test.py", "tests/sansio/test_utils.py"]


def repo_test_traces(ctx: Ctx):
    repo_tests_finish(ctx, repo_tests_start(ctx))


def repo_tests_start(ctx: Ctx):
    """start the repository's tests under the recording plugin (they run next to the other stages of the check)"""
    import os
    import subprocess
    import sys

    from ..core import REPO, VERIF

    out = os.path.join(ctx.tmp, "repo-cookie-records.json")
    env = dict(os.environ, VERIF_TRACE_OUT=out, PYTHONPATH=VERIF + os.pathsep + os.path.join(REPO, "src"), PYTHONDONTWRITEBYTECODE="1")
    files = REPO_TEST_FILES if ctx.quick else ["tests"]
    proc = subprocess.Popen([sys.executable, "-m", "pytest", "-q", "-p", "no:cacheprovider", "-p", "harness.pytest_cookie_plugin", "--no-header",
                             "-n", "0", *files], cwd=REPO, env=env, stdout=subprocess.PIPE, stderr=subprocess.STDOUT, text=True)
    return proc, out, files


def repo_tests_finish(ctx: Ctx, started):
    """judge what the repository's tests did under harness/pytest_cookie_plugin.py and judge what they did: every dump_cookie call by the
    header clauses of CookieTrace.tla (+ a parse-back of the recorded header), every parse_cookie call as drift against the scanner
    model, every Client with cookies as a ClientJar history."""
    import concurrent.futures as cf
    import json
    import os
    import subprocess
    from types import SimpleNamespace

    from ..core import cps

    proc, out, files = started
    try:
        stdout, _ = proc.communicate(timeout=1500)
    except subprocess.TimeoutExpired:
        proc.kill()
        raise tlc.MachineryError("the repository's tests did not finish under the recording plugin")
    p = SimpleNamespace(stdout=stdout or "", stderr="", returncode=proc.returncode)
    if not os.path.exists(out):
        raise tlc.MachineryError("recording the repository's tests produced no record file:\n" + (p.stdout + p.stderr)[-1500:])
    data = json.load(open(out))
    lines, src = [], {}
    for j, rec in enumerate(data["dumps"]):
        ln = ck.dump_line_from_record(rec)
        ln["t"], ln["i"] = f"rd{j}", 0
        lines.append(ln)
        src[ln["t"]] = {"test": rec["test"], "record": {k: rec[k] for k in ("key", "value", "a", "via", "hdr", "exc")}}
    for j, rec in enumerate(data["parses"]):
        if rec["exc"] or len(rec["s"]) > 200:
            data["skipped"]["parse_cookie: raised / longer than 200"] = data["skipped"].get("parse_cookie: raised / longer than 200", 0) + 1
            continue
        lines.append({"t": f"rp{j}", "i": 0, "op": "parse", "flow": "repo-tests:parse_cookie", "hdr": cps(rec["s"]),
                      "got": [[cps(k), cps(v)] for k, v in rec["got"]], "perr": ""})
    jl, jsrc = [], {}
    for j, s in enumerate(data["sessions"]):
        if not s["lines"]:
            continue
        t = f"rj{j}"
        jsrc[t] = s
        for i, ln in enumerate([{"op": "init", "a": dict(ck.JAR_A), "sent": [], "sent2": [], "found": False, "got": dict(ck.NO_GOT), "proj": [], "exc": ""}] + s["lines"]):
            ln["t"], ln["i"] = t, i
            jl.append(ln)
    n_dump = sum(1 for ln in lines if ln["op"] == "dump")
    n_parse = len(lines) - n_dump
    ctx.notes["repo_tests"] = {"files": files, "pytest_tail": (p.stdout.strip().splitlines() or [""])[-1][:120], "dump_calls_judged": n_dump,
                               "parse_calls_compared": n_parse, "client_sessions_judged": len(jsrc), "client_steps_judged": len(jl) - len(jsrc),
                               "client_sessions_recorded": len(data["sessions"]), "skipped_by_reason": data["skipped"]}
    if n_dump < 30 or n_parse < 20 or len(jl) - len(jsrc) < 50:
        raise tlc.MachineryError(f"too few records from the repository's tests: {ctx.notes['repo_tests']}")
    nrej = 0
    with cf.ThreadPoolExecutor(max_workers=2) as ex:  # two judge specs, two JVMs, side by side
        f1 = ex.submit(ctx.judge, AREA, "CookieTrace", lines, batch=2500)
        f2 = ex.submit(ctx.judge, AREA, "ClientJarTrace", jl, cfg="ClientJarRepo", batch=3000)
        rej1, rej2 = f1.result(), f2.result()
    for rj in rej1:
        nrej += 1
        ln = next(x for x in lines if x["t"] == rj["t"])
        ctx.violation(f"RepoTests{rj['clause']}:{ln['flow']}:{ck.classes(ln.get('value', []))}", "RepoTests" + rj["clause"],
                      {"repo_record": src.get(rj["t"]), "what": "dump_cookie call made by the repository's tests"}, kind="c13-repo")
    for rj in rej2:
        nrej += 1
        s = jsrc[rj["t"]]
        ctx.violation(f"RepoTests{rj['clause']}:{s['lines'][rj['i'] - 1]['op']}", "RepoTests" + rj["clause"],
                      {"test": s["test"], "i": rj["i"], "repo_jar_lines": s["lines"], "what": "Client session of the repository's tests"}, kind="c13-repo")
    ctx.notes["repo_tests"]["pytest_returncode"] = p.returncode
    if p.returncode != 0 and nrej == 0 and not ctx.violations:  # violations judged elsewhere in this run take precedence over this guard
        raise tlc.MachineryError("the repository's tests fail under the recording plugin and nothing was rejected:\n" + (p.stdout + p.stderr)[-1500:])
    ctx.count(n_dump + len(jl) - len(jsrc), None)
    for t in list(src)[:400]:
        ctx.nontrivial.add(("repo", t))
    for t in jsrc:
        ctx.nontrivial.add(("repo", t))


def run(ctx: Ctx):
    q = ctx.quick
    repo_started = repo_tests_start(ctx)
    ctx.rule = ("case = (token key, text value, attribute record) run through dump_cookie or Response.set_cookie, the header parsed back by "
                "sansio parse_cookie (whole header and the pair a user agent returns), http.parse_cookie(environ) and, where the path/domain "
                "allow a request to be formed, the test client's jar + next request; cases = TLC-exported model universe (values <= 2/3 chars over "
                "18 representative code points, every byte value and class-boundary code point alone and between letters, attribute products), a "
                "sweep of 400+ boundary code points in 6 contexts, an attribute-grammar product (Domain: leading dot(s) x port x 1-3 labels x script per position incl. IDN TLDs and mixed case x dump_cookie / Response.set_cookie / Response.delete_cookie / Client.set_cookie; Path: feature subsets over 1-3 segments; Expires / Max-Age: naive / aware datetimes in fixed offsets and zoneinfo zones at DST edges, int / float / 0 timestamps, string, absent x Max-Age int / timedelta / 0 / negative x process time zone UTC / EST+5 / Asia/Kolkata, with the jar's stored Cookie.expires / max_age read back after Client.set_cookie), seeded random values over all of Unicode weighted to quotes/separators/"
                "controls/attack strings with random attribute combinations; non-trivial = distinct case whose value has a character outside "
                "the cookie-octet set or that requests at least one attribute")
    ctx.assumptions += [
        "a space inside the quoted form may stay raw (tests/test_http.py::test_dump_cookie documents 'foo=\"bar baz blub\"'); every other octet outside cookie-octet must be escaped",
        "canonical attribute order is Domain, Expires, Max-Age, Secure, HttpOnly, Path, SameSite, Partitioned; attributes are joined by '; '",
        "IDNA of a non-ASCII label is a trusted input: the harness logs Python's idna codec applied to each BARE host label (never to the domain argument as a whole), with a built-in table of well-known pairs as fallback; the judge itself drops port and leading dots, splits the labels and assembles the canonical Domain (ASCII labels unchanged, case kept); domains are host names (no ';' or controls), keys are RFC 7230 tokens, values are sequences of Unicode scalar values (no lone surrogates)",
        "the Path attribute must be printable ASCII without ';' and percent-decode to the requested path; its exact quoting is only compared as model drift",
        "a clock-derived Expires (max_age given, expires not) must equal the HTTP date of clock+max_age for a clock reading between the instants recorded around the call (+-1 s)",
        "a naive datetime given as expires denotes UTC (documented); the requested instant is generated as (day number, second of day) and handed over as naive / aware datetime or timestamp by the harness; the expected IMF-fixdate is computed in TLA+ from that instant; the process time zone (TZ + tzset inside the worker, restored afterwards) must not change any emitted or stored value",
        "the jar path is exercised only for paths of unreserved characters and ASCII-lowercase hosts (so that a matching request can be formed without knowledge of the implementation)",
    ]
    for cfg in ("MCQ_values", "MCQ_attrsA", "MCQ_attrsB") if q else ("MCT_values4", "MCT_values5", "MCT_full", "MCQ_attrsA", "MCQ_attrsB"):
        ctx.model_check(AREA, "MCCookie", cfg, timeout=3000)
    ctx.exhaustive = True
    r = tlc.run_tlc(AREA, "MCCookie", "MCQ_orig", workers=ctx.workers, tmp=ctx.tmp, allow_violation=True)
    ctx.notes["model_with_pinned_escape_class_violates"] = r.invariant_violated
    if r.invariant_violated != "Escaped":
        raise tlc.MachineryError("model with the escape class 0x00-0x19 no longer violates Escaped (vacuity)")

    jobs = _model_cases(ctx, ("MCX_values", "MCX_attrsA", "MCX_attrsB") if q else ("MCXT_values", "MCX_attrsA", "MCX_attrsB"))
    jobs += [("sweep", c) for c in ck.sweep_cases()]
    # attribute grammar: Domain (dot x port x label count x scripts per position x call path) and Path feature products
    grammar = ck.domain_product(not q) + ck.path_product(not q) + ck.time_product(not q)
    jobs += [("grammar", c) for c in grammar]
    ctx.notes["attribute_grammar_cases"] = len(grammar)
    n = 2000 if q else 40000
    jobs += [("rand", ctx.seed * 1000003 + i) for i in range(n)]
    results = pmap(_dispatch, jobs, workers=ctx.workers, chunksize=64)
    lines, cases = [], {}
    for t, (job, (case, out)) in enumerate(zip(jobs, results)):
        nt = _nontrivial(case)
        for i, ln in enumerate(out):
            ln["t"], ln["i"] = t, i
            lines.append(ln)
            ctx.count(1, (ln["op"], str(case["key"]), str(case["value"]), str(sorted(case["a"].items()))) if nt else None)
        cases[t] = (job[0], case)
        if t % 2111 == 7:
            ctx.sample({"kind": job[0], "key": ck.text(case["key"]), "value": ck.text(case["value"])[:60].encode("unicode_escape").decode(),
                        "header": ck.text(out[0]["hdr"])[:160].encode("unicode_escape").decode(), "exc": out[0]["exc"]})
    # arbitrary Cookie header strings through the real parser: no verdict, binds the scanner model to the code (drift)
    base = len(jobs)
    for j in range(1500 if q else 20000):
        ln = ck.run_parse(ck.rand_cookie_string(ctx.seed * 7919 + j))
        ln["t"], ln["i"] = base + j, 0
        lines.append(ln)
        ctx.count(1)
    by = {(ln["t"], ln["i"]): ln for ln in lines}
    for rj in ctx.judge(AREA, "CookieTrace", lines, batch=2500, timeout=1800):
        ln = by[(rj["t"], rj["i"])]
        kind, case = cases[rj["t"]]
        ctx.violation(_key(rj["clause"], ln), rj["clause"], {"case": case, "op": ln["op"]}, kind="c13")
    ctx.notes["lines_by_flow"] = {f: sum(1 for ln in lines if ln["flow"] == f) for f in sorted({ln["flow"] for ln in lines})}
    run_jar_sm(ctx)
    repo_tests_finish(ctx, repo_started)


def replay(ctx: Ctx, data):
    if data.get("kind") == "c13-repo":
        # a call / session of the repository's tests: re-record the tests on the current tree and judge them again
        repo_test_traces(ctx)
        return
    if data.get("kind") == "c13-jar":
        out = ck.run_jar_history(data["case"]["jar_history"])
        for i, ln in enumerate(out):
            ln["t"], ln["i"] = 0, i
        ctx.count(len(out), "replay")
        ctx.sample({"kind": "jar history", "ops": [ln["op"] for ln in out]})
        for rj in ctx.judge(AREA, "ClientJarTrace", out):
            ctx.violation(_jar_key(rj["clause"], out[rj["i"]]), rj["clause"], data["case"], kind="c13-jar")
        return
    case, op = data["case"]["case"], data["case"]["op"]
    ln = ck.run_jar(case) if op == "jar" else ck.run_dump(case)
    ln["t"], ln["i"] = 0, 0
    ctx.count(1, "replay")
    ctx.sample({"key": ck.text(case["key"]), "value": ck.text(case["value"]).encode("unicode_escape").decode(),
                "header": ck.text(ln.get("hdr", [])).encode("unicode_escape").decode()})
    for rj in ctx.judge(AREA, "CookieTrace", [ln]):
        ctx.violation(_key(rj["clause"], ln), rj["clause"], data["case"], kind="c13")
