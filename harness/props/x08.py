"""X08 (extension area) -- werkzeug.exceptions, RequestRedirect, utils.redirect / append_slash_redirect:
an HTTPException is a WSGI application and a response factory.

Contract (spec/httpexc/HttpExc.tla; every clause quotes its sentence of docs/exceptions.rst, the class / function docstrings,
CHANGES.rst or the RFC the behaviour belongs to):
  registry   DocumentedCode, DefaultMapsBack, RegistryBijection / RegistryDocumented / RegistrySubclass
  abort      AbortExactClass, AbortUnknownCode (LookupError), AbortForwardsArguments, AbortProxy / AbortProxyResponse / AbortProxyRenders
  render     StatusLine, ContentType, Allow, ContentRange, WWWAuthenticate / WWWAuthenticateUnset, RetryAfter:int / :int-zero /
             :datetime, NoBodyForHead, ContentLength, BodyCharset, Doctype, BodyName, DescriptionShown / DescriptionEscaped,
             KeyErrorShown / KeyErrorHidden, ResponseReturnedDirectly / ResponseUnchanged, HeaderInjection, Raised, Pure
  redirects  RedirectStatus, Location (IRI -> URI), RedirectTargetShown / RedirectTargetEscaped, RedirectResponseClass,
             SlashAppended:<class of the last path segment> (RFC 3986 reference resolution gives PATH_INFO + "/")
  facts      WrapRemoved, KeyErrorAndBadRequest, OriginalException
What the documentation does not state (header order, the reason phrase of redirects, <br> for line breaks, Allow for an empty
list, copy / pickle support, abort(<plain WSGI callable>)) is compared with the implementation-shaped model as drift only.

1. TLC checks the implementation-shaped model (get_headers chain, page templates, Response finalisation, _find_exceptions,
   Aborter.__call__, redirect, append_slash_redirect) against the contract on bounded decision tables (MCHttpExc.tla: class x
   constructor arguments x way of rendering x method; redirect targets; every PATH_INFO of <= 4 (5) bytes over an alphabet
   with the URL delimiters; aborters x codes), plus the internal laws of the tables.  21 hand-broken variants must fail.
2. spec -> code: every case TLC enumerated is exported and executed on the real classes (harness/httpexc.py).
3. code -> spec: seeded random cases (descriptions with HTML / Unicode / CR LF, method lists, lengths beyond 2^63, datetimes of
   naive / UTC / fixed-offset / zoneinfo kinds, WWW-Authenticate values, IRIs, PATH_INFO byte strings, aborters).
Every recorded case is judged by HttpExcTrace.tla (TLC): failing clauses = verdicts; difference from the model = drift.
"""
from __future__ import annotations

import concurrent.futures as cf
import copy

from .. import httpexc as X
from .. import tlc
from ..core import Ctx, pmap

LEVEL = "model_checking"
AREA = "httpexc"

FAMILIES = ["render", "redirect", "slash", "abort"]
MUTANTS = {  # broken variant of the model -> table it is checked on
    "no_allow": "render", "retry_dt_seconds": "render", "unescaped_desc": "render", "orig_retry0": "render",
    "orig_slash": "slash", "location_raw": "redirect", "abort_subclass": "abort", "default_subclass": "render",
    "retry_dt_local": "render", "unescaped_name": "render", "www_joined": "render", "range_no_star": "render",
    "head_body": "render", "no_charset": "render", "response_ignored": "render", "impure": "render",
    "key_always_shown": "render", "unescaped_target": "redirect", "redirect_301": "redirect",
    "abort_drops_args": "abort", "abort_response_lookup": "abort",
}
QUICK_MUTANTS = ["no_allow", "retry_dt_seconds", "unescaped_desc", "orig_retry0", "orig_slash", "location_raw", "abort_subclass",
                 "default_subclass"]
LEAST_EXPORTED = {True: {"render": 1400, "redirect": 400, "slash": 800, "abort": 500},       # quick
                  False: {"render": 6000, "redirect": 3000, "slash": 50000, "abort": 500}}  # thorough


def _do(case):
    if case["op"] in ("static",):
        return None
    return X.run_case(case)


def _key(ln):
    return ln.get("c", {}).get("cls") or ln.get("c", {}).get("fn") or ln["op"]


def _sig(ln):
    """what makes two cases different for the coverage count"""
    op = ln["op"]
    if op == "render":
        c, o = ln["c"], ln["o"]
        return (op, c["cls"], c["arg"]["k"], len(c["arg"]["vs"]), c["desc"]["k"], c["via"], c["method"], c["resp"], o["exc"],
                tuple(sorted({X.txt(h["n"]).lower() for h in o["headers"]})))
    if op == "redirect":
        c, o = ln["c"], ln["o"]
        p = c["env"]["path"] if c["fn"] == "slash" else c["loc"]["path"]
        cls = ("n" if any(b >= 128 for b in p) else "") + ("r" if any(b in (35, 37, 63) for b in p) else "") + ("c" if 58 in p else "")
        return (op, c["fn"], c["code"], c["via"], c["method"], cls, bool(c["loc"]["scheme"]), c["loc"]["hasq"], c["loc"]["hasf"], o["exc"])
    if op == "abort":
        c, o = ln["c"], ln["o"]
        return (op, c["ab"]["k"], len(c["ab"]["map"]), c["what"], c["code"], c["fwd"], o["raised"])
    return (op, ln.get("s", {}).get("cls", ""))


def _nontrivial(ln):
    op = ln["op"]
    if op == "render":
        c = ln["c"]
        return c["arg"]["k"] not in ("none",) or c["desc"]["k"] != "none" or c["resp"] or c["method"] == "HEAD"
    return True


def _set_header(o, name, fn):
    """replace the values of a header in a recorded outcome; fn(list of values) -> new list"""
    keep = [h for h in o["headers"] if X.txt(h["n"]).lower() != name.lower()]
    vals = [X.txt(h["v"]) for h in o["headers"] if X.txt(h["n"]).lower() == name.lower()]
    o["headers"] = keep + [{"n": X.cps(name), "v": X.cps(v)} for v in fn(vals)]


def _corrupt(fx):
    """judge self-test: copies of recorded fixture cases with ONE recorded fact falsified -> [(name, fixture index, line, clause)]"""
    out = []

    def bad(i, name, clause, fn):
        ln = copy.deepcopy(fx[i])
        fn(ln["o"])
        if ln["o"] != fx[i]["o"]:
            out.append((name, i, ln, clause))

    def body_sub(a, b):
        return lambda o: o.update(body=X.cps(X.txt(o["body"]).replace(a, b)))

    bad(0, "allow_dropped", "Allow", lambda o: _set_header(o, "Allow", lambda v: []))
    bad(0, "allow_other_methods", "Allow", lambda o: _set_header(o, "Allow", lambda v: ["GET, POST"]))
    bad(0, "description_unescaped", "DescriptionShown", body_sub("&lt;b&gt;", "<b>"))
    bad(0, "description_raw_copy", "DescriptionEscaped", lambda o: o.update(body=o["body"] + X.cps("no <b>way</b> & \"so\"")))
    bad(0, "status_not_upper", "StatusLine", lambda o: o.update(status=X.cps("405 Method Not Allowed")))
    bad(0, "charset_missing", "ContentType", lambda o: _set_header(o, "Content-Type", lambda v: ["text/html"]))
    bad(0, "second_rendering_differs", "Pure", lambda o: o.update(sig2="0" * 16))
    bad(0, "content_length_off", "ContentLength", lambda o: _set_header(o, "Content-Length", lambda v: [str(int(v[0]) + 1)]))
    bad(1, "retry_after_seconds", "RetryAfter:datetime", lambda o: _set_header(o, "Retry-After", lambda v: ["67936"]))
    bad(1, "retry_after_other_day", "RetryAfter:datetime", lambda o: _set_header(o, "Retry-After", lambda v: ["Sun, 05 Jan 2020 18:52:16 GMT"]))
    bad(2, "www_joined", "WWWAuthenticate", lambda o: _set_header(o, "WWW-Authenticate", lambda v: [", ".join(v)]))
    bad(2, "head_with_body", "NoBodyForHead", lambda o: o.update(body=X.cps("x"), blen=1))
    bad(3, "location_raw_iri", "Location", lambda o: _set_header(o, "Location", lambda v: ["http://ex.com/påth/<x>?q=èry"]))
    bad(3, "redirect_other_status", "RedirectStatus", lambda o: o.update(status=X.cps("302 FOUND")))
    bad(3, "target_unescaped", "RedirectTargetShown", body_sub("&lt;x&gt;", "<x>"))
    bad(4, "slash_missing", "SlashAppended:plain", lambda o: _set_header(o, "Location", lambda v: ["42?a=1"]))
    bad(4, "slash_query_lost", "SlashAppended:plain", lambda o: _set_header(o, "Location", lambda v: ["42/"]))
    bad(5, "abort_subclass", "AbortExactClass", lambda o: o.update(raised="BadRequestKeyError"))
    bad(5, "abort_description_lost", "AbortForwardsArguments", lambda o: o.update(dtext=[]))
    return out


def judge_cases(ctx: Ctx, cases, kind, extra_lines=(), selftest=False):
    t0 = ctx.elapsed()
    lines = [ln for ln in pmap(_do, cases, workers=ctx.workers, chunksize=64) if ln is not None]
    lines += list(extra_lines)
    ctx.notes["wall_real_code_s"] = round(ctx.notes.get("wall_real_code_s", 0) + ctx.elapsed() - t0, 1)
    for t, ln in enumerate(lines):
        ln["t"], ln["i"] = t, 0
        if "excmsg" in ln.get("o", {}):
            ln["o"]["excmsg"] = ln["o"]["excmsg"].encode("ascii", "replace").decode()
    corrupted = _corrupt(lines[:len(X.fixtures())]) if selftest else []
    for k, (_, _, ln, _) in enumerate(corrupted):
        ln["t"] = len(lines) + k
    t0 = ctx.elapsed()
    ndrift = len(ctx.model_drift)
    rejects = ctx.judge(AREA, "HttpExcTrace", lines + [x[2] for x in corrupted], batch=1000 if ctx.quick else 4000)
    ctx.notes["wall_judge_s"] = round(ctx.notes.get("wall_judge_s", 0) + ctx.elapsed() - t0, 1)
    kinds = ctx.notes.setdefault("model_drift_kinds", {})
    for d in ctx.model_drift[ndrift:]:
        if d.get("t", 0) < len(lines):
            d["case"] = _key(lines[d["t"]])
            kinds[f"{d['what']}:{d['case']}"] = kinds.get(f"{d['what']}:{d['case']}", 0) + 1
    by_t = {}
    for r in rejects:
        by_t.setdefault(r["t"], set()).add(r["clause"])
    if selftest:
        res = {}
        for k, (name, fi, _, clause) in enumerate(corrupted):
            if fi in by_t:           # the tree under test already breaks this fixture: reported below, nothing to self-test
                continue
            res[name] = clause in by_t.get(len(lines) + k, set())
        ctx.notes["corrupted_lines_rejected"] = res
        if not all(res.values()) or (len(res) < 6 and not any(t < len(X.fixtures()) for t in by_t)):
            raise tlc.MachineryError(f"judge self-test: {len(corrupted)} corrupted lines, rejected as expected: {res}")
        ctx.traces -= len(corrupted)
    for ln in lines:
        ctx.count(1)
        if _nontrivial(ln):
            ctx.nontrivial.add(_sig(ln))
    for r in rejects:
        if r["t"] >= len(lines):
            continue
        ln = lines[r["t"]]
        clause = r["clause"]
        key = clause if ":" in clause else f"{clause}:{_key(ln)}"
        ctx.violation(key, clause, ln.get("c") or {"op": ln["op"]}, kind=kind)
    return lines


def _show(ln):
    op = ln["op"]
    if op not in ("render", "redirect"):
        return {k: v for k, v in ln.items() if k in ("op", "s", "f")} if op != "abort" else {
            "op": op, "aborter": ln["c"]["ab"], "code": ln["c"]["code"], "what": ln["c"]["what"], "raised": ln["o"]["raised"]}
    c, o = ln["c"], ln["o"]
    d = {"op": op, "method": c["method"], "via": c["via"], "status": X.txt(o["status"]), "exc": o["exc"],
         "headers": [[X.txt(h["n"]), X.txt(h["v"])] for h in o["headers"]], "body": X.txt(o["body"])[:300]}
    if op == "render":
        a = c["arg"]
        d.update(cls=c["cls"], description=[c["desc"]["k"], X.txt(c["desc"]["v"])], response=c["resp"],
                 arg={"k": a["k"], "vs": [X.txt(v) for v in a["vs"]], "n": "".join(map(str, a["n"])), "units": X.txt(a["units"]),
                      "dt": a["dt"], "tz": a.get("tz", ""), "key": X.txt(a["key"]), "show": a["show"]})
    else:
        d.update(fn=c["fn"], code=c["code"], location=X.loc_text(c["loc"]),
                 environ={k: bytes(v).decode("latin-1") for k, v in c["env"].items()})
    return d


class _Tlc:
    """TLC processes side by side with the replay / judge pipeline; bookkeeping in the caller's thread (collect)"""

    def __init__(self, ctx: Ctx, runs):
        self.ctx, self.runs = ctx, runs
        per = max(2, min(8, ctx.workers // 2)) if len([r for r in runs if r[2] == "check"]) == 1 else max(2, min(4, ctx.workers // 4))
        self.ex = cf.ThreadPoolExecutor(max_workers=max(4, ctx.workers // 2))

        def one(run):
            tag, cfg, mode = run
            return tlc.run_tlc(AREA, "MCHttpExc", cfg, workers=per if mode == "check" else 1 if mode == "export" else 2, tmp=ctx.tmp, timeout=3000,
                               allow_violation=(mode == "mutant"), extra=["-nowarning"])
        self.fut = {r[0]: self.ex.submit(one, r) for r in sorted(runs, key=lambda r: {"export": 0, "check": 1, "mutant": 2}[r[2]])}
        self.done = set()

    def collect(self, tags=None):
        ctx, out = self.ctx, {}
        for tag, cfg, mode in self.runs:
            if tag in self.done or (tags is not None and tag not in tags):
                continue
            try:
                r = self.fut[tag].result()
            except BaseException:
                self.ex.shutdown(wait=False, cancel_futures=True)
                raise
            self.done.add(tag)
            out[tag] = r
            if mode == "mutant":
                failing = sorted({v["failing"] for v in r.printed if isinstance(v, dict) and "failing" in v})
                ctx.notes.setdefault("broken_model_variants_rejected", {})[cfg[4:]] = [r.invariant_violated] + failing
                if not r.invariant_violated:
                    raise tlc.MachineryError(f"broken model variant {cfg} satisfies the contract: the clauses are vacuous")
                continue
            if mode == "check":
                ctx.states += r.distinct
                ctx.transitions += r.generated
            ctx.model_runs.append({"spec": f"{AREA}/MCHttpExc", "cfg": cfg, "distinct": r.distinct, "generated": r.generated,
                                   "depth": r.depth, "wall_s": round(r.wall_s, 1),
                                   **({"exported": len([v for v in r.printed if isinstance(v, dict) and "op" in v])} if mode == "export" else {})})
        if len(self.done) == len(self.runs):
            self.ex.shutdown()
        return out


def _expand_exported(cases):
    """the table has no time-zone kind and no call style: a UTC date is replayed as naive and as aware, `valid_methods` absent
    and explicitly None, lists and tuples"""
    out = []
    for c in cases:
        out.append(c)
        if c["op"] == "render":
            a = c["arg"]
            if a["k"] == "t_dt" and a["dt"][6] == 0:
                out.append(dict(copy.deepcopy(c), arg=dict(a, tz="naive")))
            if a["k"] == "m_none":
                out.append(dict(copy.deepcopy(c), style="explicit"))
            if a["k"] == "w_list" and len(a["vs"]) == 2:
                out.append(dict(copy.deepcopy(c), style="tuple"))
            if a["k"] == "none" and c["desc"]["k"] == "text" and not c["resp"]:
                out.append(dict(copy.deepcopy(c), style="positional"))
        elif c["op"] == "redirect" and c["fn"] == "redirect" and c["code"] == 302 and not c["rcls"]:
            out.append(dict(copy.deepcopy(c), dflt=True))
        elif c["op"] == "redirect" and c["fn"] == "slash" and c["code"] == 308 and len(c["env"]["path"]) <= 3:
            out.append(dict(copy.deepcopy(c), dflt=True))
        elif c["op"] == "abort" and c["ab"]["k"] == "default":
            out.append(dict(copy.deepcopy(c), style="aborter"))
    return out


def run(ctx: Ctx):
    q = ctx.quick
    ctx.rule = ("case = one real exception / redirect / abort call: (class, constructor arguments, response= or not, way of rendering, "
                "request method) rendered through a PEP 3333 server stub, either enumerated by TLC or seeded random; non-trivial = "
                "distinct (class, argument kind and count, description kind, way, method, response=, exception, header name set) "
                "with a class-specific argument, a description, a passed response or HEAD; redirects: distinct (function, code, way, "
                "method, character classes of the target / PATH_INFO, URL parts present); abort: distinct (aborter kind, mapping "
                "size, code, forwarding style, raised class)")
    ctx.assumptions += [
        "markupsafe.escape emits &amp; &lt; &gt; &#34; &#39; (the installed markupsafe; part of the environment, not of the code under test)",
        "descriptions are judged line by line (what a line break becomes is not documented); a raw line that needs escaping may occur "
        "in the page only where the correctly escaped page contains it too",
        "Allow / Content-Range are claimed for RFC 7230 tokens (no comma, no blanks at the ends); arguments with CR / LF bound for "
        "a header must end in ValueError or in headers without CR / LF; Retry-After dates for years 2..9998",
        "Location is claimed for http(s) URLs with an ASCII host and for relative references whose first segment has no colon, "
        "without control characters, edge blanks and brackets; redirect status only for the six documented codes",
        "append_slash_redirect is claimed for PATH_INFO that starts with '/', does not end with '/', whose last segment is not a "
        "dot segment, and an already encoded QUERY_STRING; joining is RFC 3986 5.2 (a relative-path reference replaces the last "
        "segment), PATH_INFO is the percent-decoded path",
        "rendering twice (Pure) is claimed for list / tuple arguments, not for one-shot iterables",
        "the committed model follows fixes/X08-retry-after-zero.diff and fixes/X08-append-slash-redirect-unquoted-tail.diff; the "
        "two pre-fix behaviours are kept as broken model variants (orig_retry0, orig_slash)",
    ]
    fams = ["all"] if q else FAMILIES          # quick: the four tables in one TLC process (fewer JVM starts)
    runs = [("x_" + f, ("MCX_" if q else "MCXT_") + f, "export") for f in fams]
    runs += [("mc_" + f, ("MCQ_" if q else "MCT_") + f, "check") for f in fams]
    for m in (QUICK_MUTANTS if q else list(MUTANTS)):
        runs.append(("m_" + m, "MCB_" + m, "mutant"))
    bg = _Tlc(ctx, runs)

    # 3. code -> spec, while TLC enumerates the tables
    cases = X.fixtures() + X.random_cases(ctx.seed, 2000 if q else 60000)
    lines = judge_cases(ctx, cases, "random", extra_lines=X.static_lines(), selftest=True)
    nfix = len(X.fixtures())
    samples = lines[nfix:: max(1, len(lines) // 3)][:3]

    # 2. spec -> code
    res = bg.collect({"x_" + f for f in fams})
    cases = [v for f in fams for v in res["x_" + f].printed if isinstance(v, dict) and v.get("op") in ("render", "redirect", "abort")]
    for f in FAMILIES:
        n = len([c for c in cases if (c.get("fn") == "slash") == (f == "slash") and c["op"] == ("redirect" if f == "slash" else f)])
        ctx.notes["exported_" + f] = n
        if n < LEAST_EXPORTED[q][f]:
            raise tlc.MachineryError(f"export {f}: only {n} cases")
    cases = _expand_exported(cases)
    ctx.notes["exported_cases_replayed"] = len(cases)
    lines = judge_cases(ctx, cases, "exported")
    samples += lines[:: max(1, len(lines) // 3)][:3]
    bg.collect()
    ctx.exhaustive = True
    for ln in samples:
        ctx.sample(_show(ln))


def replay(ctx: Ctx, data):
    ctx.nontrivial.update({("replay", 0), ("replay", 1)})
    case = data["case"]
    if case.get("op") in ("static", "registry", "facts"):
        lines = judge_cases(ctx, [], data.get("kind") or "replay", extra_lines=X.static_lines())
    else:
        lines = judge_cases(ctx, [case], data.get("kind") or "replay")
    ctx.sample(_show(lines[0]))
