"""X09 (extension area) -- werkzeug.utils.send_file (send_from_directory, and the header logic of SharedDataMiddleware) as a
decision procedure from (path_or_file kind, mimetype, as_attachment, download_name, conditional, etag, last_modified, max_age,
use_x_sendfile, response_class, environ) and the environment (file system, mimetypes table, Unicode database, clock) to the
WSGI response.

Contract (spec/sendfile/SendFile.tla, every clause with the documentation sentence it comes from): Raises/NoMimetype,
Raises/AttachmentNoName, Raises/TextMode, ContentType/{Missing,Type,Charset}, ContentEncoding/{Attachment,Invented,Value,Detected},
Disposition/{Missing,NoInjection,WellFormed,Type,Params,Filename,ExtCharset,ExtValueChars,ExtDenotesName,FallbackAscii,
FallbackDenotesName,InventedName}, ContentLength, LastModified/{Invented,Missing,Argument,Mtime}, Etag/{Off,Given,Generated,Stable},
CacheControl/{Missing,NoCache,MaxAge,Public}, MaxAgeCallable/{NotCalled,Argument}, XSendfile/{Header,Body,Unrequested},
ResponseClass, FileWrapper/Ignored, the C11 clauses for conditional / range outcomes (Conditional.tla reused unchanged:
Sound304, Complete304, Sound412, Is416, Only416, FullOn200/.., Range..), FileClosed/{OnRaise,On304,AfterClose,UserFile}, NotFound
(send_from_directory), Sdm/.. (SharedDataMiddleware: type + charset, Content-Length, Last-Modified, caching headers with
cache=True, Sdm/NoCachingHeaders with cache=False, 304 + file closed, forwarding).

1. TLC model-checks MCSendFile: a behaviour is one call (Init picks arguments + environment; Call / Serve / Close follow the
   response through the WSGI server); the implementation-shaped decision procedure (send_file written like the code; the
   conditional part is the C11 model MCConditional!ImplObs instantiated on this call) must satisfy the contract for the whole
   universe (families names / cache / errors / sdm), must show no drift but the known one, and must satisfy the internal laws
   (LawStarDenotesName, LawRoundTrip, LawPresence, LawLifecycle, ASSUME LawDates).  23 hand-broken variants (filename* not
   percent-encoded, as_attachment ignored, max_age callable without the path, file left open on 304 / 416, ...) must FAIL.
2. spec -> code: the model's rows (call + final observation) are exported from TLC and replayed on the real send_file /
   send_from_directory / SharedDataMiddleware over a temporary tree with the model's file names; the recorded outcome is
   judged by TLC (SendFileTrace.tla) and compared with the row (differences are drift, not verdicts).
3. code -> spec: the documented situations, a code point sweep through download_name / real file names, SharedDataMiddleware
   requests, and seeded random argument combinations, all judged by SendFileTrace.tla.  Python records, TLC decides.
"""
from __future__ import annotations

import concurrent.futures as cf
import copy
import os
import random
import re
from collections import Counter

from .. import sendfile as sf
from .. import tlc
from ..core import Ctx
from ..tlc import MachineryError

LEVEL = "model_checking"
AREA = "sendfile"
MC = "MCSendFile"
JUDGE = "SendFileTrace"

# every model run checks the invariants AND prints its rows (INVARIANT Export); the rows are replayed on the real code
MODELS_QUICK = ["MCQ_names", "MCQ_cache", "MCQ_errors", "MCQ_sdm"]
MODELS_THOROUGH = ["MCT_names", "MCT_cache", "MCT_errors", "MCQ_sdm"]
# deliberately wrong models: cfg -> the clause of the contract that must be reported violated
BROKEN = {
    "MCV_star_raw": "Disposition/ExtValueChars",            # filename* not percent-encoded
    "MCV_att_ignored": ("Disposition/Type", "Raises/AttachmentNoName"),   # attachment flag ignored
    "MCV_ma_nopath": "MaxAgeCallable/Argument",              # max_age callable not called with the path
    "MCV_open304": "FileClosed/On304",                       # file left open on 304
    "MCV_sdm_public_nocache": "Sdm/NoCachingHeaders",        # SharedDataMiddleware(cache=False) as it was found (fixes/X09-*.diff)
    "MCV_quote_unescaped": "Disposition/WellFormed",         # a quote in the name ends the quoted-string
    "MCV_open416": "FileClosed/OnRaise",
    "MCV_ma_pathlike": "MaxAgeCallable/Argument",
    "MCV_no_charset": "ContentType/Charset",
    "MCV_ce_on_attachment": "ContentEncoding/Attachment",
    "MCV_cl_missing": "ContentLength",
    "MCV_etag_off_ignored": "Etag/Off",
    "MCV_lm_arg_ignored": "LastModified/",
    "MCV_public_always": "CacheControl/NoCache",
    "MCV_xsf_reads": "XSendfile/Body",
    "MCV_class_ignored": "ResponseClass",
    "MCV_fw_ignored": "FileWrapper/Ignored",
    "MCV_dn_type_path": "ContentType/Type",
    "MCV_nomime_default": "Raises/NoMimetype",
    "MCV_text_accepted": "Raises/TextMode",
    "MCV_sfd_nocheck": "NotFound",
    "MCV_sdm_open304": "Sdm/FileClosed/On304",
    "MCV_sdm_nocharset": "Sdm/ContentType/Charset",
}
BROKEN_QUICK = list(BROKEN)[:6]
# the internal laws are not vacuous either: cfg -> the law a broken variant must violate (thorough tier)
LAW_BROKEN = {"MCL_presence": "LawPresence", "MCL_lifecycle": "LawLifecycle", "MCL_star": "LawStarDenotesName", "MCL_roundtrip": "LawRoundTrip"}
SMALL = "MCS_small"          # the universes the broken variants run on, without a defect: must pass
_CLAUSE_RE = re.compile(r'<<"clause", "([^"]+)"')


def _strip(case: dict) -> dict:
    return {k: v for k, v in case.items() if k != "exp"}


def record(ctx: Ctx, cases, root, pool=None):
    sf.prepare(cases, root)
    chunks = [(cases[i:i + 100], root) for i in range(0, len(cases), 100)]
    if pool is not None and len(cases) > 600:
        recs = pool.map(sf.run_cases, chunks, chunksize=1)
    else:
        recs = [sf.run_cases(ch) for ch in chunks]
    lines = []
    for chunk in recs:
        for ln in chunk:
            ln["t"], ln["i"] = len(lines), 0
            lines.append(ln)
    return lines


def observe(ctx: Ctx, cases, lines, seen: Counter):
    for t, (c, ln) in enumerate(zip(cases, lines)):
        ctx.count(1)
        st = ln["status"]
        seen[f"status_{st}"] += 1
        if ln["exc"]:
            seen["exc_" + ln["exc"]] += 1
        if ln["op"] == "sdm":
            seen["sdm_304"] += st == 304
            seen["sdm_passed"] += ln["passed"]
            seen["sdm_nocache"] += (not ln["cache"]) and st == 200
            if st in (200, 304) and not ln["passed"]:
                ctx.nontrivial.add(("sdm", tuple(ln["name"]), ln["cache"], ln["timeout"], ln["method"], ln["inm_p"], ln["ims_p"], st))
            continue
        cd = sf.txt(ln["h_cd"])
        seen["filename_star"] += "filename*=" in cd
        seen["filename_quoted"] += 'filename="' in cd
        seen["attachment"] += cd.startswith("attachment")
        seen["content_encoding"] += ln["h_ce_n"] > 0
        seen["charset_added"] += sf.txt(ln["h_ct"]).endswith("charset=utf-8")
        seen["x_sendfile"] += ln["h_xsf_n"] > 0
        seen["max_age_called_with_path"] += any(a["k"] == "str" for a in ln["ma_calls"])
        seen["max_age_called_with_none"] += any(a["k"] == "none" for a in ln["ma_calls"])
        seen["public"] += "public" in sf.txt(ln["h_cc"])
        seen["file_wrapper_used"] += ln["fw_used"]
        seen["file_object_closed"] += ln["user_closed"]
        seen["opened_then_304"] += ln["opened"] > 0 and st == 304
        seen["opened_then_416"] += ln["opened"] > 0 and st == 416
        seen["subclass"] += ln["rclass"] == "sub" and not ln["exc"]
        seen["name_with_newline_refused"] += ln["exc"] == "ValueError" and (10 in ln["dn"] or 13 in ln["dn"] or 10 in ln["path"] or 13 in ln["path"])
        seen["last_modified_argument"] += ln["lm_mode"] != "none" and ln["h_lm_n"] > 0
        seen["etag_given"] += ln["etag_mode"] == "given" and ln["h_etag_n"] > 0
        seen["not_found"] += ln["exc"] == "NotFound"
        if ln["exc"] or st != 200 or ln["h_cd_n"] or ln["h_ce_n"] or ln["h_xsf_n"] or ln["ma_calls"]:
            name = tuple(ln["dn"]) if ln["dn_p"] else tuple(ln["path"][-12:])
            ctx.nontrivial.add((ln["api"], ln["kind"], name, tuple(ln["mt"]), ln["att"], ln["cond"], ln["etag_mode"], ln["lm_mode"], ln["ma_mode"],
                                ln["ma"], ln["xsf"], ln["rclass"], ln["fw"], ln["method"], tuple(ln["inm"]), tuple(ln["ims"]), tuple(ln["range"]),
                                tuple(ln["ifr"]), tuple(ln["im"]), st, ln["exc"]))
        if t % 997 == 11:
            ctx.sample(sf.describe(c, ln))


def judge(ctx: Ctx, cases, lines, kind="x09"):
    group = 8 * 1500
    for a in range(0, len(lines), group):
        part = lines[a:a + group]
        for r in ctx.judge(AREA, JUDGE, part, batch=1500):
            c = cases[r["t"]]
            if r["clause"] == "OutOfDomain":
                raise MachineryError(f"driver produced a case outside the judged domain: {_strip(c)!r}")
            info = r.get("info", {})
            key = ":".join([r["clause"], str(info.get("api", "-")), str(info.get("kind", "-")), str(info.get("name", "-")),
                            str(info.get("status", 0)), str(info.get("method", "-"))])
            ctx.violation(key, r["clause"], {"case": _strip(c), "observed": sf.describe(c, lines[r["t"]])}, kind=kind)


def canaries(ctx: Ctx, root):
    """deliberately corrupted recorded fields: the judge must reject every one of them (with the clause named)"""
    good = sf.run_case({"kind": "pathlike", "file": "naïve café.txt", "att": True, "ma_mode": "call", "ma": 60}, root)
    good304 = sf.run_case({"kind": "path", "file": "a.txt", "rq": "inm_match"}, root)
    if good["exc"] or good["status"] != 200 or good304["status"] != 304:
        return {"skipped": "the base calls do not answer 200 / 304 on this tree"}
    out = []

    def corrupt(base, clause, **changes):
        ln = copy.deepcopy(base)
        ln.update(changes)
        out.append((clause, ln))

    raw = sf.cps("attachment; filename=\"naive cafe.txt\"; filename*=UTF-8''naïve café.txt")
    corrupt(good, "Disposition/ExtValueChars", h_cd=raw)
    corrupt(good, "Disposition/Type", h_cd=sf.cps(sf.txt(good["h_cd"]).replace("attachment", "inline", 1)))
    corrupt(good, "Disposition/ExtDenotesName", h_cd=sf.cps(sf.txt(good["h_cd"]).replace("%C3%AF", "%C3%AE")))
    corrupt(good, "MaxAgeCallable/Argument", ma_calls=[{"k": "none", "v": []}])
    corrupt(good, "FullOn200/Body", body=good["body"][:-1] + [good["body"][-1] ^ 1])
    corrupt(good, "FileClosed/AfterClose", open_end=1)
    corrupt(good, "ContentType/Charset", h_ct=sf.cps("text/plain"))
    corrupt(good304, "FileClosed/On304", open_end=1)
    corrupt(good304, "Sound304", inm=sf.cps('"other"'))
    lines = []
    for t, ln in enumerate([good, good304] + [x for _, x in out]):
        ln = dict(ln)
        ln["t"], ln["i"] = t, 0
        lines.append(ln)
    before = (ctx.traces, len(ctx.model_drift))
    rej = {r["t"]: r["clause"] for r in ctx.judge(AREA, JUDGE, lines, batch=1500)}
    ctx.traces = before[0]                      # canaries are not evidence about the code
    del ctx.model_drift[before[1]:]
    if 0 in rej or 1 in rej:                    # the uncorrupted lines are rejected themselves: reported by the drivers, nothing to show here
        return {"skipped": "the base lines are rejected on this tree"}
    res = {}
    for t, (clause, _) in enumerate(out, start=2):
        res[clause] = rej.get(t)
        if rej.get(t) != clause:
            raise MachineryError(f"corrupted recorded field not rejected as {clause!r} (got {rej.get(t)!r}): the judge may be vacuous")
    return res


def code_to_spec_cases(ctx: Ctx):
    rng = random.Random(ctx.seed)
    cases = sf.documented_cases() + sf.sweep_cases() + sf.sdm_cases()
    cases += [sf.random_case(rng) for _ in range(1500 if ctx.quick else 40000)]
    return cases


def _tlc_job(ctx: Ctx, cfg: str, workers: int, allow: bool):
    return cfg, tlc.run_tlc(AREA, MC, cfg, workers=workers, tmp=ctx.tmp, allow_violation=allow, timeout=3000)


def _compact_drift(ctx: Ctx):
    """the judge prints one summary record per batch: aggregate them, keep the row differences"""
    kinds: dict = {}
    rows, other = 0, []
    for d in ctx.model_drift:
        if d.get("what") == "summary":
            rows += d.get("rows", 0)
            for _, (what, n, t) in sorted(d.get("kinds", {}).items()):
                k = kinds.setdefault(what, {"drift": 1, "what": what, "lines": 0})
                k["lines"] += n
        else:
            other.append(d)
    ctx.model_drift[:] = other[:12] + sorted(kinds.values(), key=lambda k: -k["lines"])
    ctx.notes["drift_counts"] = {k["what"]: k["lines"] for k in kinds.values()}
    ctx.notes["model_rows_that_differ"] = rows


def run(ctx: Ctx):
    q = ctx.quick
    ctx.rule = ("case = one call of send_file / send_from_directory (or one request through SharedDataMiddleware) over a temporary tree, "
                "preceded by the same call with a bare GET (the validators a client would echo), run through the WSGI protocol and "
                "closed like a server does; cases: every row exported from the TLC model (families names / cache / errors / sdm), the "
                "documented situations (every tree name x attachment / PathLike + max_age callable / BytesIO / send_from_directory, "
                "every kind x mimetype x download_name x attachment, x request class x etag mode (+ X-Sendfile + file_wrapper), x "
                "max_age forms, x last_modified types, x conditional, sizes 0..9000), a sweep of 155 code points through download_name "
                "and real file names, SharedDataMiddleware x cache x request class, seeded random argument combinations. non-trivial "
                "= distinct (arguments, request texts, status, exception) with an exception, a status other than 200, or a "
                "Content-Disposition / Content-Encoding / X-Sendfile header or a max_age call")
    ctx.assumptions += [
        "mimetypes.guess_type, unicodedata (NFKD) and os.stat are environment: their results are recorded next to the call (standard "
        "library, not werkzeug) and the judge computes from them",
        "the file pointer of a file object is at the start of the data (docstring: 'Make sure the file pointer is seeked to the start')",
        "mimetype arguments are bare lower-case types without parameters; etag strings contain no double quote; max_age >= 0; "
        "last_modified between 1990 and 2037; file names are valid UTF-8 (no surrogate escapes); POSIX paths",
        "which ASCII replacement the filename= fallback uses is not specified: it must be ASCII and keep the ASCII characters of the name "
        "in order; equality with the NFKD projection is drift only; filename* must decode to the name exactly",
        "max_age = 0: 'public' (docstring) and 'no-cache, max-age=0' (pinned by the test-suite) are both accepted",
        "If-Match is only sent against responses that carry an ETag, Range only alone / with If-Range / with If-None-Match or "
        "If-Modified-Since (the domain Conditional.tla judges)",
        "undocumented and therefore drift only: the ETag formula, Expires, X-Sendfile on a 304 / with a 206, Content-Length of other "
        "seekable file objects, the exception class of the refusals, control characters other than CR / LF in the name, "
        "SharedDataMiddleware answering HEAD with the body and ignoring the encoding of the file name",
        "bounded model: 22 file names (quotes, semicolons, percent signs, backslash, CR, LF, Latin-1, BMP, fullwidth forms that fold "
        "to quote / semicolon, ligature, no / unknown / double extension, encodings) x 23 download names x 4 mimetypes; 6 kinds x 3 "
        "etag modes x 4 last_modified forms x 5 max_age forms x X-Sendfile x conditional x response class x file_wrapper x 15 "
        "request classes (thorough); one fixed file size and mtime",
    ]
    root = os.path.join(ctx.tmp, "tree")
    os.makedirs(root, exist_ok=True)
    models = MODELS_QUICK if q else MODELS_THOROUGH
    broken = BROKEN_QUICK if q else list(BROKEN)
    nw = max(2, ctx.workers // 4)
    seen: Counter = Counter()
    import multiprocessing as mp

    # the recorders are forked before any thread exists (the TLC runs below are started from threads)
    pool = mp.get_context("fork").Pool(max(2, min(ctx.workers // 2, 8)))
    try:
        _run(ctx, root, models, broken, nw, seen, pool)
    finally:
        pool.terminate()
    ctx.exhaustive = True
    _compact_drift(ctx)
    ctx.notes["observed"] = dict(seen)
    ctx.notes["violation_keys"] = dict(Counter(v["key"] for v in ctx.violations))
    for k in NEED:
        if seen[k] == 0 and not ctx.violations and not ctx.known_hits:
            raise MachineryError(f"vacuous run: {k!r} was never observed")


# a run in which the guarded things never happen proves nothing
NEED = ["status_200", "status_206", "status_304", "status_412", "status_416", "status_404", "exc_TypeError", "exc_ValueError",
        "exc_RequestedRangeNotSatisfiable", "not_found", "filename_star", "filename_quoted", "attachment", "content_encoding",
        "charset_added", "x_sendfile", "max_age_called_with_path", "max_age_called_with_none", "public", "file_wrapper_used",
        "file_object_closed", "opened_then_304", "opened_then_416", "subclass", "name_with_newline_refused", "last_modified_argument",
        "etag_given", "sdm_304", "sdm_passed", "sdm_nocache"]

def _run(ctx: Ctx, root, models, broken, nw, seen, pool):
    q = ctx.quick
    with cf.ThreadPoolExecutor(max_workers=6 if q else 4) as ex:
        # 1. model checking (committed models must pass and print their rows, broken ones must fail) in the background
        f_models = [ex.submit(_tlc_job, ctx, c, nw, False) for c in models]
        f_broken = [ex.submit(_tlc_job, ctx, c, 1, True) for c in broken]
        f_small = ex.submit(_tlc_job, ctx, SMALL, 1, False)
        f_laws = [] if q else [ex.submit(_tlc_job, ctx, c, 1, True) for c in LAW_BROKEN]
        # 3. code -> spec
        cases = code_to_spec_cases(ctx)
        lines = record(ctx, cases, root, pool)
        observe(ctx, cases, lines, seen)
        judge(ctx, cases, lines)
        ctx.notes["canaries_rejected"] = canaries(ctx, root)
        # 2. spec -> code
        n_rows = 0
        for f in f_models:
            cfg, r = f.result()
            rows = [v for v in r.printed if isinstance(v, dict) and "exp" in v]
            ctx.states += r.distinct
            ctx.transitions += r.generated
            ctx.model_runs.append({"spec": f"{AREA}/{MC}", "cfg": cfg, "distinct": r.distinct, "generated": r.generated, "depth": r.depth,
                                   "exported": len(rows), "wall_s": round(r.wall_s, 1)})
            # one row per final state; a call has 4 states (returned) or 2 (raised; SharedDataMiddleware)
            if not rows or not (2 * len(rows) <= r.distinct <= 4 * len(rows)) or len({repr(sorted(x["c"].items())) for x in rows}) != len(rows):
                raise MachineryError(f"export of {cfg} incomplete: {len(rows)} rows for {r.distinct} states")
            bad = sf.table_mismatches(rows)
            if bad:
                ctx.notes.setdefault("model_environment_differs_for", []).extend(ascii(b) for b in bad)
            mcases = [sf.case_of_row(row) for row in rows]
            n_rows += len(mcases)
            mlines = record(ctx, mcases, root, pool)
            observe(ctx, mcases, mlines, seen)
            judge(ctx, mcases, mlines, kind="x09-row")
        ctx.notes["model_rows_replayed"] = n_rows
        cfg, r = f_small.result()
        ctx.states += r.distinct
        ctx.transitions += r.generated
        ctx.model_runs.append({"spec": f"{AREA}/{MC}", "cfg": cfg, "distinct": r.distinct, "generated": r.generated, "depth": r.depth,
                               "wall_s": round(r.wall_s, 1)})
        for f in f_laws:
            cfg, r = f.result()
            ctx.notes.setdefault("broken_models_rejected", {})[cfg] = r.invariant_violated
            if r.invariant_violated != LAW_BROKEN[cfg]:
                raise MachineryError(f"{MC}/{cfg}: the deliberately wrong model does not violate {LAW_BROKEN[cfg]} (got {r.invariant_violated!r})")
        for f in f_broken:
            cfg, r = f.result()
            m = _CLAUSE_RE.search(r.stdout)
            clause = m.group(1) if m else None
            ctx.notes.setdefault("broken_models_rejected", {})[cfg] = clause
            want = BROKEN[cfg] if isinstance(BROKEN[cfg], tuple) else (BROKEN[cfg],)
            if r.invariant_violated != "ImplMeetsContract" or not (clause or "").startswith(want):
                raise MachineryError(f"{MC}/{cfg}: the deliberately wrong model is not rejected by clause {BROKEN[cfg]!r} "
                                     f"(got {r.invariant_violated!r} / {clause!r}): the contract may be vacuous")


def replay(ctx: Ctx, data):
    case = data["case"]["case"] if "case" in data["case"] and isinstance(data["case"].get("case"), dict) else data["case"]
    root = os.path.join(ctx.tmp, "tree")
    os.makedirs(root, exist_ok=True)
    ctx.nontrivial.update({("replay", 0), ("replay", 1)})
    cases = [case]
    lines = record(ctx, cases, root)
    ctx.sample(sf.describe(case, lines[0]))
    ctx.count(1)
    judge(ctx, cases, lines, kind=data.get("kind", "x09"))
    _compact_drift(ctx)
