"""X03 -- the request-body access protocol of werkzeug.wrappers.Request (extension area).

Contract (spec/reqdata/ReqContract.tla; every clause quotes its documentation sentence): .stream is
consumed once and never past Content-Length; get_data() caches by default and later get_data() / data /
json / the form parser see the cached bytes; form parsing of a form content type empties the stream
and get_data() afterwards returns nothing; data / get_data(parse_form_data=True) are empty for form
data; other content types leave the stream to the caller; json / get_json: 415 for a non-JSON
mimetype unless forced, 400 for bad JSON, None when silent, cached results; shallow requests raise
RuntimeError and never consume; close() closes uploaded files; repeated attribute reads are equal.

1. TLC model-checks the implementation-shaped model (ReqData.tla: state like the code) against that
   contract for every history of <= 3 (quick) / 4-5 (thorough) calls x scenarios; four hand-broken
   variants of the model must fail.
2. spec -> code: every exported behaviour of the model is re-executed on a real Request over an
   EnvironBuilder environ with a counting wsgi.input.
3. code -> spec: call pairs / triples (sampled in quick, exhaustive in thorough) and seeded random long
   histories on real Requests.
Every recorded call is judged by TLC (ReqDataTrace.tla) with the contract operators; differences to
the model's prediction and calls the documentation leaves open are reported as drift only.
"""
from __future__ import annotations

import concurrent.futures as cf
import itertools
import random

from .. import reqdata as R
from .. import tlc
from ..core import Ctx, pmap

LEVEL = "model_checking"
AREA = "reqdata"
VARIANTS = ("nocache", "form_replay", "data_raw", "shallow_leak")
ARG_KEYS = ("op", "n", "cache", "text", "pfd", "force", "silent", "via")


def _run(sc):
    return R.run_trace(sc)


# ------------------------------------------------------------------ scenario generators
def case_from_model(v) -> dict:
    sc, hist = v["sc"], v["hist"]
    return {"body": list(R.MODEL_BODIES[sc["body"]]), "ctype": R.CTYPES[sc["ctype"]][0], "method": sc["method"],
            "shallow": sc["shallow"], "calls": [{k: ln[k] for k in ARG_KEYS} for ln in hist], "exp": hist}


ENUM_SCENARIOS = [
    (b"a=1&b=2", "application/x-www-form-urlencoded", "POST", False),
    (b"123", "application/x-www-form-urlencoded", "PUT", False),
    (R.MP_BODY + b"tail", "multipart/form-data; boundary=b", "POST", False),
    (b"[1, 2]", "application/json", "POST", False),
    (b'{"a":}', "application/vnd.api+json", "POST", False),
    (b"123", "text/plain", "POST", False),
    (b"a=1", None, "POST", False),
    (b"a=1", "application/x-www-form-urlencoded", "GET", False),
    (b"12", "application/json", "GET", False),
    (b"a=1", "application/x-www-form-urlencoded", "POST", True),
    (b"12", "application/json", "POST", True),
    (b"12", "text/plain", "POST", True),
    (R.MP_BODY, "multipart/form-data; boundary=b", "POST", True),
]


def enum_cases(rng, quick: bool):
    """every call and a sample of the pairs (quick) / every pair and every triple of the core accessors (thorough) on fixed scenarios,
    each followed by a probe suffix that makes the request's caches observable"""
    calls = R.all_calls(sizes=(2, -1))
    probes = [R.call("stream_read", n=-1), R.call("get_data", cache=True, pfd=False, text=False), R.call("form"),
              R.call("files"), R.call("close", via="close"), R.call("files")]
    out = []
    for body, ct, method, shallow in ENUM_SCENARIOS:
        seqs = [list(p) for p in itertools.product(calls, repeat=2)]
        if not quick:
            core = [c for c in calls if c["op"] in ("stream_read", "get_data", "data", "form", "files", "json", "get_json")]
            seqs += [list(p) for p in itertools.product(core, repeat=3)]
        else:       # quick: every single call + a seeded sample of the pairs (all pairs are in the model replay / thorough tier)
            seqs = [[c] for c in calls] + rng.sample(seqs, 120 if shallow else 300)
        for seq in seqs:
            out.append({"body": list(body), "ctype": ct, "method": method, "shallow": shallow,
                        "calls": [dict(c) for c in seq] + [dict(probes[j]) for j in sorted(rng.sample(range(len(probes)), 3))]})
    return out


# ------------------------------------------------------------------ judge
def _key(case, r, ln):
    return f"{r['clause']}:{ln['op']}:{R.ctype_class(case['ctype'])}:{'shallow' if case['shallow'] else 'deep'}"


def record_cases(ctx: Ctx, cases, kind):
    """run the histories on the real Request (fork pool: call it while no TLC thread is running)"""
    results = pmap(_run, cases, workers=min(ctx.workers, 8), chunksize=64)
    lines = []
    for t, (case, tr) in enumerate(zip(cases, results)):
        for ln in tr:
            ln["t"] = t
            lines.append(ln)
        ncalls = len(tr) - 1
        ops = tuple((c["op"], c.get("n", -1), c.get("cache", True), c.get("pfd", False), c.get("force", False),
                     c.get("silent", False)) for c in case["calls"])
        distinct_readers = len({o[0] for o in ops if o[0] in ("stream_read", "get_data", "data", "form", "files", "values", "json", "get_json")})
        ctx.count(ncalls, (bytes(case["body"]), case["ctype"], case["method"], case["shallow"], ops) if distinct_readers >= 2 else None)
        if t % 2503 == 11:
            ctx.sample({"kind": kind, "body": bytes(case["body"])[:40].decode("latin-1"), "content_type": case["ctype"],
                        "method": case["method"], "shallow": case["shallow"],
                        "calls": [[ln["op"], ln["n"], ln["cache"], ln["pfd"], ln["force"], ln["silent"]] for ln in tr[1:]],
                        "results": [[ln["rk"], bytes(ln["rb"][:20]).decode("latin-1") if ln["rk"] == "bytes" else ln["rx"], ln["wpos"]] for ln in tr[1:]]})
    return lines


def judge_lines(ctx: Ctx, cases, lines):
    drift0 = len(ctx.model_drift)
    rejects = ctx.judge(AREA, "ReqDataTrace", lines, batch=6000)
    for r in rejects:
        case = dict(cases[r["t"]])
        ln = case["calls"][r["i"]]
        case["calls"] = case["calls"][: r["i"] + 1]
        case.pop("exp", None)
        ctx.violation(_key(case, r, ln), r["clause"], case, kind="trace")
    for d in ctx.model_drift[drift0:]:
        case = cases[d["t"]]
        d["scenario"] = [bytes(case["body"])[:24].decode("latin-1"), case["ctype"], case["method"], case["shallow"]]
        d["calls"] = [[c["op"], c.get("n", -1), c.get("cache", True), c.get("pfd", False)] for c in case["calls"][: d["i"] + 1]]
    return len(lines)


def judge_cases(ctx: Ctx, cases, kind):
    return judge_lines(ctx, cases, record_cases(ctx, cases, kind))


def judge_selftest(ctx: Ctx):
    """Machinery self-test, independent of the code under test: correct synthetic traces are accepted and each
    single corrupted recorded field is rejected with the expected clause."""
    body = b"a=1"
    cfg = {"t": 0, "op": "cfg", "body": list(body), "n": 3, "ctype": "urlencoded", "hdr": [], "method": "POST", "shallow": False,
           "exp": [], "args": [[[113], [48]]],
           "formref": [[[[97], [49]]], [[[61, 49], []]], [[[49], []]], []], "filesref": [[], [], [], []],
           "jsonref": [{"ok": False, "v": R._cps("null")}] * 2 + [{"ok": True, "v": [49]}, {"ok": False, "v": R._cps("null")}]}

    def ln(i, op, **kw):
        d = R._blank(op)
        d.update({"t": 0, "i": i})
        d.update(kw)
        return d

    good = [ln(0, "stream_read", n=1, rk="bytes", rb=[97], wpos=1),
            ln(1, "get_data", rk="bytes", rb=[61, 49], wpos=3),
            ln(2, "form", rk="form", items=[[[61, 49], []]], wpos=3),
            ln(3, "get_json", force=False, rk="exc", rx="UnsupportedMediaType", code=415, wpos=3),
            ln(4, "data", rk="bytes", rb=[61, 49], wpos=3),
            ln(5, "close", via="close", rk="none", wpos=3)]
    bad = [("TakenBytesDelivered", [ln(0, "stream_read", n=1, rk="bytes", rb=[98], wpos=1)]),
           ("NoOverRead", [ln(0, "stream_read", n=-1, rk="bytes", rb=[97, 61, 49, 0], wpos=4)]),
           ("StreamContents", [ln(0, "stream_read", n=2, rk="bytes", rb=[], wpos=0)]),
           ("DataCached", [good[0], good[1], ln(2, "get_data", rk="bytes", rb=[], wpos=3)]),
           ("FormFromCachedData", [good[0], good[1], ln(2, "form", rk="form", items=[], wpos=3)]),
           ("FormEmptiesStream", [ln(0, "form", rk="form", items=[[[97], [49]]], wpos=0)]),      # a form parse that leaves the stream unread
           ("ParsedFormDataIsEmpty", [ln(0, "data", rk="bytes", rb=[97, 61, 49], wpos=3)]),
           ("NotJsonRaises415", [ln(0, "json", rk="exc", rx="BadRequest", code=400, wpos=0)]),
           ("SilentReturnsNone", [ln(0, "get_json", silent=True, rk="exc", rx="UnsupportedMediaType", code=415, wpos=0)]),
           ("StableData", [good[0], good[1], ln(2, "data", rk="bytes", rb=[61, 49], wpos=3), ln(3, "data", rk="bytes", rb=[], wpos=3)]),
           ("CloseClosesFiles", [ln(0, "close", via="with", rk="none", known=1, known_closed=0, wpos=0)]),
           ("WantFormDataParsed", [ln(0, "wfdp", rk="bool", same=False)]),
           ("DataIsRestOfStream", [ln(0, "form", rk="form", items=[[[97], [49]]], wpos=3), ln(1, "get_data", rk="bytes", rb=[97, 61, 49], wpos=3)])]
    lines = [dict(cfg)] + good
    for k, (_, ls) in enumerate(bad):
        lines.append(dict(cfg, t=k + 1))
        lines += [dict(x, t=k + 1) for x in ls]
    before = ctx.traces
    rej = {(r["t"], r["clause"]) for r in ctx.judge(AREA, "ReqDataTrace", lines)}
    ctx.traces = before
    want = {(k + 1, clause) for k, (clause, _) in enumerate(bad)}
    if rej != want:
        raise tlc.MachineryError(f"judge self-test: expected rejects {sorted(want)}, got {sorted(rej)}")
    ctx.notes["judge_selftest"] = f"correct synthetic trace accepted, {len(bad)} corrupted traces rejected with the expected clause"


# ------------------------------------------------------------------ model checking
def model_runs(ctx: Ctx):
    """model check + broken variants + behaviour export, concurrently (independent TLC runs)"""
    q = ctx.quick
    w = max(1, ctx.workers // 2)
    jobs = {"ok": ("MCQ_ok" if q else "MCT_ok4", dict(workers=w, timeout=3000))}
    if not q:
        jobs["ok5"] = ("MCT_ok5", dict(workers=w, timeout=3000))
    for v in VARIANTS:
        jobs["bad:" + v] = (f"MCV_{v}", dict(workers=2, timeout=900, allow_violation=True))
    jobs["export"] = ("MCX_h2" if q else "MCX_h3", dict(workers=1, timeout=3000))
    out = {}
    with cf.ThreadPoolExecutor(max_workers=len(jobs)) as ex:
        futs = {k: ex.submit(tlc.run_tlc, AREA, "MCReqData", cfg, tmp=ctx.tmp, **kw) for k, (cfg, kw) in jobs.items()}
        for k, f in futs.items():
            out[k] = f.result()
    for k, r in out.items():
        if k.startswith("bad:"):
            ctx.notes.setdefault("broken_models_rejected", {})[k[4:]] = r.invariant_violated
            if r.invariant_violated not in ("Contract", "ReplayOnlyUndocumented", "Partition"):
                raise tlc.MachineryError(f"deliberately broken model variant {k[4:]} is not rejected by the contract (vacuous contract?)")
            continue
        ctx.model_runs.append({"spec": f"{AREA}/MCReqData", "cfg": jobs[k][0], "distinct": r.distinct, "generated": r.generated,
                               "depth": r.depth, "wall_s": round(r.wall_s, 1)})
        if k != "export":
            ctx.states += r.distinct
            ctx.transitions += r.generated
    ctx.exhaustive = True
    return [v for v in out["export"].printed if isinstance(v, dict) and "hist" in v]


def run(ctx: Ctx):
    q = ctx.quick
    rng = random.Random(ctx.seed)
    ctx.rule = ("case = one history of accessor calls (.stream.read(n), get_data(cache, as_text, parse_form_data), .data, .form, "
                ".files, .values, .json, get_json(force, silent, cache), .input_stream, want_form_data_parsed, close()/with) on one "
                "real Request (body, content type, method, shallow) over a counting wsgi.input; histories: all behaviours exported "
                "from the TLC model, call pairs/triples on fixed scenarios (sampled in quick, exhaustive in thorough), seeded random histories of 3-30 calls; "
                "non-trivial = distinct (scenario, call sequence) that uses at least two different body-reading accessors")
    ctx.assumptions += [
        "CONTENT_LENGTH is present and equals the body length; no max_content_length / form limits (C09 / C10 cover those)",
        "form / JSON values are compared with the one-shot result of a fresh Request over the same byte suffix (parsers themselves: C01, C02)",
        "calls the documentation leaves open (direct stream read after get_data() cached the body; get_json(force=True) on a form "
        "content type; what is kept after get_json(cache=False)) are not judged and end the documented part of a history",
        "as_text is checked for ASCII bodies only",
    ]
    cases = enum_cases(rng, q)
    cases += [R.rand_scenario(rng) for _ in range(1500 if q else 60000)]
    cases += [R.rand_scenario(rng, maxlen=30) for _ in range(100 if q else 4000)]
    lines = record_cases(ctx, cases, "driver")
    phase = {"record_driver": round(ctx.elapsed(), 1)}
    # the model runs (TLC processes) go on in the background while the driver traces are judged
    with cf.ThreadPoolExecutor(max_workers=1) as ex:
        fut = ex.submit(model_runs, ctx)
        judge_selftest(ctx)
        judge_lines(ctx, cases, lines)
        driver_drift = len(ctx.model_drift)
        phase["judge_driver"] = round(ctx.elapsed(), 1)
        behaviours = fut.result()
        phase["model_runs"] = round(ctx.elapsed(), 1)
    ctx.notes["model_behaviours_exported"] = len(behaviours)
    if not behaviours:
        raise tlc.MachineryError("no behaviours exported from the model")
    cap = 7000 if q else 200000
    if len(behaviours) > cap:
        behaviours = rng.sample(behaviours, cap)
    ctx.notes["model_behaviours_replayed"] = len(behaviours)
    judge_cases(ctx, [case_from_model(v) for v in behaviours], "model-behaviour")
    ctx.notes["model_drift_in_replay"] = len(ctx.model_drift) - driver_drift
    ctx.notes["model_drift_count"] = len(ctx.model_drift)
    phase["replay_model"] = round(ctx.elapsed(), 1)
    ctx.notes["phase_end_s"] = phase


def replay(ctx: Ctx, data):
    case = data["case"]
    ctx.sample(case)
    ctx.nontrivial.update({("replay", 0), ("replay", 1)})
    judge_cases(ctx, [case], "replay")
