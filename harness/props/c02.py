"""C02 -- form data survives encode -> parse unchanged (multipart and urlencoded).

TLC checks, on spec/multipart/FormCodec.tla, (1) the event-level MultipartEncoder model composed with
the decoder model: every part list x every fragmentation of the payloads into Data events decodes to
the intended parts; (2) UrlDecode(UrlEncode(pairs)) = pairs over representative code points.
The real code is driven along three paths (MultipartEncoder->MultipartDecoder with random event
fragmentation, encode_multipart->MultiPartParser, EnvironBuilder->Request.form/files/args) and query
strings; intended and parsed values are recorded and judged by FormCodecTrace.tla, which also
compares the real encoder's bytes and the real urlencoding with the model (drift).
"""
from __future__ import annotations

import io
import random

from ..core import Ctx, cps, pmap

LEVEL = "model_checking"
AREA = "multipart"

NAME_BAD = set('"\\\r\n')


def _text(rng: random.Random, maxlen=8, name=False):
    pools = [
        "abcXYZ019", " \t", ";,=:&+%#?/", "'<>()[]{}", "é߿ࠀ€￿", "\U00010000😀\U0010ffff", "\x00\x01\x0b\x0c\x1c\x1d\x1e\x1f\x7f\x85  ",
        "-_.~*!$@", "\r\n", '"\\',
    ]
    n = rng.choice([0, 1, 1, 2, 3, 5, maxlen])
    out = []
    for _ in range(n):
        pool = rng.choice(pools)
        c = rng.choice(pool)
        if rng.random() < 0.08:
            c = chr(rng.choice([rng.randrange(0, 0xD800), rng.randrange(0xE000, 0x110000)]))
        out.append(c)
    s = "".join(out)
    if name:
        s = "".join(c for c in s if c not in NAME_BAD).replace("%22", "%2 2")
    return s


def _blob(rng: random.Random, boundary_hint: bytes):
    atoms = [b"\r\n", b"\r", b"\n", b"--", b"-", boundary_hint[:-1], b"--" + boundary_hint[: max(1, len(boundary_hint) // 2)],
             b"\x00", b"\xff\xfe", b"x", b"data" * 5, bytes(range(256))]
    return b"".join(rng.choice(atoms) for _ in range(rng.choice([0, 0, 1, 2, 4, 9])))


def _gen_parts(rng: random.Random, boundary: bytes):
    parts = []
    for _ in range(rng.choice([0, 1, 2, 3, 5])):
        name = rng.choice(["a", "b", _text(rng, name=True), _text(rng, name=True)])
        if rng.random() < 0.45:
            parts.append({"kind": "file", "name": name,
                          "fname": rng.choice(["<scan>", "<>", "<untitled>.txt>", "<stdin>", "-", ".", "..", "a/b", "C:\\x", " lead", "trail "])
                          if rng.random() < 0.12 else (_text(rng, name=True) if rng.random() < 0.8 else "f.bin"),
                          "ctype": rng.choice(["text/plain", "application/octet-stream", "image/png", "text/plain; charset=utf-8"]),
                          "data": _blob(rng, boundary)})
        else:
            val = _text(rng)
            if rng.random() < 0.15:
                # long values: longer than the decoder's hold-back window, so that they reach the form parser
                # in several Data events (multi-byte characters then straddle event boundaries)
                # (half of them without line breaks: the decoder holds data back from the last line break on, so
                # only long runs without one are flushed at arbitrary byte offsets)
                alpha = rng.choice(["a\u00e9\u20ac\U0001f600\u4e2d \r\n-", "\u00e9\u20ac\U0001f600\u4e2da-"])
                val = "".join(rng.choice(alpha) for _ in range(rng.randint(80, 400)))
            parts.append({"kind": "field", "name": name, "fname": "", "ctype": "", "data": val})
    return parts


def _cp(x):
    """code points of a text; None / non-text results of the code under test are recorded as markers"""
    if x is None:
        return [-1]
    if not isinstance(x, str):
        return [-2] + cps(repr(x))
    return cps(x)


def _big(d: bytes):
    """file contents above 4 KiB travel as (marker, length, SHA-256 bytes): an encoding, equality is still decided by TLC"""
    import hashlib
    return [-3, len(d) % 1000000, len(d) // 1000000] + list(hashlib.sha256(d).digest())


def _enc_part(p, as_bytes):
    d = p["data"]
    if d is None:
        d = ""
    if isinstance(d, (bytes, bytearray)) and len(d) > 4096:
        return {"kind": p["kind"], "name": _cp(p["name"]), "fname": _cp(p["fname"]), "ctype": _cp(p["ctype"]), "data": _big(bytes(d))}
    if isinstance(d, str):
        d = list(d.encode("utf-8", "surrogatepass")) if as_bytes else cps(d)
    else:
        d = list(d)
    return {"kind": p["kind"], "name": _cp(p["name"]), "fname": _cp(p["fname"]), "ctype": _cp(p["ctype"]), "data": d}


def path_sansio(seed):
    """MultipartEncoder -> MultipartDecoder with random fragmentation of payloads into Data events."""
    from werkzeug.datastructures import Headers
    from werkzeug.sansio.multipart import Data, Epilogue, Field, File, MultipartDecoder, MultipartEncoder, NeedData, Preamble

    rng = random.Random(seed)
    bnd = "".join(rng.choice("abcXYZ0189-_") for _ in range(rng.choice([1, 2, 5, 16, 40, 70]))).encode()
    parts = _gen_parts(rng, bnd)
    enc = MultipartEncoder(bnd)
    evs = [Preamble(data=b"")]
    rec = [{"k": "PRE", "hdr": [], "data": [], "more": False}]
    for p in parts:
        raw = p["data"].encode() if isinstance(p["data"], str) else p["data"]
        while (b"--" + bnd) in raw:  # keep the payload inside the domain (no delimiter in it); decided again by the judge
            raw = raw.replace(b"--" + bnd, b"-")
            p["data"] = raw if p["kind"] == "file" else raw.decode("utf-8", "replace")
            raw = p["data"].encode() if isinstance(p["data"], str) else p["data"]
        h = Headers()
        if p["kind"] == "file":
            h.add("Content-Type", p["ctype"])
            evs.append(File(name=p["name"], filename=p["fname"], headers=h))
        else:
            evs.append(Field(name=p["name"], headers=h))
        cd = b'Content-Disposition: form-data; name="' + p["name"].encode() + b'"' + (b'; filename="' + p["fname"].encode() + b'"' if p["kind"] == "file" else b"")
        rec.append({"k": "P", "hdr": [list(cd)] + ([list(b"Content-Type: " + p["ctype"].encode())] if p["kind"] == "file" else []), "data": [], "more": False})
        k = rng.choice([1, 1, 2, 3])
        cuts = sorted(rng.randint(0, len(raw)) for _ in range(k - 1))
        frs = [raw[a:b] for a, b in zip([0] + cuts, cuts + [len(raw)])]
        for j, fr in enumerate(frs):
            evs.append(Data(data=fr, more_data=j < len(frs) - 1))
            rec.append({"k": "D", "hdr": [], "data": list(fr), "more": j < len(frs) - 1})
    evs.append(Epilogue(data=b""))
    rec.append({"k": "EPI", "hdr": [], "data": [], "more": False})
    err = ""
    parsed = []
    wire = b""
    try:
        wire = b"".join(enc.send_event(e) for e in evs)
        dec = MultipartDecoder(bnd)
        # feed in two pieces at a seeded offset (chunking independence is C01's business)
        cut = rng.randint(0, len(wire))
        for piece in (wire[:cut], wire[cut:], None):
            dec.receive_data(piece)
            while True:
                e = dec.next_event()
                if isinstance(e, (NeedData, Epilogue)):
                    break
                if isinstance(e, File):
                    parsed.append({"kind": "file", "name": e.name, "fname": e.filename, "ctype": e.headers.get("content-type", ""), "data": b""})
                elif isinstance(e, Field):
                    parsed.append({"kind": "field", "name": e.name, "fname": "", "ctype": "", "data": b""})
                elif isinstance(e, Data):
                    parsed[-1]["data"] += e.data
    except Exception as ex:
        err = type(ex).__name__
    lines = [{"op": "rt", "path": "sansio", "bnd": list(bnd), "err": err, "intended": [_enc_part(p, True) for p in parts],
              "parsed": [_enc_part(p, True) for p in parsed]}]
    if len(wire) <= 400:
        lines.append({"op": "enc", "bnd": list(bnd), "events": rec, "wire": list(wire)})
    return lines


def _values_multidict(parts):
    from werkzeug.datastructures import FileStorage, MultiDict

    md = MultiDict()
    for p in parts:
        if p["kind"] == "file":
            md.add(p["name"], FileStorage(io.BytesIO(p["data"]), filename=p["fname"], content_type=p["ctype"]))
        else:
            md.add(p["name"], p["data"])
    return md


def _intended_grouped(parts):
    """MultiDict iteration groups repeated names: the intended order is that of the MultiDict given to the encoder."""
    from werkzeug.datastructures import MultiDict

    md = MultiDict()
    for p in parts:
        md.add(p["name"], p)
    return [p for _, p in md.items(multi=True)]


def _collect(form, files):
    parsed_f = [{"kind": "field", "name": k, "fname": "", "ctype": "", "data": v} for k, v in form.items(multi=True)]
    parsed_u = []
    for k, f in files.items(multi=True):
        parsed_u.append({"kind": "file", "name": k, "fname": f.filename, "ctype": f.content_type or "", "data": f.stream.read()})
        f.close()
    return parsed_f, parsed_u


def path_testenc(seed):
    """werkzeug.test.encode_multipart -> MultiPartParser"""
    from werkzeug.formparser import MultiPartParser
    from werkzeug.test import encode_multipart

    rng = random.Random(seed)
    parts = [p for p in _gen_parts(rng, b"WerkzeugFormPart") if p["name"] != ""]
    err, pf, pu = "", [], []
    try:
        boundary, body = encode_multipart(_values_multidict(parts))
        form, files = MultiPartParser(buffer_size=rng.choice([7, 64, 1024, 65536])).parse(io.BytesIO(body), boundary.encode(), len(body))
        pf, pu = _collect(form, files)
    except Exception as ex:
        err = type(ex).__name__
    intended = _intended_grouped(parts)
    out = []
    for kind, got in (("field", pf), ("file", pu)):
        out.append({"op": "rt", "path": "test.encode_multipart/" + kind, "bnd": [], "err": err,
                    "intended": [_enc_part(p, False) for p in intended if p["kind"] == kind],
                    "parsed": [_enc_part(p, False) for p in got]})
    return out


def path_environ(seed):
    """EnvironBuilder(data=..., query_string=...) -> Request.form / files / args"""
    from werkzeug.test import EnvironBuilder
    from werkzeug.wrappers import Request

    rng = random.Random(seed)
    parts = [p for p in _gen_parts(rng, b"WerkzeugFormPart") if p["name"] != ""]
    if seed % 97 == 0:
        # uploads larger than the default max_form_memory_size (500 kB) next to text fields, in both orders:
        # files are not bounded by it, so the form must come back unchanged
        big = {"kind": "file", "name": "big", "fname": "big.bin", "ctype": "application/octet-stream",
               "data": bytes(rng.randrange(256) for _ in range(1024)) * rng.choice([520, 700])}
        parts = [{"kind": "field", "name": "before", "fname": "", "ctype": "", "data": "x"}, big,
                 {"kind": "field", "name": "after", "fname": "", "ctype": "", "data": "y"}]
    if seed % 291 == 1:
        # as many parts as the documented default part limit admits (Request.max_form_parts = 1000: "if this is
        # exceeded" an error is raised, so exactly that many must still come back), or one fewer
        n = rng.choice([1000, 999, 1000])
        parts = [{"kind": "field", "name": f"k{i % 37}", "fname": "", "ctype": "", "data": str(i)} for i in range(n)]
        for j in rng.sample(range(n), 3):
            parts[j] = {"kind": "file", "name": f"u{j}", "fname": f"f{j}.bin", "ctype": "application/octet-stream", "data": b"\x00\r\n--" + str(j).encode()}
    if rng.random() < 0.4 and seed % 97 != 0 and seed % 291 != 1:
        parts = [p for p in parts if p["kind"] == "field"]  # -> urlencoded form
    pairs = [(_text(rng), _text(rng)) for _ in range(rng.choice([0, 1, 2, 4]))]
    err, pf, pu, args, style = "", [], [], [], 0
    try:
        from werkzeug.datastructures import MultiDict
        style = rng.choice([0, 0, 0, 1, 2, 3, 4]) if seed % 97 != 0 and seed % 291 != 1 else 0
        if not any(p["kind"] == "file" for p in parts) and style != 4:
            style = 0
        if style == 0:
            b = EnvironBuilder(method="POST", data=_values_multidict(parts), query_string=MultiDict(pairs))
        else:
            # the same set given through the builder's attributes instead of data=: filled in place, or one of
            # form / files assigned wholesale after the other was filled (histories of two operations on one builder)
            from werkzeug.datastructures import FileMultiDict
            fields = MultiDict([(p["name"], p["data"]) for p in parts if p["kind"] == "field"])
            fmd = FileMultiDict()
            for p in parts:
                if p["kind"] == "file":
                    fmd.add_file(p["name"], io.BytesIO(p["data"]), p["fname"], p["ctype"])
            b = EnvironBuilder(method="POST", query_string=MultiDict(pairs))
            if style == 4:
                # a builder re-created from an earlier request's environ (which carries that request's body
                # headers), then given this form: a configuration change between two uses
                old = {"old": "x" * rng.randint(0, 40)}
                if len(fmd):
                    old["oldf"] = (io.BytesIO(b"zz" * rng.randint(0, 30)), "o.bin")  # the earlier request was multipart too
                b0 = EnvironBuilder(method="POST", data=old, query_string=MultiDict(pairs))
                b = EnvironBuilder.from_environ(b0.get_environ())
                b0.close()
            if style == 1:
                for k, v in fields.items(multi=True):
                    b.form.add(k, v)
                for k, v in fmd.items(multi=True):
                    b.files.add(k, v)
            elif style == 2:
                b.files = fmd
                b.form = fields
            else:
                b.form = fields
                b.files = fmd
        env = b.get_environ()
        req = Request(env)
        pf, pu = _collect(req.form, req.files)
        args = list(req.args.items(multi=True))
        enc_qs = env["QUERY_STRING"]
        b.close()
    except Exception as ex:
        err = type(ex).__name__
        enc_qs = ""
    intended = _intended_grouped(parts) if style == 0 else (
        _intended_grouped([p for p in parts if p["kind"] == "field"]) + _intended_grouped([p for p in parts if p["kind"] == "file"]))
    from werkzeug.datastructures import MultiDict
    ipairs = list(MultiDict(pairs).items(multi=True))
    out = []
    for kind, got in (("field", pf), ("file", pu)):
        out.append({"op": "rt", "path": "EnvironBuilder/" + kind, "bnd": [], "err": err,
                    "intended": [_enc_part(p, False) for p in intended if p["kind"] == kind],
                    "parsed": [_enc_part(p, False) for p in got]})
    out.append({"op": "qs", "pairs": [[cps(k), cps(v)] for k, v in ipairs], "encoded": [ord(c) for c in enc_qs],
                "decoded": [[cps(k), cps(v)] for k, v in args], "err": err})
    return out


def path_model(case):
    """spec -> code: a TLC-generated (fragment lists, wire) pair: the real encoder must produce a body the real decoder maps back."""
    from werkzeug.datastructures import Headers
    from werkzeug.sansio.multipart import Data, Epilogue, Field, MultipartDecoder, MultipartEncoder, NeedData, Preamble

    bnd = bytes(case["bnd"])
    enc = MultipartEncoder(bnd)
    evs = [Preamble(data=b"")]
    intended = []
    for frs in case["frags"]:
        evs.append(Field(name="a", headers=Headers()))
        for j, fr in enumerate(frs):
            evs.append(Data(data=bytes(fr), more_data=j < len(frs) - 1))
        intended.append({"kind": "field", "name": "a", "fname": "", "ctype": "", "data": b"".join(bytes(f) for f in frs)})
    evs.append(Epilogue(data=b""))
    err, parsed, wire = "", [], b""
    try:
        wire = b"".join(enc.send_event(e) for e in evs)
        dec = MultipartDecoder(bnd)
        for piece in (wire, None):
            dec.receive_data(piece)
            while True:
                e = dec.next_event()
                if isinstance(e, (NeedData, Epilogue)):
                    break
                if isinstance(e, Field):
                    parsed.append({"kind": "field", "name": e.name, "fname": "", "ctype": "", "data": b""})
                elif isinstance(e, Data):
                    parsed[-1]["data"] += e.data
    except Exception as ex:
        err = type(ex).__name__
    return [{"op": "rt", "path": "model->encoder->decoder", "bnd": [], "err": err, "intended": [_enc_part(p, True) for p in intended],
             "parsed": [_enc_part(p, True) for p in parsed]},
            {"op": "rt", "path": "model-wire-vs-real-encoder", "bnd": [], "err": "", "intended": [{"kind": "wire", "name": [], "fname": [], "ctype": [], "data": list(case["wire"])}],
             "parsed": [{"kind": "wire", "name": [], "fname": [], "ctype": [], "data": list(wire)}]}]


CHARSETS = [("utf-8", "utf-8"), ("UTF-8", "utf-8"), ("Utf-8", "utf-8"), ("iso-8859-1", "latin-1"), ("ISO-8859-1", "latin-1"),
            ("Iso-8859-1", "latin-1"), ("us-ascii", "ascii"), ("US-ASCII", "ascii"), ("ascii", "ascii"), ("ASCII", "ascii")]


def path_charset(seed):
    """Field parts that declare their own charset (Content-Type: text/plain; charset=...; MIME charset names are
    case-insensitive) -> MultiPartParser: the text comes back for every charset the parser supports, in any spelling."""
    from werkzeug.datastructures import Headers
    from werkzeug.formparser import MultiPartParser
    from werkzeug.sansio.multipart import Data, Epilogue, Field, MultipartEncoder, Preamble

    rng = random.Random(seed ^ 0x5EED)
    bnd = b"CharsetPart" + str(seed % 1000).encode()
    parts, evs = [], [Preamble(data=b"")]
    for _ in range(rng.choice([1, 2, 3])):
        label, codec = rng.choice(CHARSETS)
        alpha = {"utf-8": "a\u00e9\u20ac\U0001f600\u4e2d -", "latin-1": "a\u00e9\u00fc\u00ff\u00a0 -", "ascii": "abc -~"}[codec]
        text = "".join(rng.choice(alpha) for _ in range(rng.randint(0, 12)))
        name = rng.choice(["a", "b", "c"])
        quoted = rng.random() < 0.3
        h = Headers([("Content-Type", f'text/plain; charset="{label}"' if quoted else f"text/plain; charset={label}")])
        evs += [Field(name=name, headers=h), Data(data=text.encode(codec), more_data=False)]
        parts.append({"kind": "field", "name": name, "fname": "", "ctype": "", "data": text})
    evs.append(Epilogue(data=b""))
    err, pf = "", []
    try:
        enc = MultipartEncoder(bnd)
        wire = b"".join(enc.send_event(e) for e in evs)
        form, files = MultiPartParser().parse(io.BytesIO(wire), bnd, len(wire))
        pf, _ = _collect(form, files)
    except Exception as ex:
        err = type(ex).__name__
    return [{"op": "rt", "path": "part-charset/field", "bnd": [], "err": err,
             "intended": [_enc_part(p, False) for p in _intended_grouped(parts)], "parsed": [_enc_part(p, False) for p in pf]}]


def path_relay(seed):
    """decode -> re-encode under new names -> decode: a relay re-sends the parts it parsed (the events it got from
    the decoder, headers included) under other field names / file names; what the second parse yields must be
    the renamed parts (name, filename, content type, bytes)."""
    from werkzeug.datastructures import Headers
    from werkzeug.sansio.multipart import Data, Epilogue, Field, File, MultipartDecoder, MultipartEncoder, NeedData, Preamble

    rng = random.Random(seed ^ 0x7E1A)
    bnd = b"RelayPart" + str(seed % 97).encode()
    parts = [p for p in _gen_parts(rng, bnd) if p["name"] != ""][:3]
    err, parsed, intended = "", [], []

    def decode(wire):
        out, dec = [], MultipartDecoder(bnd)
        for piece in (wire, None):
            dec.receive_data(piece)
            while True:
                e = dec.next_event()
                if isinstance(e, (NeedData, Epilogue)):
                    break
                if isinstance(e, (File, Field)):
                    out.append([e, b""])
                elif isinstance(e, Data):
                    out[-1][1] += e.data
        return out

    try:
        enc = MultipartEncoder(bnd)
        evs = [Preamble(data=b"")]
        for p in parts:
            raw = p["data"].encode() if isinstance(p["data"], str) else p["data"]
            raw = raw.replace(b"--" + bnd, b"-")
            p["data"] = raw
            if p["kind"] == "file":
                evs += [File(name=p["name"], filename=p["fname"], headers=Headers([("Content-Type", p["ctype"])])), Data(data=raw, more_data=False)]
            else:
                evs += [Field(name=p["name"], headers=Headers()), Data(data=raw, more_data=False)]
        evs.append(Epilogue(data=b""))
        first = decode(b"".join(enc.send_event(e) for e in evs))
        enc2, evs2 = MultipartEncoder(bnd), [Preamble(data=b"")]
        for e, data in first:
            if isinstance(e, File):
                nn, nf = e.name + "2", "re-" + e.filename
                evs2 += [File(name=nn, filename=nf, headers=e.headers), Data(data=data, more_data=False)]
                intended.append({"kind": "file", "name": nn, "fname": nf, "ctype": e.headers.get("content-type", ""), "data": data})
            else:
                nn = e.name + "2"
                evs2 += [Field(name=nn, headers=e.headers), Data(data=data, more_data=False)]
                intended.append({"kind": "field", "name": nn, "fname": "", "ctype": "", "data": data})
        evs2.append(Epilogue(data=b""))
        for e, data in decode(b"".join(enc2.send_event(e) for e in evs2)):
            if isinstance(e, File):
                parsed.append({"kind": "file", "name": e.name, "fname": e.filename, "ctype": e.headers.get("content-type", ""), "data": data})
            else:
                parsed.append({"kind": "field", "name": e.name, "fname": "", "ctype": "", "data": data})
    except Exception as ex:
        err = type(ex).__name__
    return [{"op": "rt", "path": "relay", "bnd": list(bnd), "err": err, "intended": [_enc_part(p, True) for p in intended],
             "parsed": [_enc_part(p, True) for p in parsed]}]


def _dispatch(job):
    kind, arg = job
    return {"sansio": path_sansio, "testenc": path_testenc, "environ": path_environ, "model": path_model, "charset": path_charset, "relay": path_relay}[kind](arg)


def run(ctx: Ctx):
    q = ctx.quick
    ctx.rule = ("case = one list of parts (fields and files, Unicode names/filenames within the documented domain, text values over "
                "all of Unicode, file bytes with CRLF runs / dashes / boundary near-copies, repeated names, empty values) pushed "
                "through one of: MultipartEncoder->MultipartDecoder (random Data fragmentation), encode_multipart->MultiPartParser, "
                "EnvironBuilder->Request.form/files/args; plus TLC-generated fragment lists replayed on the real encoder/decoder; "
                "non-trivial = distinct case with >= 1 part or >= 1 query pair")
    ctx.assumptions += ["mimetypes.guess_type is outside the model (content types are given explicitly)",
                        "MultiDict groups repeated names: the intended order is the iteration order of the MultiDict handed to the encoder"]
    for cfg in ("MCF_rt2", "MCF_url2") + (("MCF_rt", "MCF_url") if not q else ()):
        ctx.model_check(AREA, "MCF", cfg, timeout=1800)
    ctx.exhaustive = True
    from .. import tlc
    r = tlc.run_tlc(AREA, "MCF", "MCF_rt2_orig", workers=ctx.workers, tmp=ctx.tmp, allow_violation=True)
    ctx.notes["pre_fix_encoder_model_violates"] = r.invariant_violated
    if not r.invariant_violated:
        raise tlc.MachineryError("pre-fix encoder model no longer violates RoundTrip (vacuity)")
    model_cases = [v for v in ctx.export(AREA, "MCF", "MCX_rt2" if q else "MCX_rt", count_states=False) if isinstance(v, dict) and "frags" in v]
    ctx.notes["model_cases_exported"] = len(model_cases)
    n = 1500 if q else 40000
    jobs = [("model", c) for c in model_cases]
    for i in range(n):
        jobs += [("sansio", ctx.seed * 1000003 + i), ("testenc", ctx.seed * 1000003 + i), ("environ", ctx.seed * 1000003 + i)]
        if i % 5 == 0:
            jobs.append(("charset", ctx.seed * 1000003 + i))
        if i % 5 == 1:
            jobs.append(("relay", ctx.seed * 1000003 + i))
    results = pmap(_dispatch, jobs, workers=ctx.workers, chunksize=32)
    lines, cases = [], {}
    for t, (job, out) in enumerate(zip(jobs, results)):
        for i, ln in enumerate(out):
            ln["t"], ln["i"] = t, i
            lines.append(ln)
            cases[(t, i)] = job
            if ln["op"] in ("rt", "qs"):
                nt = len(ln.get("intended", ln.get("pairs", [])))
                ctx.count(1, (t, i) if nt else None)
        if t % 1013 == 0 and out:
            ctx.sample({"job": job[0], "line": {k: (v if k in ("op", "path", "err") else str(v)[:160]) for k, v in out[0].items()}})
    for r in ctx.judge(AREA, "FormCodecTrace", lines, batch=3000):
        job = cases[(r["t"], r["i"])]
        ln = next(x for x in lines if x["t"] == r["t"] and x["i"] == r["i"])
        ctx.violation(f"{r['clause']}:{ln.get('path', ln['op'])}", r["clause"], {"job": list(job) if job[0] != "model" else ["model", job[1]], "i": r["i"]}, kind="c02")


def replay(ctx: Ctx, data):
    job = data["case"]["job"]
    out = _dispatch((job[0], job[1]))
    for i, ln in enumerate(out):
        ln["t"], ln["i"] = 0, i
    ctx.count(len(out))
    ctx.nontrivial.update({("replay", 0), ("replay", 1)})
    ctx.sample({"job": job[0]})
    for r in ctx.judge(AREA, "FormCodecTrace", out):
        ln = out[r["i"]]
        ctx.violation(f"{r['clause']}:{ln.get('path', ln['op'])}", r["clause"], data["case"], kind="c02")
