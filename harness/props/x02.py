"""X02 (extension area) -- werkzeug.test.Client as a stateful user agent: cookie jar and redirect following.

Contract (spec/client/Client.tla, every clause with the documentation / RFC 6265 sentence it comes from):
the jar is a map keyed by (domain, path, name); a Set-Cookie is stored under the request host (host-only) unless a Domain
attribute is given (leading dot ignored, then sub-domains match); default path per RFC 6265 5.1.4; a later Set-Cookie with the
same key replaces; Max-Age=0 / Expires=epoch (what Response.delete_cookie emits) deletes; a request carries exactly the cookies
that domain-match and path-match (Secure etc. are documented as ignored); with follow_redirects 301/302/303/305 switch to GET
(HEAD stays HEAD) and drop the body, 307/308 keep method and body, headers are kept; relative ("/path") and absolute
Location; other hosts only as sub-domains and only with allow_subdomain_redirects, else RuntimeError; a redirect loop raises
ClientRedirectError; the history chain is recorded; cookies set on a redirect response are sent on the next hop.

1. TLC model checking of the implementation-shaped state machine against the contract (MCClient.tla; jar-, redirect- and
   loop-focused configs) and of ten hand-broken variants that must fail with a named invariant.
2. spec -> code: the labelled transition system of MCClient is exported; one history per transition (shortest path + the
   transition) is replayed on a real Client against a scripted WSGI application that answers from the model's responses.
3. code -> spec: directed histories (look-alike domain / path, every redirect code x method x body-consumed, loops, hosts)
   and seeded random histories against random scripted applications; every recorded line (what the application received,
   what Client.open returned or raised, the jar read back with get_cookie) is judged by ClientTrace.tla.
Undocumented behaviour (Max-Age<0, foreign Domain attributes, loop detection keyed by the Location text, parent-domain
redirects, path-relative / scheme-less Location) is reported as drift, never as a verdict.
"""
from __future__ import annotations

import collections
import concurrent.futures as cf
import copy
import hashlib
import json

from .. import client as cl
from .. import tlc
from ..core import Ctx, pmap

LEVEL = "model_checking"
AREA = "client"

QUICK_MODELS = ["MCQ_jar", "MCQ_redir", "MCQ_loop"]
THOROUGH_MODELS = ["MCT_jar", "MCT_jar2", "MCT_jar4", "MCT_redir", "MCT_loop", "MCT_mixed"]
# hand-broken variants of the implementation shape and the invariant TLC must report for each
BROKEN = {
    "MCV_suffix": "AllRequestsOK",      # evil-example.com receives the cookies of example.com
    "MCV_prefix": "AllRequestsOK",      # /foobar receives the cookies of /foo
    "MCV_body303": "MethodBodyOK",      # a 303 keeps the request body
    "MCV_headget": "MethodBodyOK",      # HEAD becomes GET
    "MCV_stale": "SentOK",              # the next hop carries the cookies of the previous request
    "MCV_extsuffix": "HostOK",          # evil-example.com passes as a sub-domain of example.com
    "MCV_noloop": "HopsBounded",        # no loop detection: following does not terminate
    "MCV_keepdeleted": "JarAgrees",     # Max-Age=0 does not delete
    "MCV_orig_dot": "AllRequestsOK",    # the tree before c8a85da: Domain=.example.com is stored with its dot and sent to nobody
    "MCV_orig_body": "MethodBodyOK",    # the tree before e0d8c2e: a 307/308 re-sends only what the application left unread
}


def _node(st):
    d = dict(st)
    d["jar"] = sorted(json.dumps(c, sort_keys=True) for c in st["jar"])
    return json.dumps(d, sort_keys=True)


def _lts_histories(ctx: Ctx, cfg: str, limit: int):
    """export the labelled transition system and derive one history per transition: shortest path to its source + the transition"""
    recs = [v for v in ctx.export(AREA, "MCClient", cfg, timeout=3000) if isinstance(v, dict) and "pre" in v]
    succ = collections.defaultdict(list)
    for r in recs:
        succ[_node(r["pre"])].append(r)
    reach = {}
    queue = collections.deque()
    for r in recs:
        p = r["pre"]
        if p["nopen"] == 0 and p["nresp"] == 0 and _node(p) not in reach:
            reach[_node(p)] = []
            queue.append(_node(p))
    while queue:
        n = queue.popleft()
        for r in succ[n]:
            m = _node(r["post"])
            if m not in reach:
                reach[m] = reach[n] + [r["act"]]
                queue.append(m)
    ctx.notes.setdefault("lts", {})[cfg] = {"transitions": len(recs), "states": len(reach)}
    if len(recs) > limit:
        recs = ctx.rng.sample(recs, limit)
    return [cl.history_from_model(r["pre"]["allow"], reach[_node(r["pre"])] + [r["act"]]) for r in recs]


def _dispatch(job):
    kind, arg = job
    h = cl.rand_history(arg) if kind == "rand" else arg
    return h, cl.run_history(h)


def _key(rj):
    return f"{rj.get('tag') or 'client'}:{rj['clause']}"


def _features(lines):
    hops = [ln for ln in lines if ln["op"] == "hop"]
    return (sum(1 for ln in hops if ln["cookies"]), sum(1 for ln in hops if ln["r"]["code"] in (301, 302, 303, 305, 307, 308)),
            sum(1 for ln in lines if ln["op"] == "end" and ln["e"]["exc"]))


def _self_test(ctx: Ctx):
    """the judge must reject corrupted recordings: a cookie leaked to the look-alike host / path, a body kept on a 303, a loop
    that is not raised, a shortened history chain (otherwise a green run would be vacuous)"""
    hs = cl.directed_histories()
    per = [cl.run_history(h) for h in hs[:3]] + [cl.run_history(h) for h in hs if h["script"].get("example.com|/foo", {}).get("code") == 303 and h["steps"][0]["q"]["m"] == "POST"][:1]
    per += [cl.run_history(h) for h in hs if "example.com|/a" in h["script"]][:3]
    a1 = {"name": cl.cps("a"), "val": cl.cps("1")}
    want = []
    t0 = copy.deepcopy(per[0])  # Domain=example.com cookie a=1: the request to evil-example.com is the 3rd open
    hop = [ln for ln in t0 if ln["op"] == "hop"][2]
    hop["cookies"] = [[a1["name"], a1["val"]]]
    want.append((t0, "CookieLeaked"))
    t1 = copy.deepcopy(per[1])  # Path=/foo cookie: the request to /foobar is the 5th open
    hop = [ln for ln in t1 if ln["op"] == "hop"][4]
    hop["cookies"] = [[a1["name"], a1["val"]]]
    want.append((t1, "CookieLeaked"))
    t2 = copy.deepcopy(per[1])  # ... and it must be sent to /foo/bar
    [ln for ln in t2 if ln["op"] == "hop"][3]["cookies"] = []
    want.append((t2, "CookieNotSent"))
    t3 = copy.deepcopy(per[3])  # POST -> 303: pretend the body survived
    hop = [ln for ln in t3 if ln["op"] == "hop"][1]
    hop["q"] = dict(hop["q"], body=cl.cps("xy"), ct="text/x")
    want.append((t3, "BodyRule"))
    t4 = copy.deepcopy(per[3])  # ... or the method
    hop = [ln for ln in t4 if ln["op"] == "hop"][1]
    hop["q"] = dict(hop["q"], m="POST")
    want.append((t4, "MethodRule"))
    t5 = copy.deepcopy(per[4])  # self loop: pretend the client returned the redirect instead of raising
    end = [ln for ln in t5 if ln["op"] == "end"][0]
    end["e"] = dict(end["e"], exc="", status=302)
    want.append((t5, "LoopNotRaised"))
    t6 = copy.deepcopy(per[6])  # chain of four redirects: drop an entry of the recorded history
    end = [ln for ln in t6 if ln["op"] == "end"][0]
    end["e"] = dict(end["e"], hist=end["e"]["hist"][1:], hlens=end["e"]["hlens"][1:])
    want.append((t6, "HistoryChain"))
    # judge every corrupted recording together with the recording it was made from: the expectation is only asked where the
    # unmodified recording is accepted (on a tree that breaks the contract the main run reports that, not the self-test)
    bases = [per[0], per[1], per[1], per[3], per[3], per[4], per[6]]
    lines = cl.number([w[0] for w in want] + bases, ["selftest"] * (len(want) + len(bases)))
    got = collections.defaultdict(set)
    for rj in ctx.judge(AREA, "ClientTrace", lines):
        got[rj["t"]].add(rj["clause"])
    asked = [t for t in range(len(want)) if not got[len(want) + t]]
    missing = [(t, want[t][1], sorted(got[t])) for t in asked if want[t][1] not in got[t]]
    if missing:
        raise tlc.MachineryError(f"judge self-test: corrupted recordings not rejected as expected: {missing}")
    ctx.notes["judge_self_test"] = {"corrupted_traces": len(want), "asked": len(asked), "rejected": len(asked)}


def run(ctx: Ctx):
    q = ctx.quick
    ctx.rule = ("histories on one werkzeug.test.Client against a scripted WSGI application: (a) one per transition of the exported MCClient transition system "
                "(shortest path + transition; Open / Respond with Set-Cookie, status, Location), (b) directed histories (look-alike domain evil-example.com and path "
                "/foobar, every redirect code x method x body consumed or not, loops, sub-domain / external hosts, set_cookie / get_cookie / delete_cookie), (c) seeded "
                "random histories over 7 hosts x 8 paths x 3 names with random scripts (<= 3 Set-Cookie per response, all Location forms); non-trivial = distinct history "
                "in which a request carried a cookie, a redirect was followed or Client.open raised")
    ctx.assumptions += [
        "contract = werkzeug's documentation (Client / set_cookie / Cookie docstrings, CHANGES 0.15.0 #1402, 0.15.2 #1491, 2.3.0) plus RFC 6265 5.1.3 / 5.1.4 / 5.2.3 / 5.3 for "
        "what 'domain and path matching' means; Secure / HttpOnly / SameSite and positive lifetimes are documented as ignored by the test client",
        "undocumented behaviour is drift, not a verdict: Max-Age<0 / past Expires other than the epoch, a Domain attribute that does not cover the responding host, loop "
        "detection keyed by the (Location text, status) pair, redirects from a sub-domain back to its parent, path-relative / query-only / scheme-less Location values",
        "the scripted application looks at the request body without consuming it (tell / read / seek) unless the script says it reads the body",
        "loop verdict: ClientRedirectError is required when the same request (method, URL, cookies, body) is answered again by a redirect already seen in this call",
    ]
    models = QUICK_MODELS + ([] if q else THOROUGH_MODELS)
    with cf.ThreadPoolExecutor(max_workers=6 if q else 4) as ex:
        model_f = [ex.submit(ctx.model_check, AREA, "MCClient", cfg, timeout=1200 if q else 7200, workers=max(2, ctx.workers // 2)) for cfg in models]
        lts_f = [ex.submit(_lts_histories, ctx, cfg, 700 if q else 40000) for cfg in (["MCX_q1", "MCX_q2"] if q else ["MCX_q1", "MCX_q2", "MCX_t"])]
        self_f = ex.submit(_self_test, ctx)
        broken_f = {cfg: ex.submit(tlc.run_tlc, AREA, "MCClient", cfg, workers=1, tmp=ctx.tmp, allow_violation=True, timeout=600) for cfg in BROKEN}
        for f in model_f:
            f.result()
        broken = {cfg: f.result().invariant_violated for cfg, f in broken_f.items()}
        model_h = [h for f in lts_f for h in f.result()]
        self_f.result()
    for cfg, want in BROKEN.items():
        if broken[cfg] != want:
            raise tlc.MachineryError(f"broken variant {cfg} no longer violates {want} (vacuity): TLC reported {broken[cfg]}")
    ctx.notes["broken_variants_violate"] = broken
    ctx.notes["phase_s"] = {"tlc": round(ctx.elapsed(), 1)}
    ctx.exhaustive = True  # the bounded models were enumerated completely

    jobs = [("directed", h) for h in cl.directed_histories()] + [("rand", ctx.seed * 1000003 + i) for i in range(500 if q else 20000)]
    jobs += [("model", h) for h in model_h]
    results = pmap(_dispatch, jobs, workers=ctx.workers, chunksize=64)
    hists = [r[0] for r in results]
    ctx.notes["phase_s"]["run"] = round(ctx.elapsed(), 1)
    per = [r[1] for r in results]
    for (kind, _), lines in zip(jobs, per):
        f = _features(lines)
        ctx.count(len(lines), hashlib.sha1(json.dumps(lines, sort_keys=True).encode()).hexdigest() if any(f) else None)
    lines = cl.number(per, [j[0] for j in jobs])
    seen = set()
    for rj in ctx.judge(AREA, "ClientTrace", lines, batch=2500, timeout=3000):
        if (rj["t"], _key(rj)) in seen:
            continue
        seen.add((rj["t"], _key(rj)))
        ctx.violation(_key(rj), rj["clause"], {"history": hists[rj["t"]], "i": rj["i"], "flow": jobs[rj["t"]][0]}, kind="x02-history")
    ctx.notes["phase_s"]["judge"] = round(ctx.elapsed(), 1)
    ctx.notes["lines"] = dict(collections.Counter(ln["flow"] for ln in lines))
    ctx.notes["histories"] = dict(collections.Counter(j[0] for j in jobs))
    ctx.notes["drift_kinds_first_50"] = dict(collections.Counter(d.get("what", "?") for d in ctx.model_drift))
    tot = [sum(x) for x in zip(*[_features(p) for p in per])]
    ctx.notes["observed"] = {"requests_with_cookies": tot[0], "redirect_responses": tot[1], "opens_that_raised": tot[2]}
    for h, p in list(zip(hists, per))[-3:]:
        ctx.sample({"kind": "history", "ops": [ln["op"] for ln in p][:30], "allow": h["allow"]})


def replay(ctx: Ctx, data):
    h = data["case"]["history"]
    per = cl.run_history(h)
    ctx.count(len(per))
    ctx.sample({"kind": "history", "ops": [ln["op"] for ln in per][:30]})
    for rj in ctx.judge(AREA, "ClientTrace", cl.number([per], ["replay"])):
        ctx.violation(_key(rj), rj["clause"], data["case"], kind="x02-history")
