"""C05 -- responses are well-formed WSGI output for every body, status and method.

1. TLC model-checks (spec/response) the sequential Headers-mutator model over every history of
   a small universe (no CR/LF value is ever stored; a call raises exactly when it attempts to
   store one) and the finalisation decision table (body shape x items x status x method x preset
   Content-Length x Location x autocorrect x pre-access x callbacks x server plan) against the
   clauses of the property; deliberately broken model variants must fail (non-vacuity).
2. spec -> code: every exported mutator transition is performed on a real Headers /
   Response.headers, every exported table input on a real Response (get_wsgi_response, a server
   that pulls `plan` chunks and closes the iterable, spy callbacks / closable iterables).
3. code -> spec: seeded random mutator histories and random responses far outside the model
   alphabets (all Unicode planes, IRIs with IDN hosts, other environs, random statuses).
Every recorded line is judged by ResponseTrace.tla (TLC); disagreement with the model on anything
the property does not name is reported as model drift only.
"""
from __future__ import annotations

import copy
import random

from .. import response as R
from .. import tlc
from ..core import Ctx, pmap

LEVEL = "model_checking"
AREA = "response"

HDR_MUTANTS = ["MCB_hdr_nocheck_add", "MCB_hdr_nocheck_set", "MCB_hdr_nocheck_int", "MCB_hdr_nocheck_slice"]
FIN_MUTANTS = ["MCB_fin_orig", "MCB_fin_cl_before_encode", "MCB_fin_head_sends_body", "MCB_fin_keep_cl_204",
               "MCB_fin_double_close"]


def _do(job):
    kind, case = job
    if kind == "hdr":
        return R.hdr_case(case)
    if kind == "fin":
        return R.fin_case(copy.deepcopy(case))
    if kind == "hist":
        return R.rand_history_lines(random.Random(case["seed"]), case["steps"])
    if kind == "api":
        return R.api_case(case)
    if kind == "reuse":
        return R.reuse_case(case)
    if kind == "shape":
        return R.shape_case(case)
    if kind == "exc":
        return R.exc_case(case)
    raise ValueError(kind)


def fin_key(clause, inp):
    return "%s:%s:%s:%s:%s" % (clause, inp["shape"], "passthrough" if inp["pt"] else "wrapped",
                               "callbacks" if inp["ncb"] else "nocallbacks", inp["method"])


LENGTH_SETTERS = ("set_data", "data_set", "freeze", "stream_write", "stream_writelines")


def shape_key(clause, ln):
    """ShapeContentLength is keyed by whether the body was replaced through the `response` attribute after the
    last operation that (re)computed or dropped the length (open finding F101); other clauses by the last operation"""
    hist = ln["hist"]
    if clause == "ShapeContentLength":
        last = max([i for i, h in enumerate(hist) if h["o"] in LENGTH_SETTERS and h["exc"] == ""], default=-1)
        tag = "assign-after-length" if any(h["o"] == "assign" for h in hist[last + 1:]) else "other"
    else:
        tag = hist[-1]["o"] if hist else "none"
    return "%s:%s:%s" % (clause, tag, ln["init"]["kind"])


def judge_jobs(ctx: Ctx, jobs, kind="c05"):
    t0 = ctx.elapsed()
    results = pmap(_do, jobs, workers=ctx.workers, chunksize=64)
    ctx.notes["wall_real_code_s"] = round(ctx.elapsed() - t0, 1)
    lines, cases = [], []
    for (k, case), res in zip(jobs, results):
        for step, ln in enumerate(res if isinstance(res, list) else [res]):
            ln["t"], ln["i"] = len(lines), 0
            lines.append(ln)
            if k == "hist":
                cases.append(("hdr", {"pre": ln["pre"], "c": ln["c"], "target": ln["target"]}))
            else:
                cases.append((k, case))
    for ln in lines:
        ctx.count(1)
        if ln["op"] == "reuse":
            ctx.nontrivial.add(("reuse", ln["shape"], ln["pt"], ln["ncb"], tuple((e["ev"], e["via"], e["method"], e["code"]) for e in ln["events"])))
        elif ln["op"] == "hdrx":
            ctx.nontrivial.add(("api", ln["target"], ln["c"]["kind"], ln["exc"]))
        elif ln["op"] == "shape":
            ctx.nontrivial.add(("shape", ln["init"]["kind"], ln["init"]["pt"], tuple((h["o"], h["k"], h["b"], h["exc"]) for h in ln["hist"][:3]),
                                ln["method"] == "HEAD", ln["code"]))
        elif ln["op"] == "exc":
            ctx.nontrivial.add(("exc", ln["cls"], ln["via"], ln["method"], ln["out"]["exc"], len(ln["hb"])))
        elif ln["op"] == "hdr":
            c = ln["c"]
            if any(10 in v or 13 in v for v in c["vs"] + [c["kv"]] + [v for p in c["ps"] for v in p["vs"]]):
                ctx.nontrivial.add(("hdr", c["m"], c["form"], len(ln["pre"]), ln["exc"], c.get("kind", "str")))
        else:
            i, o = ln["inp"], ln["out"]
            ctx.nontrivial.add(("fin", i["shape"], i["pt"], i["st"]["kind"], bytes(o["status"][:3]), i["method"], i["cl"]["has"],
                                i["loc"]["has"], i["ac"], i["pre"], i["ncb"] > 0, min(i["plan"], 3)))
    t0 = ctx.elapsed()
    rejects = ctx.judge(AREA, "ResponseTrace", lines, batch=2500)
    ctx.notes["wall_judge_s"] = round(ctx.elapsed() - t0, 1)
    for r in rejects:
        ln = lines[r["t"]]
        k, case = cases[r["t"]]
        if k == "reuse":
            ctx.violation("%s:%s:%s:%dcb" % (r["clause"], ln["shape"], "passthrough" if ln["pt"] else "wrapped", ln["ncb"]),
                          r["clause"], case, kind="reuse")
        elif k == "api":
            ctx.violation(f"Kind{r['clause']}:{case['api']}:{case['kind']}", "Kind" + r["clause"], case, kind="api")
        elif k == "shape":
            ctx.violation(shape_key(r["clause"], ln), r["clause"], case, kind="shape")
        elif k == "exc":
            ctx.violation(f"{r['clause']}:{ln['cls']}:{ln['via']}", r["clause"], case, kind="exc")
        elif k == "hdr":
            c = ln["c"]
            vk = c.get("kind", "str")
            if vk == "str":
                ctx.violation(f"{r['clause']}:{c['m']}:{c['form'] or '-'}" + ("/" + c["carrier"] if c.get("carrier") else ""), r["clause"], case, kind="hdr")
            else:   # value kinds other than str: own clause prefix
                ctx.violation(f"Kind{r['clause']}:{c['m']}:{c['form'] or '-'}:{vk}", "Kind" + r["clause"], case, kind="hdr")
        else:
            ctx.violation(fin_key(r["clause"], ln["inp"]), r["clause"], case, kind="fin")
    return lines


def _mutants(ctx: Ctx, module, cfgs):
    for cfg in cfgs:
        r = tlc.run_tlc(AREA, module, cfg, workers=ctx.workers, tmp=ctx.tmp, allow_violation=True, timeout=900)
        ctx.notes.setdefault("broken_model_variants_rejected", {})[cfg] = r.invariant_violated
        if not r.invariant_violated:
            raise tlc.MachineryError(f"broken model variant {cfg} satisfies every invariant: the invariants are vacuous")


SHAPE_MUTANTS = ["MCB_shape_orig_freeze", "MCB_shape_strict_length"]
FIN_COMBOS = [("GET", 200), ("HEAD", 200), ("GET", 204), ("POST", 304), ("HEAD", 204), ("POST", 200)]


def growth_jobs(ctx: Ctx, rng):
    """body-shape histories (TLC model check + exported LTS replayed + seeded histories) and exceptions as responses"""
    q = ctx.quick
    ctx.assumptions += [
        "shape histories: an iterable must be closed exactly once when it is the wrapped body at finalisation or werkzeug itself "
        "advanced it first (make_sequence / get_data / freeze / calculate_content_length / stream); an iterable the application "
        "replaced before anyone advanced it, or consumed itself through iter_encoded(), only must not be closed twice",
        "shape histories never set Content-Length themselves: every Content-Length in the output was computed by werkzeug",
        "exceptions: raising ValueError from get_response is accepted as the refusal of a CR/LF value only when a header-bound "
        "argument (methods, units, scheme/realm, new_url) contains CR or LF; for HEAD the Content-Length is compared with the GET twin",
    ]
    ctx.model_check(AREA, "MCShape", "MCQ_shape", timeout=900)
    if not q:
        ctx.model_check(AREA, "MCShape", "MCT_shape", timeout=3000)
        ctx.model_check(AREA, "MCShape", "MCT_shape0", timeout=3000)
    _mutants(ctx, "MCShape", SHAPE_MUTANTS[:1] if q else SHAPE_MUTANTS)
    trans = [v for v in ctx.export(AREA, "MCShape", "MCX_shape" if q else "MCX_shape3", timeout=1800, count_states=False)
             if isinstance(v, dict) and "pre" in v]
    cases = R.shape_paths(trans)
    ctx.notes["exported_shape_transitions"] = len(trans)
    if len(cases) < 0.9 * len(trans) or len(cases) < 1000:
        raise tlc.MachineryError(f"shape export: {len(trans)} transitions but only {len(cases)} replayable paths")
    jobs = []
    for n, c in enumerate(cases):
        for j in range(1 if q else 2):
            m, code = FIN_COMBOS[(n + 3 * j) % len(FIN_COMBOS)]
            jobs.append(("shape", {"init": c["init"], "ops": c["ops"], "method": m, "code": code, "ncb": (n + j) % 2}))
    for _ in range(1500 if q else 20000):
        jobs.append(("shape", R.rand_shape_case(rng)))
    for spec in R.exception_specs(rng, 6 if q else 80):
        jobs.append(("exc", spec))
    # one response object sent several times (Reuse.tla / MCReuse.tla)
    ctx.assumptions += ["reuse histories: every send must raise each callback's count and the body's own close count by exactly "
                        "one; an explicit Response.close() (context manager) between sends is recorded but not judged; a generator "
                        "body's close is not countable; the FileWrapper body wraps a file whose close() only counts"]
    ctx.model_check(AREA, "MCReuse", "MCQ_reuse", timeout=900)
    if not q:
        ctx.model_check(AREA, "MCReuse", "MCT_reuse", timeout=1800)
        ctx.model_check(AREA, "MCReuse", "MCT_reuse0", timeout=1800)
    _mutants(ctx, "MCReuse", ["MCB_reuse_regclose"] if q else ["MCB_reuse_regclose", "MCB_reuse_dup"])
    for case in R.reuse_cases(rng, 0 if q else 6000):
        jobs.append(("reuse", case))
    return jobs


REPO_QUICK_FILES = ("tests/test_wrappers.py", "tests/test_datastructures.py", "tests/test_send_file.py", "tests/test_exceptions.py",
                    "tests/test_utils.py", "tests/test_test.py")


def _rfin_line(rec, skipped):
    """a finalisation recorded by harness/pytest_response_plugin.py -> an `rfin` trace line, or None (+ reason).
    Only restrictions of the claimed domain are decided here (always towards "no claim"); the clauses are TLC's."""
    import re

    def skip(reason):
        skipped[reason] = skipped.get(reason, 0) + 1

    if rec["exc"]:
        return skip("finalisation raised %s in the test (not judged)" % rec["exc"])
    status_in = R.txt(rec["status_in"])
    m = re.match(r"^(\d{3}) ", status_in + " ")
    if not m:
        return skip("status line outside 'code reason'")
    code = int(m.group(1))
    supp = rec["method"] == "HEAD" or 100 <= code < 200 or code in (204, 304)
    out_cl = [e for e in rec["headers"] if R.txt(e["n"]).lower() == "content-length"]
    computed = (rec["cl_before"] == 0 and bool(out_cl)) or rec["set_data_cl"]
    if rec["set_data_stale"]:
        skip("note: Content-Length of an earlier set_data body (open finding F101 class): no length claim")
        computed = False
    items = rec["items"]
    fully = rec["observed"] and rec["exhausted"]
    if supp:
        claim = computed and items is not None
    else:
        claim = computed and fully
        if items is None and fully:
            items = [{"k": "b", "v": c} for c in rec["pulled"]]
    if out_cl and not claim:
        skip("note: Content-Length present but set by the application / body not fully observed: no length claim")
    if not rec["observed"]:
        skip("note: direct passthrough iterable returned as is: body and close not observed")
    once = rec["observed"] and rec["closes"] == 1
    if rec["observed"] and not once:
        skip("note: iterable closed %s by the test: close clause not applied" % ("never" if rec["closes"] == 0 else "more than once"))
    cb = rec["cb"] if once else []
    body = [b for c in rec["pulled"] for b in c]
    inp = {"shape": "tuple" if rec["shape"] == "tuple" else "list", "items": items or [], "pt": rec["pt"],
           "st": {"kind": "str", "code": 0, "text": rec["status_in"]}, "method": rec["method"], "cl": {"has": not claim, "val": []},
           "loc": {"has": False, "val": []}, "ac": rec["ac"], "pre": "none", "ncb": len(cb), "plan": len(rec["pulled"]), "ex": [],
           "hdrs": rec["hdrs"], "mhdrs": rec["hdrs"], "envstd": False}
    out = {"exc": "", "status": rec["status"], "headers": rec["headers"], "body": body, "allbytes": rec["allbytes"], "cb": cb,
           "ic": -1, "raw": not rec["observed"]}
    return {"op": "rfin", "inp": inp, "out": out, "test": rec["test"]}


def repo_test_traces(ctx: Ctx, files, min_fin, min_hdr):
    """code -> spec from the repository's own tests (harness/pytest_response_plugin.py): every finalisation and
    every outermost Headers mutator call the tests perform is judged by ResponseTrace (verdict clauses only)."""
    import json
    import os
    import subprocess
    import sys

    from ..core import REPO, VERIF

    out = os.path.join(ctx.tmp, "repo-response-records.json")
    env = dict(os.environ, VERIF_TRACE_OUT=out, PYTHONPATH=VERIF + os.pathsep + os.path.join(REPO, "src"), PYTHONDONTWRITEBYTECODE="1")
    t0 = ctx.elapsed()
    p = subprocess.run([sys.executable, "-m", "pytest", "-q", "-p", "no:cacheprovider", "-p", "harness.pytest_response_plugin",
                        "--no-header", "-n", "0", *files], cwd=REPO, env=env, capture_output=True, text=True, timeout=1500)
    tail = (p.stdout + p.stderr)[-1500:]
    if not os.path.exists(out):
        raise tlc.MachineryError("recording the repository's tests produced no trace file:\n" + tail)
    data = json.load(open(out))
    skipped = dict(data["skipped"])
    lines, tests = [], []
    nfin = 0
    for rec in data["fin"]:
        ln = _rfin_line(rec, skipped)
        if ln is not None:
            tests.append(ln.pop("test"))
            lines.append(ln)
            nfin += 1
    for rec in data["hdr"]:
        rec = dict(rec)
        tests.append(rec.pop("test"))
        rec.pop("count", None)
        lines.append(rec)
    for t, ln in enumerate(lines):
        ln["t"], ln["i"] = t, 0
    note = {"files": list(files), "finalisations_recorded": len(data["fin"]), "finalisations_judged": nfin,
            "header_calls_recorded": sum(r.get("count", 1) for r in data["hdr"]), "distinct_header_calls_judged": len(data["hdr"]),
            "skipped_or_restricted_by_reason": skipped, "pytest_exit": p.returncode, "wall_record_s": round(ctx.elapsed() - t0, 1)}
    ctx.notes["repo_tests"] = note
    if nfin < min_fin or len(data["hdr"]) < min_hdr:
        raise tlc.MachineryError(f"too few records from the repository's tests: {nfin} finalisations, {len(data['hdr'])} header calls\n{tail}")
    ndrift = len(ctx.model_drift)
    rejects = ctx.judge(AREA, "ResponseTrace", lines, batch=2500)
    note["model_drift_records"] = len(ctx.model_drift) - ndrift
    ctx.count(len(lines))
    seen = {}
    for r in rejects:
        ln = lines[r["t"]]
        test = tests[r["t"]]
        key = "RepoTests.%s:%s" % (r["clause"], test.split("::")[0] or "?")
        seen[key] = seen.get(key, 0) + 1
        ctx.violation(key, "RepoTests." + r["clause"], {"test": test, "line": ln}, kind="repo-tests")
    note["rejected_keys"] = seen
    if p.returncode != 0 and not rejects:
        raise tlc.MachineryError("the repository's tests do not pass under the recording plugin:\n" + tail)
    ctx.nontrivial.update(("repo", tests[t]) for t in range(len(lines)))
    for t in range(0, len(lines), max(1, len(lines) // 3)):
        ctx.sample({"repo_test": tests[t], "op": lines[t]["op"]})


def run(ctx: Ctx):
    q = ctx.quick
    rng = random.Random(ctx.seed)
    ctx.rule = ("case = one mutator call on a real Headers object (from a TLC-exported transition or a seeded random "
                "history) or one real Response finalised with get_wsgi_response, iterated and closed (from the TLC-exported "
                "decision table or a seeded random input); non-trivial = distinct (mutator, argument form, list length, outcome) "
                "with a CR/LF value, resp. distinct (shape, passthrough, status kind, status code, method, preset length, "
                "location, autocorrect, pre-access, callbacks, plan) combination")
    ctx.assumptions += [
        "Content-Length for HEAD / 304 is read as RFC 7230 3.3.2: the length the same response has for GET",
        "'werkzeug computes the length' := the application did not set Content-Length itself after construction",
        "Location domain: IRIs that urlsplit / IDNA accept (no lone surrogates, no invalid IDN labels, no unbalanced brackets)",
        "status strings are 'code reason' with an ASCII reason; body items are str or bytes (str only outside passthrough)",
        "close counts of a generator body are observed as closed/not closed (gi_frame), of iterators and files as call counts",
        "header names are not part of the property (only values are checked for CR/LF)",
    ]
    # 1. model checking (+ export in the same run for the mutator LTS)
    trans = [v for v in ctx.export(AREA, "MCHeaders", "MCX_hdr", timeout=900) if isinstance(v, dict) and "pre" in v]
    table = [v for v in ctx.export(AREA, "MCFinal", "MCX_fin", timeout=900) if isinstance(v, dict) and "shape" in v]
    if q:
        _mutants(ctx, "MCHeaders", HDR_MUTANTS[2:3])
        _mutants(ctx, "MCFinal", FIN_MUTANTS[3:4])
    else:
        ctx.model_check(AREA, "MCFinal", "MCQ_fin", timeout=900)
        ctx.model_check(AREA, "MCHeaders", "MCT_hdr", timeout=3000)
        ctx.model_check(AREA, "MCFinal", "MCT_fin", timeout=3000)
        _mutants(ctx, "MCHeaders", HDR_MUTANTS)
        _mutants(ctx, "MCFinal", FIN_MUTANTS)
    ctx.exhaustive = True
    ctx.notes["exported_mutator_transitions"] = len(trans)
    ctx.notes["exported_table_inputs"] = len(table)
    if len(trans) < 1000 or len(table) < 1000:
        raise tlc.MachineryError(f"export too small: {len(trans)} transitions, {len(table)} table rows")
    # 2. spec -> code
    jobs = []
    if q:   # quick: a seeded sample of the exported transitions (thorough replays all of them)
        trans = rng.sample(trans, min(len(trans), 12000))
    kinds = [k for k in R.VALUE_KINDS if k not in ("int", "literal")]     # kinds whose str() is the model's text
    for n, tr in enumerate(trans):
        c = dict(tr["c"], kind=kinds[(n // 2) % len(kinds)])
        jobs.append(("hdr", {"pre": tr["pre"], "c": c, "target": "Headers" if n % 2 else "Response.headers"}))
    ncar = 0
    for n, tr in enumerate(trans):       # the same transitions with the argument carried by the other documented types
        cs = R.carriers_for(tr["c"])
        if cs and (not q or ncar < 4000):
            for j, car in enumerate(cs if not q else [cs[n % len(cs)]]):
                c = dict(tr["c"], kind=kinds[(n + j) % len(kinds)], carrier=car)
                jobs.append(("hdr", {"pre": tr["pre"], "c": c, "target": "Headers" if (n + j) % 2 else "Response.headers"}))
                ncar += 1
    ctx.notes["carrier_transitions"] = ncar
    for spec in R.api_specs(rng, 4 if q else 10):
        jobs.append(("api", spec))
    for row in table:
        row = dict(row)
        row["mhdrs"] = row.pop("hdrs")
        jobs.append(("fin", row))
    # 3. code -> spec
    for _ in range(250 if q else 4000):
        jobs.append(("hist", {"seed": rng.getrandbits(48), "steps": 8 if q else 12}))
    for n in range(4000 if q else 60000):
        inp = R.rand_fin_input(rng)
        if n % 3 == 0:
            R.with_history(rng, inp, rng.randint(1, 5))
        jobs.append(("fin", inp))
    jobs += growth_jobs(ctx, rng)
    lines = judge_jobs(ctx, jobs)
    repo_test_traces(ctx, REPO_QUICK_FILES if q else ("tests",), 80 if q else 110, 400 if q else 550)
    for ln in lines[:: max(1, len(lines) // 5)]:
        if ln["op"] in ("shape", "exc", "hdrx", "reuse"):
            continue
        if ln["op"] == "fin":
            i, o = ln["inp"], ln["out"]
            ctx.sample({"shape": i["shape"], "items": [R.txt(x["v"]) if x["k"] == "s" else bytes(x["v"]).hex() for x in i["items"]],
                        "status_in": i["st"], "method": i["method"], "status_out": R.txt(o["status"]),
                        "headers_out": [[R.txt(e["n"]), R.txt(e["v"])] for e in o["headers"]], "body_out": bytes(o["body"]).hex(),
                        "callbacks": o["cb"], "iterable_closed": o["ic"]})
        else:
            ctx.sample({"call": ln["c"]["m"], "form": ln["c"]["form"], "pre": [[R.txt(e["n"]), R.txt(e["v"])] for e in ln["pre"]],
                        "exc": ln["exc"], "post": [[R.txt(e["n"]), R.txt(e["v"])] for e in ln["post"]]})


def replay(ctx: Ctx, data):
    case = data["case"]
    if data.get("kind") == "repo-tests":
        ln = dict(case["line"], t=0, i=0)
        ctx.sample({"repo_test": case["test"]})
        ctx.nontrivial.update({("replay", 0), ("replay", 1)})
        ctx.count(1)
        for r in ctx.judge(AREA, "ResponseTrace", [ln]):
            ctx.violation("RepoTests.%s:%s" % (r["clause"], case["test"].split("::")[0]), "RepoTests." + r["clause"], case, kind="repo-tests")
        return
    kind = data.get("kind") or ("fin" if "shape" in case else "hdr")
    if kind == "c05":
        kind = "fin" if "shape" in case else "hdr"
    ctx.sample(case)
    ctx.nontrivial.update({("replay", 0), ("replay", 1)})
    judge_jobs(ctx, [(kind, case)])
