"""X06 (extension area) -- the development server's reloader (src/werkzeug/_reloader.py, docs/serving.rst "Reloader").

Contract = what docs/serving.rst, the run_simple parameter documentation, the docstrings / comments of _reloader.py and
the CHANGES entries about the reloader state; every clause in spec/reloader/Reloader.tla (model) and
spec/reloader/ReloaderTrace.tla (judge) quotes its sentence:
  safety   ReloadOnlyOnChange, FirstSightRecords, NeverForExcluded, ReloadOnlyObserved, ReloadExitsWith3 / WatcherCrash
           (a file that disappears is skipped), ScanMissesNothing / ChangeMissed, RestartOnlyAfter3, StopsWithChildCode,
           ChildRunsMain (WERKZEUG_RUN_MAIN=true), SameArguments, OneChild, RegularInterval, AppThreadStarted, MainOnlyInChild,
           ArgsReconstructInvocation (_get_args_for_reloading), EchoEnabled / EchoNoCrash (ensure_echo_on),
           WdReloadOnlyOnChange, WdIgnoredEventTypes, WdNeverForExcluded, WdReloadOnlyObserved, WdChangeMissed,
           WdExitAfterChange, WdExitsWith3, WdWatchCovers (WatchdogReloaderLoop)
  liveness (weak fairness of the watcher thread and of the parent) ChangeLeadsToReload, ChangeLeadsToNewChild,
           Exit3LeadsToRestart, OtherExitLeadsToStop, KeepsScanning

1. TLC model-checks Reloader.tla: processes Parent (restart_with_reloader), ChildWatcher (StatReloaderLoop: listing, one
   stat per step, first sight / newer / OSError) and FileSystem (touch / create / delete at any point of a scan, child
   dying on its own), every interleaving for <= 3 files, <= 3 mtime values, <= 2 restarts; safety as invariants / action
   properties, liveness under WF.  Hand-broken variants (trigger on first sight, two changes in one scan cancel, restart
   on every / every non-zero exit code, never restart, exclude patterns ignored, crash on a vanished file, >=, <, exit
   code 1, child without WERKZEUG_RUN_MAIN, parent stops with 0, no fairness) must each fail their property.
   Watchdog.tla: observer thread + reloader loop of WatchdogReloaderLoop over abstract paths (watched pattern? excluded
   per fnmatch? per watchdog's own matching?); the two behaviours before repo commit 1626832 (ValueError "conflicting
   patterns" killing the observer thread; exclusion by PurePath.match instead of fnmatch, both directions) are kept as
   broken variants that must fail, next to opened-events-count, no exit, exit code 1.
2. spec -> code: the labelled transition system of the model (scans atomic up to events right after the listing) is
   exported; one schedule per transition (shortest path + the transition + the rest of the scan) and seeded random walks
   are executed on the real code in-process (harness/reloader.py: real restart_with_reloader / run_with_reloader, real
   StatReloaderLoop over a scratch directory with os.utime-set mtimes; subprocess.call, time.sleep, threading.Thread and
   sys.modules / sys.path supplied by the harness; no thread, no sleeping).
3. code -> spec: directed and seeded random longer schedules (more files, all file kinds, fnmatch patterns, events
   between the stats of a scan, KeyboardInterrupt, both drivers), _get_args_for_reloading over every way of invocation,
   ensure_echo_on on a pseudo terminal, and - watchdog being importable - the real WatchdogReloaderLoop with a stub
   observer and synthetic events (Wd... clauses: reload only for change events on observed, non-excluded files; opened /
   closed-no-write ignored; exit 3 after the change; the watched directories cover every observed file).
Every recorded run is judged by ReloaderTrace.tla (TLC).  Python records, TLC decides.
"""
from __future__ import annotations

import concurrent.futures as cf
import copy
import fnmatch
import random

from .. import reloader as rl
from .. import tlc
from ..core import Ctx, cps, pmap
from ..tlc import MachineryError

LEVEL = "model_checking"
AREA = "reloader"
MC = "MCReloader"
JUDGE = "ReloaderTrace"

# broken model variant -> the property that must fail (cfg MCM_<name>)
MUTANTS = {
    "first_sight": "ReloadOnlyOnChange",        # a file seen for the first time after start-up ends the child
    "toggle": "ScanMissesNothing",              # two files changed in one interval: the change is missed
    "restart_any": "RestartOnlyAfter3",         # the parent restarts on every exit code
    "exclude_ignored": "NeverForExcluded",      # exclude patterns ignored
    "restart_nonzero": "RestartOnlyAfter3",
    "restart_never": "Exit3LeadsToRestart",     # (liveness)
    "stop_zero": "StopsWithChildCode",
    "crash_on_missing": "WatcherExitsOnlyWith3",
    "ge": "ReloadOnlyOnChange",
    "lt": "ChangeLeadsToReload",                # (liveness)
    "exit_code": "WatcherExitsOnlyWith3",
    "no_runmain": "ChildRunsMain",
    "nofair": "KeepsScanning",                  # (liveness) the same model without fairness of the watcher
}
QUICK_MUTANTS = ["first_sight", "toggle", "restart_any", "exclude_ignored", "lt"]
# Watchdog.tla (observer thread + reloader loop): cfg MCW_<name> -> the property that must fail.  The first three are the
# behaviours of WatchdogReloaderLoop before repo commit 1626832 (FX06-1, FX06-2)
WD_MUTANTS = {
    "conflict_raises": "ObserverAlive",          # exclude pattern == watched pattern: ValueError on every event
    "purepath_exclude": "WdOnlyObservedChange",  # excluded per fnmatch, not per watchdog's matching: reload for an excluded file
    "purepath_missed": "WdChangeLeadsToExit",    # the other direction: a change of a file that does not fnmatch is ignored
    "opened_counts": "WdOnlyObservedChange",
    "no_exit": "WdChangeLeadsToExit",
    "exit_code": "WdExitsWith3",
}
QUICK_WD_MUTANTS = ["conflict_raises", "purepath_exclude", "purepath_missed"]

_TMP = None

# a fixed run whose recorded line is corrupted for the judge's self test: reload after a touch of an extra file, then
# the second child dies with exit code 1 and the parent stops with it
SELFTEST_CASE = {"files": [{"kind": "extra", "init": 1}, {"kind": "module", "init": 1}, {"kind": "stray", "init": 1}], "pats": [],
                 "sched": [{"k": "scan", "race": []}, {"k": "env", "op": "touch", "f": 3, "m": 2}, {"k": "scan", "race": []},
                           {"k": "env", "op": "touch", "f": 1, "m": 2}, {"k": "scan", "race": []},
                           {"k": "scan", "race": [{"op": "delete", "f": 2, "m": 0, "at": 0}]}, {"k": "env", "op": "die", "c": 1}],
                 "mode": "direct", "interval": 1000}


def _exec(job):
    kind, case = job
    if kind == "case":
        return rl.run_case(copy.deepcopy(case), _TMP)
    if kind == "args":
        return rl.run_args(case, _TMP)
    if kind == "echo":
        return rl.run_echo(case, _TMP)
    if kind == "wd":
        return rl.run_wd(case, _TMP)
    raise ValueError(kind)


def _check_mutant(ctx: Ctx, name: str, module=MC, prefix="MCM_", table=None):
    want = (table or MUTANTS)[name]
    try:
        r = tlc.run_tlc(AREA, module, prefix + name, workers=2, tmp=ctx.tmp, allow_violation=True, timeout=600)
        got = r.invariant_violated
    except MachineryError as e:          # temporal violations are reported by TLC in a form run_tlc does not classify
        msg = str(e)
        got = want if ("Temporal propert" in msg and want in msg and "violated" in msg) else None
        if got is None:
            raise
    if got != want:
        raise MachineryError(f"broken model variant {name}: expected {want} to be violated, TLC reported {got!r}")
    return name, want


def _key(case, ln, r):
    cl, step = r["clause"], r.get("step", 0)
    if ln["op"] == "wd":
        f = r.get("file", 0)
        e = ln["ev"][step - 1] if 0 < step <= len(ln["ev"]) else {"e": "-"}
        return f"{cl}:wd:{e['e']}:{case['files'][f - 1]['kind'] if 0 < f <= len(case['files']) else '-'}:{rl.wd_label(case)}"
    if ln["op"] != "case":
        return f"{cl}:{ln['op']}:{ln['kind']}"
    e = ln["ev"][step - 1] if 0 < step <= len(ln["ev"]) else {"e": "-", "f": 0}
    f = r.get("file") or e["f"]
    kind = case["files"][f - 1]["kind"] if 0 < f <= len(case["files"]) else "-"
    return f"{cl}:{case['mode']}:{e['e']}:{kind}"


def _show(case, ln, r=None):
    if ln["op"] == "wd":
        evs = []
        for e in ln["ev"]:
            d = {k: v for k, v in e.items() if k in ("e", "s", "f", "m", "c") and v not in ("", 0)}
            if e["e"] == "wd_watch":
                d["dir"] = "".join(map(chr, e["a"][0]))
            evs.append(d)
        return {"op": "wd", "case": case, "patterns": ["".join(map(chr, p)) for p in ln["pats"]],
                "paths": ["".join(map(chr, f["path"])) for f in ln["files"]], "events": evs, "failing_event": (r or {}).get("step", 0)}
    if ln["op"] != "case":
        out = {"op": ln["op"], "case": case}
        if ln["op"] == "args":
            out["got"] = ["".join(map(chr, x)) for x in ln["got"]]
            out["exc"] = ln["exc"]
        else:
            out.update({k: ln[k] for k in ("before", "after", "same", "exc")})
        return out
    evs = []
    for e in ln["ev"]:
        d = {k: v for k, v in e.items() if k in ("e", "s", "f", "m", "c") and v not in ("", 0)}
        if e["e"] == "spawn":
            d["argv"] = ["".join(map(chr, x)) for x in e["a"]]
        if e["e"] == "scan_end":
            d["mtimes"] = e["mt"]
        evs.append(d)
    return {"op": "case", "case": case, "patterns": ["".join(map(chr, p)) for p in ln["pats"]],
            "paths": ["".join(map(chr, f["path"])) for f in ln["files"]], "events": evs,
            "failing_event": (r or {}).get("step", 0)}


def _nontrivial(ctx, case, ln):
    if ln["op"] == "wd":
        ctx.nontrivial.add(("wd", len(case["pats"]) > 0, tuple((e["e"], e["s"], case["files"][e["f"] - 1]["kind"] if e["f"] else "")
                                                               for e in ln["ev"] if e["e"] in ("wd_event", "wd_flag", "exit"))))
        return
    if ln["op"] != "case":
        ctx.nontrivial.add((ln["op"], ln["kind"], len(ln.get("rest", []))))
        return
    sig = tuple((e["e"], e["s"], case["files"][e["f"] - 1]["kind"] if 0 < e["f"] <= len(case["files"]) else "")
                for e in ln["ev"] if e["e"] in ("scan_end", "die", "parent_exit", "fs"))
    first = next((k for k, e in enumerate(ln["ev"]) if e["e"] == "spawn"), len(ln["ev"]))
    if any(e["e"] == "scan_end" and e["s"] == "exit" for e in ln["ev"]) or any(e["e"] == "fs" for e in ln["ev"][first:]):
        ctx.nontrivial.add((case["mode"], len(case["pats"]) > 0, sig))


def _corrupt(ln):
    """deliberately corrupted copies of a good recorded line -> the clause the judge must answer with"""
    out = []
    for k, e in enumerate(ln["ev"]):
        if e["e"] == "scan_end" and e["s"] == "exit" and e["c"] == 3:
            a = copy.deepcopy(ln)
            a["ev"][k]["c"] = 1
            out.append((a, "ReloadExitsWith3"))
            b = copy.deepcopy(ln)
            b["ev"][k]["s"], b["ev"][k]["f"] = "ok", 0
            b["ev"] = b["ev"][: k + 1]
            out.append((b, "ChangeMissed"))
            break
    for k, e in enumerate(ln["ev"]):
        if e["e"] == "spawn":
            a = copy.deepcopy(ln)
            a["ev"][k]["s"] = "unset"
            out.append((a, "ChildRunsMain"))
            b = copy.deepcopy(ln)
            b["ev"][k]["a"] = b["ev"][k]["a"][:-1]
            out.append((b, "SameArguments"))
            break
    for k, e in enumerate(ln["ev"]):
        if e["e"] == "parent_exit":
            a = copy.deepcopy(ln)
            a["ev"][k]["c"] = (e["c"] + 1) % 256
            out.append((a, "StopsWithChildCode"))
            break
    return out


def glob_selftest(rng: random.Random, n: int):
    """the judge's Glob against Python's fnmatch (a disagreement is a machinery failure, never a verdict)"""
    names = ["/v/t/x06-a/conf/e1.cfg", "/v/t/x06-a/mods/m2.py", "/v/t/x06-a/root/p1.py", "/v/t/x06-a/root/pkg/q3.py",
             "/v/t/x06-a/libs/z1.zip", "a", "", "/v/t/x06-a/root/c2.pyc", "ab]c", "a-c", "x.PY"]
    pats = [p.replace("{B}", "/v/t/x06-a") for p in rl.PATTERNS] + ["*", "", "[", "[]", "[]]*", "a[]]c", "ab[]]c", "[a-c]", "[!a-c]", "a[-]c",
                                                                     "a[b-]c", "**", "*?*", "[!]]*", "*[", "a[", "[a", "?*?", "[a-]", "x.[P][Y]"]
    out = []
    for p in pats:
        for s in names:
            out.append({"op": "glob", "pat": cps(p), "s": cps(s), "got": fnmatch.fnmatchcase(s, p)})
    alpha = "ab*?[]!-/."
    for _ in range(n):
        p = "".join(rng.choice(alpha) for _ in range(rng.randint(0, 6)))
        s = "".join(rng.choice("ab/.-]![") for _ in range(rng.randint(0, 6)))
        out.append({"op": "glob", "pat": cps(p), "s": cps(s), "got": fnmatch.fnmatchcase(s, p)})
    return out


def judge_jobs(ctx: Ctx, jobs, kind="x06", selftest=True, extra_lines=()):
    global _TMP
    _TMP = ctx.tmp
    lines = pmap(_exec, jobs, workers=min(ctx.workers, 8), chunksize=16)
    for t, ln in enumerate(lines):
        ln["t"], ln["i"] = t, 0
        ctx.count(1)
        _nontrivial(ctx, jobs[t][1], ln)
    n = len(lines)
    step = max(1, n // 5)
    for t in range(0, n, step):
        s = _show(jobs[t][1], lines[t])
        s.pop("case", None)
        s.pop("paths", None)
        ctx.sample(s)
    # self test: corrupted copies of good lines must be rejected with the expected clause
    expected = {}
    allv = list(lines)
    if selftest and jobs and jobs[0][1] is SELFTEST_CASE:
        for bad, clause in _corrupt(lines[0]):
            bad["t"] = len(allv)
            expected[bad["t"]] = clause
            allv.append(bad)
    for x in extra_lines:
        x = dict(x, t=len(allv), i=0)
        allv.append(x)
    before = len(ctx.model_drift)
    rejects = ctx.judge(AREA, JUDGE, allv, batch=400 if ctx.quick else 1500)
    ctx.traces -= len(allv) - n
    new, ctx.model_drift[before:] = ctx.model_drift[before:], []
    counts = ctx.notes.setdefault("drift_kinds_first_50", {})
    for d in new:
        if d.get("what") == "glob-selftest":
            raise MachineryError(f"the judge's Glob disagrees with fnmatch on {allv[d['t']]}")
        if d["what"] not in counts and d["t"] < n:
            ctx.model_drift.append(dict(d, example=_show(jobs[d["t"]][1], lines[d["t"]])["events"][-12:] if lines[d["t"]]["op"] == "case" else ""))
        counts[d["what"]] = counts.get(d["what"], 0) + 1
    seen = {}
    fixed_bad = False
    for r in rejects:
        if r["t"] in expected:
            seen[r["t"]] = r["clause"]
            continue
        if r["t"] == 0 and expected:
            fixed_bad = True        # the fixed case itself is rejected: a verdict, no self test on top of it
        ln, case = lines[r["t"]], jobs[r["t"]][1]
        ctx.violation(_key(case, ln, r), r["clause"], {"job": jobs[r["t"]][0], "case": case, "observed": _show(case, ln, r)}, kind=kind)
    if fixed_bad:
        expected = {}
    for t, clause in expected.items():
        if seen.get(t) != clause:
            raise MachineryError(f"self test: corrupted line expected to be rejected with {clause}, judge said {seen.get(t)!r}")
    if selftest and expected:
        if len(expected) != 5:
            raise MachineryError("self test: the fixed case no longer produces a reload, a restart and a final exit code")
        ctx.notes["corrupted_lines_rejected"] = sorted(set(expected.values()))
    return lines


def model_checks(ctx: Ctx):
    q = ctx.quick
    cfgs = ["MCQ"] if q else ["MCQ", "MCQ_coarse", "MCQ_ne", "MCT", "MCT_ne"]
    muts = QUICK_MUTANTS if q else list(MUTANTS)
    w = max(2, min(ctx.workers, 8) // 2)
    with cf.ThreadPoolExecutor(max_workers=4) as ex:
        futs = [ex.submit(ctx.model_check, AREA, MC, c, workers=w if c.startswith("MCQ") else ctx.workers, timeout=7200) for c in cfgs]
        mf = [ex.submit(_check_mutant, ctx, m) for m in muts]
        futs.append(ex.submit(ctx.model_check, AREA, "Watchdog", "MCW", workers=2, timeout=600))
        wf = [ex.submit(_check_mutant, ctx, m, "Watchdog", "MCW_", WD_MUTANTS) for m in (QUICK_WD_MUTANTS if q else list(WD_MUTANTS))]
        exp = ex.submit(ctx.export, AREA, MC, "MCX" if q else "MCXT", count_states=False, timeout=3600)
        for f in futs:
            f.result()
        ctx.notes["broken_model_variants_fail"] = dict(f.result() for f in mf)
        ctx.notes["broken_watchdog_model_variants_fail"] = dict(f.result() for f in wf)
        rows = exp.result()
    ctx.exhaustive = True
    return rows


def run(ctx: Ctx):
    q = ctx.quick
    ctx.rule = ("case = one run of the real reloader code driven in-process and judged by TLC: (files of given kinds with initial "
                "mtimes, exclude patterns, schedule of touch / create / delete events, scans with events racing inside them, child "
                "deaths) on restart_with_reloader + StatReloaderLoop or on run_with_reloader; or one invocation scenario of "
                "_get_args_for_reloading; or ensure_echo_on on a pseudo terminal.  Schedules: one per transition of the exported TLC "
                "model + random walks over it + seeded random longer ones.  Non-trivial = distinct (driver, patterns?, sequence of "
                "fs events / scan outcomes / exits by file kind) with at least one fs event after start-up or a reload")
    ctx.assumptions += [
        "WatchdogReloaderLoop (watchdog is importable here, so reloader_type='auto' selects it) is driven without its observer "
        "thread: a stub observer records schedule() calls and synthetic watchdog events are dispatched to the loop's real event "
        "handler while its real run() sleeps; inotify itself and the order / coalescing of real events are not exercised. Event "
        "types 'deleted', 'moved away', 'closed' on an observed file may or may not reload (not stated)",
        "the child process is simulated in-process: subprocess.call is replaced by a function that runs the child's real code "
        "(StatReloaderLoop / run_with_reloader) to its SystemExit; time.sleep, threading.Thread, sys.modules / sys.path / argv / stdin "
        "and os.stat (as a hook point only) are supplied by the harness; SIGTERM handling is not exercised",
        "mtimes are quarter seconds after 10^9 s set with os.utime on the scratch file system (exact as floats)",
        "an mtime that moves backwards is not acted on by the code (mtime > recorded); the documentation says 'change' without "
        "defining it further: accepted either way, reported as drift",
        "whether a recorded mtime survives a scan that found the file gone, compiled files / non-Python files below sys.path or an "
        "extra directory: not stated, accepted either way",
        "the legacy branch of _get_args_for_reloading (Python < 3.10) is entered by presenting sys.version_info (3, 9) through the "
        "stand-in for sys on this interpreter",
    ]
    rows = model_checks(ctx)
    lts = rl.LTS(rows)
    ctx.notes["lts"] = {"states": len(lts.state), "transitions": len(lts.edges), "initial": len(lts.inits)}
    if not lts.inits or not lts.edges:
        raise MachineryError("export produced no transition system")
    rng = random.Random(ctx.seed)
    jobs, seen = [("case", SELFTEST_CASE)], set()

    def add(i0, acts, mode):
        case = rl.case_from_model(lts.state[i0], acts, rng, mode)
        k = (tuple(lts.state[i0]["cls"]), tuple(lts.state[i0]["fs"]), mode, repr(case["sched"]))
        if k in seen or not case["sched"]:
            return
        seen.add(k)
        jobs.append(("case", case))

    # (a) one schedule per model transition
    paths = list(lts.transition_paths())
    if q:
        paths = rng.sample(paths, min(len(paths), 900))
    for i0, acts in paths:
        add(i0, acts, "direct" if rng.random() < 0.6 else "rwr")
    ctx.notes["transition_schedules"] = len(jobs)
    # (b) random walks over the model
    for _ in range(150 if q else 6000):
        i0, acts = lts.walk(rng, rng.randint(8, 60))
        add(i0, acts, rng.choice(["direct", "rwr"]))
    # (c) seeded random longer schedules, invocation scenarios, terminal echo
    for c in rl.directed_cases(rng, 12 if q else 400):
        jobs.append(("case", c))
    for _ in range(450 if q else 25000):
        jobs.append(("case", rl.random_case(rng, big=not q)))
    for c in rl.args_cases(rng, 40 if q else 2000):
        jobs.append(("args", c))
    for c in rl.ECHO_CASES:
        jobs.append(("echo", c))
    ctx.notes["watchdog_importable"] = rl.watchdog_available()
    if rl.watchdog_available():
        for c in rl.wd_cases(rng, 250 if q else 8000):
            jobs.append(("wd", c))
    judge_jobs(ctx, jobs, extra_lines=glob_selftest(rng, 100 if q else 3000))


def replay(ctx: Ctx, data):
    c = data["case"]
    ctx.sample({"replay": c.get("job", "case")})
    ctx.nontrivial.update({("replay", 0), ("replay", 1)})
    judge_jobs(ctx, [(c.get("job", "case"), c["case"])], kind=data.get("kind") or "x06", selftest=False)
