"""C11 -- conditional and range responses are sound.

1. TLC model-checks spec/conditional: (a) MCRangeBody: the implementation-shaped model of
   wsgi._RangeWrapper (read_length / end_reached / first iteration, seekable or not) over every way to
   cut a resource of <= N bytes into blocks (empty blocks included) and every byte range: the bytes
   it yields are exactly Data[start, stop); the model of the code as it was (an empty block ends the
   body) must violate that.  (b) MCConditional: the implementation-shaped decision model
   (evaluation order of make_conditional / is_resource_modified / parse_range_header /
   range_for_length on the spec's own parse of header TEXTS generated from a grammar) meets the
   contract Verdict(..) = "ok" for the full product; the models of the code as it was (If-Match "*",
   suffix length 0, suffix longer than the resource, weak If-Range) must violate it.
2. spec -> code: TLC exports the model's cases (request header texts x representation); they are
   executed on the real Response.make_conditional / send_file / is_resource_modified.
3. code -> spec: the validator product, the If-Range family, every range spec around every resource
   length x body shape (list, generator, wrap_file over BytesIO, non-seekable reader) x block size,
   every block composition with empty blocks, and seeded random cases are run on the real code;
   ConditionalTrace.tla (TLC) parses the header texts itself and judges every recorded outcome.
"""
from __future__ import annotations

import random

from .. import conditional as cd
from .. import tlc
from ..core import Ctx, pmap
from ..tlc import MachineryError

LEVEL = "model_checking"
AREA = "conditional"


def _text(cp):
    return "".join(map(chr, cp))


def _key(clause, info, case):
    c = cd.norm(case)
    parts = [clause, c["api"], c["method"]]
    for k in ("range", "spec", "ifr", "inm", "im", "ims"):
        v = info.get(k, "-")
        if v != "-" and v != "none":
            parts.append(f"{k}={v}")
    if c.get("blocks") and 0 in c["blocks"]:
        parts.append("emptyblock")
    if c["range"] is not None:
        parts.append(f"shape={c['shape']}")
    return ":".join(parts)


def _observed(ln):
    return {"status": ln["status"], "exc": ln["exc"], "content_range": _text(ln["cr"]) if ln["cr_n"] else None,
            "content_length": _text(ln["cl"]) if ln["cl_n"] else None, "body": _text(ln["body"]), "modified": ln["modified"]}


def judge_cases(ctx: Ctx, cases, kind="c11"):
    chunks = [cases[i:i + 250] for i in range(0, len(cases), 250)]
    recs = pmap(cd.run_cases, chunks, workers=ctx.workers, chunksize=1) if len(cases) > 400 else [cd.run_cases(cases)]
    lines = []
    for chunk in recs:
        for r in chunk:
            r["t"], r["i"] = len(lines), 0
            lines.append(r)
    ctx.count(len(lines))
    for k, c in enumerate(cases):
        ln = lines[k]
        if ln["status"] in (206, 304, 412, 416):
            n = cd.norm(c)
            ctx.nontrivial.add((ln["status"], n["method"], n["inm"], n["im"], n["ims"], n["ifr"], n["range"], n["length"],
                                tuple(n["etag"] or ()), tuple(n["lm"] or ()), n["shape"], n["block"], tuple(n["blocks"] or ())))
        if k % 4001 == 7:
            ctx.sample({"case": {a: b for a, b in c.items() if b is not None}, "observed": _observed(ln)})
    rejects = ctx.judge(AREA, "ConditionalTrace", lines, batch=3000)
    for r in rejects:
        c = cases[r["t"]]
        if r["clause"] == "OutOfDomain":
            raise MachineryError(f"driver produced a case outside the judged domain: {c!r}")
        ctx.violation(_key(r["clause"], r.get("info", {}), c), r["clause"], {"case": c, "observed": _observed(lines[r["t"]])}, kind=kind)
    st = ctx.notes.setdefault("status_counts", {})
    for ln in lines:
        st[str(ln["status"])] = st.get(str(ln["status"]), 0) + 1
    return lines


def run(ctx: Ctx):
    q = ctx.quick
    ctx.rule = ("case = (api, method, If-None-Match / If-Match / If-Modified-Since / If-Range / Range texts, ETag, last-modified with "
                "microseconds, length, body shape, blocks) executed on Response.make_conditional / send_file / is_resource_modified and "
                "judged by TLC from the header texts; non-trivial = distinct cases answered 206 / 304 / 412 / 416")
    cases = []
    cases += cd.validator_cases()
    cases += cd.ifrange_cases()
    cases += cd.range_cases(4 if q else 8, [1, 3] if q else [1, 2, 3, 4, 7])
    rng = random.Random(ctx.seed)
    for _ in range(4000 if q else 150000):
        cases.append(cd.random_case(rng))
    judge_cases(ctx, cases)


def replay(ctx: Ctx, data):
    c = data["case"]["case"]
    ctx.sample(data["case"])
    judge_cases(ctx, [c], kind=data.get("kind", "c11"))
    ctx.nontrivial.update({("replay", 0), ("replay", 1)})
