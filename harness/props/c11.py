"""C11 -- conditional and range responses are sound.

1. TLC model-checks spec/conditional: (a) MCRangeBody: the implementation-shaped model of
   wsgi._RangeWrapper (read_length / end_reached / first iteration, seekable or not) over every way to
   cut a resource of <= N bytes into blocks (empty blocks included) and every byte range: the bytes
   it yields are exactly Data[start, stop); the model of the code as it was (an empty block ends the
   body) must violate that.  (b) MCConditional: the implementation-shaped decision model
   (evaluation order of make_conditional / is_resource_modified / parse_range_header /
   range_for_length on the spec's own parse of header TEXTS generated from a grammar) meets the
   contract Verdict(..) = "ok" for the full product; the models of the code as it was (If-Match "*",
   suffix length 0, suffix longer than the resource, weak If-Range) must violate it.
2. spec -> code: TLC exports the model's cases (request header texts x representation); they are
   executed on the real Response.make_conditional / send_file / is_resource_modified.
   Growth: family "rangecond" (Range combined with If-None-Match / If-Modified-Since / If-Match; the code as it was --
   Range processed first -- must violate RangeCond Complete304).
3. code -> spec: the validator product, the If-Range family, every range spec around every resource
   length x body shape (list, generator, wrap_file over BytesIO, non-seekable reader) x block size,
   every block composition with empty blocks, and seeded random cases are run on the real code;
   ConditionalTrace.tla (TLC) parses the header texts itself and judges every recorded outcome.
   Growth: Range + validators (clauses RangeCond/..); FileValidators.tla: send_file / send_from_directory /
   SharedDataMiddleware over a real temporary tree (first response, then the request carrying its validators after
   no change / size / mtime +1 s / +-0.5 s inside and across a second; every range spec on files of length 0..N;
   conditional=False, X-Sendfile; clauses File/.., other generation rules as drift); add_etag / set_etag / get_etag /
   freeze followed by If-None-Match / If-Match (clauses EtagApi/..).
"""
from __future__ import annotations

import random

from .. import conditional as cd
from .. import tlc
from ..core import Ctx, pmap
from ..tlc import MachineryError

LEVEL = "model_checking"
AREA = "conditional"


def _text(cp):
    return "".join(map(chr, cp))


def _key(clause, info, case):
    op = case.get("op")
    if op == "filesc":
        cfg = case["cfg"]
        return ":".join([clause, cfg["api"], "etag=" + cfg["etag_mode"], "change=" + case["change"], "sent=" + case["sent"],
                         case.get("method", "GET")] + (["range"] if case.get("range") else []) + (["first"] if case.get("first") else []))
    if op == "etag":
        return ":".join([clause, case["via"], "weak" if case.get("weak") else "strong"] + (["preset"] if case.get("preset") else []))
    c = cd.norm(case)
    parts = [clause, c["api"], c["method"]]
    for k in ("range", "spec", "ifr", "inm", "im", "ims"):
        v = info.get(k, "-")
        if v != "-" and v != "none":
            parts.append(f"{k}={v}")
    if c.get("blocks") and 0 in c["blocks"]:
        parts.append("emptyblock")
    if case.get("op") == "pre":
        parts.append("cls=" + ",".join(f"{k}={v}" for k, v in sorted((case.get("cls") or {}).items())))
        parts.append("pre=" + ",".join(sorted(k for k, v in (case.get("pre") or {}).items() if v)))
    if c["range"] is not None:
        parts.append(f"shape={c['shape']}")
    return ":".join(parts)


def _observed(ln):
    if ln.get("op") == "etag":
        return {k: (_text(ln[k]) if k.startswith(("tag", "get1_o")) else ln[k]) for k in
                ("tag1", "tag2", "get1_opaque", "get1_weak", "get1_none", "status_inm", "status_im", "exc")}
    if ln.get("op") == "file":
        return {"status": ln["status"], "exc": ln["exc"], "etag": _text(ln["r_etag"]), "last_modified": _text(ln["r_lm"]),
                "content_length": _text(ln["cl"]), "content_range": _text(ln["cr"]), "cache_control": _text(ln["cc"]),
                "expires": _text(ln["exp"]), "prev_etag": _text(ln["prev_etag"]), "prev_last_modified": _text(ln["prev_lm"]),
                "state": [ln["length"], ln["mtime_s"], ln["mtime_us"]], "prev_state": [ln["prev_size"], ln["prev_mtime_s"], ln["prev_mtime_us"]],
                "body": _text(ln["body"])}
    return {"status": ln["status"], "exc": ln["exc"], "content_range": _text(ln["cr"]) if ln["cr_n"] else None,
            "content_length": _text(ln["cl"]) if ln["cl_n"] else None, "body": _text(ln["body"]), "modified": ln["modified"]}


def judge_cases(ctx: Ctx, cases, kind="c11"):
    chunks = [cases[i:i + 250] for i in range(0, len(cases), 250)]
    recs = pmap(cd.run_cases, chunks, workers=ctx.workers, chunksize=1) if len(cases) > 400 else [cd.run_cases(cases)]
    lines = []
    for chunk in recs:
        for r in chunk:
            r["t"], r["i"] = len(lines), 0
            lines.append(r)
    ctx.count(len(lines))
    ctx.notes.setdefault("phase_s", {})["recorded"] = round(ctx.elapsed(), 1)
    for k, c in enumerate(cases):
        ln = lines[k]
        if c.get("op") in ("filesc", "filerange", "etag"):
            if ln["status"] in (206, 304, 412, 416):
                ctx.nontrivial.add(repr(sorted(c.items(), key=str)))
        elif ln["status"] in (206, 304, 412, 416):
            n = cd.norm(c)
            ctx.nontrivial.add((ln["status"], n["method"], n["inm"], n["im"], n["ims"], n["ifr"], n["range"], n["length"],
                                tuple(n["etag"] or ()), tuple(n["lm"] or ()), n["shape"], n["block"], tuple(n["blocks"] or ())))
        if k % 4001 == 7:
            ctx.sample({"case": {a: b for a, b in c.items() if b is not None}, "observed": _observed(ln)})
    rejects = ctx.judge(AREA, "ConditionalTrace", lines, batch=3000)
    for r in rejects:
        c = cases[r["t"]]
        if r["clause"] == "OutOfDomain":
            raise MachineryError(f"driver produced a case outside the judged domain: {c!r}")
        ctx.violation(_key(r["clause"], r.get("info", {}), c), r["clause"], {"case": c, "observed": _observed(lines[r["t"]])}, kind=kind)
    st = ctx.notes.setdefault("status_counts", {})
    for ln in lines:
        st[str(ln["status"])] = st.get(str(ln["status"]), 0) + 1
    return lines


def _model_checks(ctx: Ctx, jobs):
    """jobs: (module, cfg, must_violate).  Run concurrently (TLC with few workers each)."""
    import concurrent.futures as cf

    per = max(1, ctx.workers // 3)

    def one(job):
        module, cfg, must_violate = job
        if must_violate:
            r = tlc.run_tlc(AREA, module, cfg, workers=per, tmp=ctx.tmp, allow_violation=True, timeout=900)
            if not r.invariant_violated:
                raise MachineryError(f"broken model variant {cfg} passes: the invariants may be vacuous")
            return cfg, r.invariant_violated
        ctx.model_check(AREA, module, cfg, workers=per, timeout=3000)
        return cfg, None

    broken = {}
    with cf.ThreadPoolExecutor(max_workers=3) as ex:
        for cfg, inv in ex.map(one, jobs):
            if inv:
                broken[cfg] = inv
    ctx.notes["broken_model_variants_violate"] = broken


def run(ctx: Ctx):
    q = ctx.quick
    ctx.rule = ("case = (api, method, If-None-Match / If-Match / If-Modified-Since / If-Range / Range texts, ETag, last-modified with "
                "microseconds, length, body shape, blocks) executed on Response.make_conditional / send_file / is_resource_modified and "
                "judged by TLC from the header texts; cases: TLC-exported model cases, the validator product, the If-Range family, every "
                "range spec around every length x shape x block size, block compositions with empty blocks, seeded random cases; "
                "non-trivial = distinct cases answered 206 / 304 / 412 / 416")
    ctx.assumptions += [
        "domain: one of If-None-Match / If-Match per request, If-Match only against responses with an ETag; Range + If-Range + "
        "validators all three together are not generated (Range + validators: RFC 7233 3.1, the validators decide first)",
        "Response subclasses (automatically_set_content_length / implicit_sequence_conversion / default_mimetype set differently) and "
        "responses that carry Content-Length (complete representation), Content-Range, Accept-Ranges, ETag / Last-Modified before "
        "make_conditional are judged on what the WSGI server receives (a 206 needs one Content-Length equal to the bytes its "
        "Content-Range declares); an own Content-Range left on a response that is not answered 206 is the application's",
        "files: a private temporary directory, mtimes set with os.utime(ns=..) in 2024; generated ETags must change with size or "
        "mtime-second and stay for an identical (path, size, mtime); a change of the sub-second part alone with equal size is accepted "
        "either way; Cache-Control / Expires / ETag shape / X-Sendfile rules are drift, not verdicts",
        "header texts carry no leading / trailing white space; white space is SP / HTAB; dates are IMF-fixdate or the numeric-zone "
        "RFC 2822 form (other forms accepted by email.utils are not generated)",
        "accepted either way (documentation / RFC leave it open): malformed If-None-Match / If-Match lists (incl. lower-case w/, "
        "unquoted tags), If-None-Match against a response without ETag, an If-Range date later than Last-Modified, Range against a "
        "zero-length or unknown-length resource (documented: skipped), other range units (RFC: ignore, werkzeug: 416), white space "
        "inside a range-spec / empty list elements (416 or the cleaned spec), 206 answered to HEAD with the headers of the GET answer",
        "a satisfiable single range may be answered by the complete 200 body (the property demands soundness of a 206, not that one "
        "is produced); such answers are reported as drift when the length was known",
        "If-Match precedes If-Modified-Since: with If-Match present no 304 is demanded",
    ]
    # 1. model checking
    jobs = [("MCRangeBody", "MCRB_Q_fixed", False), ("MCConditional", "MCQ_validators", False), ("MCConditional", "MCQ_ranges", False),
            ("MCRangeBody", "MCRB_Q_orig", True)]
    jobs += [("MCConditional", "MCV_" + d, True) for d in ("im_star", "suffix0", "oversuffix", "ifr_weak", "ims_lt", "no_prec", "off_by_one",
                                                           "range_first")]
    jobs.append(("MCConditional", "MCQ_rangecond", False))
    if not q:
        jobs = [("MCRangeBody", "MCRB_T_fixed", False), ("MCConditional", "MCT_ranges", False), ("MCConditional", "MCT_rangecond", False)] + jobs
    _model_checks(ctx, jobs)
    ctx.exhaustive = True
    ctx.notes["phase_s"] = {"model_check": round(ctx.elapsed(), 1)}
    # 2. spec -> code
    rng = random.Random(ctx.seed)
    cases = []
    exported = 0
    for cfg in (("MCX_validators", "MCX_ranges") if q else ("MCXT_validators", "MCXT_ranges", "MCXT_rangecond")):
        vals = [v for v in ctx.export(AREA, "MCConditional", cfg, count_states=False, timeout=3000) if isinstance(v, dict) and "req" in v]
        exported += len(vals)
        cap = (2000 if "rangecond" in cfg else 4000) if q else (30000 if "rangecond" in cfg else 10 ** 9)
        if len(vals) > cap:
            vals = rng.sample(vals, cap)
        cases += [cd.case_of_model(v) for v in vals]
    vals = [v for v in ctx.export(AREA, "MCRangeBody", "MCRBX_q" if q else "MCRBX_t", count_states=False, timeout=3000)
            if isinstance(v, dict) and "src" in v]
    exported += len(vals)
    cases += [cd.case_of_rangebody(v) for v in vals]
    ctx.notes["phase_s"]["export"] = round(ctx.elapsed(), 1)
    ctx.notes["model_cases_exported"] = exported
    ctx.notes["model_cases_replayed"] = len(cases)
    # 3. code -> spec
    if q:
        cases += cd.validator_cases(wide=False, methods=("GET",))
        cases += cd.validator_cases(wide=False, apis=("mc",), methods=("HEAD", "POST"))[ctx.seed % 3::3]
        cases += cd.ifrange_cases(lengths=(0, 3), shapes=("list",))
    else:
        cases += cd.validator_cases()
        cases += cd.validator_cases(apis=("sf",), methods=("GET",), wide=False)
        cases += cd.ifrange_cases(lengths=(0, 1, 4), shapes=("list", "file", "pipe", "gen"))
    cases += cd.range_cases(4 if q else 9, [1, 3] if q else [1, 2, 3, 4, 7])
    cases += cd.range_cases(3 if q else 6, [2], shapes=("file", "pipe"), methods=("GET", "HEAD") if q else ("GET", "HEAD", "POST"), apis=("sf",))
    for n in range(1, 5 if q else 8):
        for comp in cd.compositions(n):
            for rg in ([f"bytes=0-{n - 1}", "bytes=1-", "bytes=-2"] if q else
                       [f"bytes={a}-{b}" for a in range(n) for b in range(a, n)] + ["bytes=-1", "bytes=1-"]):
                cases.append({"api": "mc", "method": "GET", "length": n, "shape": "gen" if len(comp) % 2 else "list", "blocks": comp,
                              "range": rg})
    for _ in range(3000 if q else 100000):
        cases.append(cd.random_case(rng))
    # growth: Range + validators (RangeCond/..), validators generated from real files (File/..), the ETag API (EtagApi/..)
    grown = len(cases)
    cases += cd.rangecond_cases((1,), wide=False) if q else cd.rangecond_cases()
    cases += cd.filesc_cases(wide=not q)
    cases += cd.filerange_cases(2 if q else 9)
    cases += cd.etag_cases(wide=not q, rng=rng)
    # body stream kinds: wrap_file over io objects of every seekability kind x block sizes 1 / 3 / 8192 (Stream/..)
    cases += cd.stream_cases((1, 4) if q else (1, 2, 4, 9, 17), wide=not q)
    # response classes / pre-set headers (Preset/..)
    cases += cd.preset_cases((1, 3) if q else (1, 2, 3, 5), wide=not q, rng=rng)
    ctx.notes["growth_cases"] = len(cases) - grown
    judge_cases(ctx, cases)
    # the repository's own tests under the recording plugin (keys RepoTests/..)
    repo_test_traces(ctx)


# ---------------------------------------------------------------------------------- the repository's own tests
REPO_TEST_FILES_QUICK = ["tests/test_wrappers.py", "tests/test_send_file.py", "tests/test_http.py", "tests/test_utils.py",
                         "tests/middleware/test_shared_data.py", "tests/test_wsgi.py"]
REPO_FLOOR = {"irm": 3, "mc": 10, "file": 20, "rw": 8}


def _repo_lines(records, skipped):
    """plugin records -> trace lines (vocabulary of ConditionalTrace.tla); returns (lines, meta)."""
    from ..core import cps

    lines, meta = [], []

    def base(req, etag, lm, length, len_known):
        ln = {"method": req["method"], "shape": "list", "length": length, "len_known": len_known,
              "etag_p": etag is not None, "etag_opaque": cps(etag[0]) if etag else [], "etag_weak": bool(etag[1]) if etag else False,
              "lm_p": lm is not None, "lm": list(lm) if lm else [1970, 1, 1, 0, 0, 0, 0],
              "status": 0, "exc": "", "cr_n": 0, "cr": [], "cl_n": 0, "cl": [], "r_etag_n": 0, "r_etag": [], "r_lm_n": 0, "r_lm": [],
              "body": [], "modified": False}
        for h in cd.HDRS:
            ln[h + "_p"] = req[h] is not None
            ln[h] = cps(req[h] or "")
        return ln

    def outs(ln, r, keys):
        for k in keys:
            n, v = r.get(k, [0, ""])
            ln[(k if k != "xsfh" else "xsf") + "_n"] = n
            ln[k if k != "xsfh" else "xsf_v"] = cps(v)

    def skip(why):
        skipped[why] = skipped.get(why, 0) + 1

    for r in records:
        k = r["k"]
        if k == "irm":
            ln = base(r["req"], r["etag"], r["lm"], 0, True)
            ln.update(op="call", api="irm", status=1, exc=r["exc"], modified=bool(r.get("modified", False)))
        elif k == "mc":
            ln = base(r["req"], r["etag"], r["lm"], r["length"], r["len_known"])
            ln.update(op="rmc", api="mc", status=r["status"], exc=r["exc"], shape="list" if r["shape"] == "list" else "other")
            outs(ln, r, ("cr", "cl", "r_etag", "r_lm"))
            ln["data"] = r["data"] if r["data"] is not None else []
            ln["has_body"] = r.get("body") is not None and r["data"] is not None
            ln["body"] = r["body"] if r.get("body") is not None else []
        elif k == "file":
            if r["size"] >= 2 ** 31 or not (10 ** 8 < r["mtime_s"] < 2 ** 31 - 10 ** 6):
                skip("file: size / mtime outside the vocabulary")
                continue
            eff = r["lm_given"] if r["lm_given"] else cd._utc_tuple(r["mtime_s"], r["mtime_us"])
            ln = base(r["req"], None, eff, r["size"], True)
            ln.update(op="rfile", api=r["api"], shape="path", status=r["status"], exc=r["exc"], etag_mode=r["etag_mode"],
                      etag_given=cps(r["etag_given"]), lm_mode="given" if r["lm_given"] else "stat", mtime_s=r["mtime_s"], mtime_us=r["mtime_us"],
                      max_age_mode=r["max_age_mode"], max_age=r["max_age"], conditional=r["conditional"], xsf=r["xsf"], path=cps(r["path"]),
                      prev_p=False, prev_etag=[], prev_etag_n=0, prev_lm=[], prev_size=0, prev_mtime_s=0, prev_mtime_us=0,
                      t_before=r["t_before"], t_after=r["t_after"], data=r["data"] if r["data"] is not None else [], has_body=False)
            outs(ln, r, ("cr", "cl", "r_etag", "r_lm", "cc", "exp", "xsfh"))
            if "xsf_v" not in ln:
                ln["xsf_v"], ln["xsf_n"] = [], 0
            for key in ("cc", "exp"):
                ln.setdefault(key, [])
                ln.setdefault(key + "_n", 0)
        elif k == "rw":
            if not isinstance(r["start"], int) or r["start"] < 0 or (r["len"] is not None and (not isinstance(r["len"], int) or r["len"] < 0)):
                skip("rw: start / length outside the vocabulary")
                continue
            ln = {"op": "rw", "api": "rw", "start": r["start"], "len": -1 if r["len"] is None else r["len"], "base": r["base"] or 0,
                  "pulled": r["pulled"], "out": r["out"], "finished": r["finished"], "exc": r["exc"], "empty_chunk": r["empty_chunk"],
                  "status": 0}
        else:
            continue
        ln["t"], ln["i"] = len(lines), 0
        lines.append(ln)
        meta.append({"kind": k, "test": r.get("test", "")})
    return lines, meta


def repo_test_traces(ctx: Ctx, files=None, floor=True):
    """code -> spec from the repository's own tests (keys RepoTests/..)."""
    import json
    import os
    import subprocess
    import sys

    from ..core import REPO, VERIF

    out = os.path.join(ctx.tmp, "repo-conditional.json")
    env = dict(os.environ, VERIF_TRACE_OUT=out, PYTHONPATH=VERIF + os.pathsep + os.path.join(REPO, "src"), PYTHONDONTWRITEBYTECODE="1")
    files = files or (REPO_TEST_FILES_QUICK if ctx.quick else ["tests"])
    t0 = ctx.elapsed()
    p = subprocess.run([sys.executable, "-m", "pytest", "-q", "-p", "no:cacheprovider", "-p", "harness.pytest_conditional_plugin",
                        "--no-header", "-n", "0", *files], cwd=REPO, env=env, capture_output=True, text=True, timeout=1500)
    if not os.path.exists(out):
        raise MachineryError("recording the repository's tests produced no trace file:\n" + (p.stdout + p.stderr)[-1500:])
    dump = json.load(open(out))
    skipped = dict(dump["skipped"])
    lines, meta = _repo_lines(dump["records"], skipped)
    rejects = ctx.judge(AREA, "ConditionalTrace", lines, batch=3000)
    judged = {}
    ood = set()
    for r in rejects:
        if r["clause"] == "OutOfDomain":
            ood.add(r["t"])
            skipped["judge: outside the judged domain"] = skipped.get("judge: outside the judged domain", 0) + 1
    for k, m in enumerate(meta):
        if k not in ood:
            judged[m["kind"]] = judged.get(m["kind"], 0) + 1
            ctx.count(1, ("repo", m["kind"], k) if lines[k].get("status") in (206, 304, 412, 416) or m["kind"] == "rw" else None)
    nrej = 0
    for r in rejects:
        if r["clause"] == "OutOfDomain":
            continue
        nrej += 1
        m, ln = meta[r["t"]], lines[r["t"]]
        test = m["test"].split(" ")[0]
        obs = {k: (_text(v) if isinstance(v, list) and k not in ("lm",) else v) for k, v in ln.items()
               if k not in ("data", "pulled", "out", "body", "path")}
        if m["kind"] == "rw":
            obs.update(pulled=_text(ln["pulled"]), out=_text(ln["out"]))
        clause = ("File/" if m["kind"] == "file" else "") + r["clause"]
        ctx.violation(f"RepoTests/{clause}:{m['kind']}:{test}", "RepoTests/" + clause,
                      {"case": {"op": "repo", "test": test, "record": m["kind"]}, "observed": obs}, kind="c11-repo")
    ctx.notes["repo_tests"] = {"files": files, "pytest_exit": p.returncode, "pytest_tail": (p.stdout.strip().splitlines() or [""])[-1][:200],
                               "recorded": len(dump["records"]), "judged": judged, "skipped": skipped, "rejections": nrej,
                               "wall_s": round(ctx.elapsed() - t0, 1)}
    # a tree that fails its own tests is judged by what was recorded; without any rejection (here or by the drivers before)
    # a failing run or too few records mean the recording itself is broken
    if p.returncode != 0 and nrej == 0 and not ctx.violations:
        raise MachineryError("the repository's tests fail under the recording plugin without any rejection:\n" + (p.stdout + p.stderr)[-2500:])
    if floor and p.returncode == 0:
        for kind, n in REPO_FLOOR.items():
            if judged.get(kind, 0) < n:
                raise MachineryError(f"only {judged.get(kind, 0)} '{kind}' records judged from the repository's tests (floor {n}); skipped: {skipped}")


def replay(ctx: Ctx, data):
    c = data["case"]["case"]
    if c.get("op") == "repo":
        ctx.sample(data["case"])
        repo_test_traces(ctx, files=[c["test"]], floor=False)
        ctx.nontrivial.update({("replay", 0), ("replay", 1)})
        return
    if isinstance(c.get("cfg"), dict) and c["cfg"].get("lm_given"):
        c["cfg"]["lm_given"] = tuple(c["cfg"]["lm_given"])
    ctx.sample(data["case"])
    judge_cases(ctx, [c], kind=data.get("kind", "c11"))
    ctx.nontrivial.update({("replay", 0), ("replay", 1)})
