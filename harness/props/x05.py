"""X05 (extension area) -- werkzeug.middleware.lint.LintMiddleware as a run-time monitor of the PEP 3333 call protocol.

Contract (spec/lint/LintContract.tla; every rule quotes its sentence of the LintMiddleware docstring, the module
docstring, PEP 3333 or the HTTP RFC): for one request through the monitor
  Missing      a documented rule is broken in a step (environ check, start_response, write, yield, wsgi.input / wsgi.errors
               call, return, close, collection)  =>  a warning of the documented class in that step or later in the request
               (or, for arguments the monitor cannot digest, an exception);
  FalseAlarm   a warning during a step  =>  some rule was broken in that step or earlier in the request;
  Transparency every start_response / write / stream call, every yielded item, StopIteration, exception and close() crosses
               the monitor unchanged, in order, exactly once.
Anything else (warning texts, tags, order, the exact step of a warning, exception classes of the monitor itself,
undocumented checks) is drift.

1. TLC model-checks the implementation-shaped monitor model (LintModel.tla: headers_set, sum(chunks), closed; one step per
   application action / server call) against the contract in every reachable state of every behaviour of a bounded case
   universe (MCLint.tla: protocol scripts x cut x return kind x server pattern x method; tables of start_response
   arguments, environ defects, stream calls, end-of-response header / body forms), plus action properties and liveness.
   Hand-broken monitors (and the three behaviours of the code before fixes/X05-*.diff) must fail.
2. spec -> code: every case TLC enumerated is exported and run on the real LintMiddleware between a scripted application
   and a scripted PEP 3333 server stub (harness/lint.py; warnings recorded with the step during which they are emitted).
3. code -> spec: seeded random longer requests (random statuses, header lists, ETag / Location / Content-Length forms,
   stream calls, server patterns, environ defects).
Every recorded request is judged by LintTrace.tla (TLC): failing clauses = verdicts; difference from the model = drift.
"""
from __future__ import annotations

import concurrent.futures as cf
import copy
import json
import random

from .. import lint as L
from .. import tlc
from ..core import Ctx, pmap

LEVEL = "model_checking"
AREA = "lint"

MUTANTS = ["orig_readlines", "orig_204", "orig_head", "swallow_close", "no_yield_before_sr", "write_twice", "no_gc_warning",
           "warn_read_size", "drop_exc_info", "etag_wsgi_class", "no_etag_check", "no_status_low", "no_304_body", "no_str_warning",
           "alter_item", "no_input_close_warning"]
QUICK_MUTANTS = ["orig_readlines", "orig_204", "orig_head", "swallow_close", "no_yield_before_sr"]


def _do(case):
    return L.run_case(case)


def _sig(ln):
    """what makes two runs different for the coverage count: kinds of the actions and everything observed about them"""
    c, o = ln["case"], ln["obs"]
    return (c["ret"], c["cut"], c["env"]["method"], tuple(a["k"] + a["m"] + a["x"] for a in c["script"]),
            tuple(w["g"] for w in o["call"]["w"]), tuple((tuple(w["g"] for w in a["w"]), a["exc"], len(a["fwd"])) for a in o["acts"]),
            tuple((n["r"], n["cls"]) for n in o["nexts"]), tuple((tuple(w["g"] for w in x["w"]), x["appcloses"]) for x in o["closes"]),
            tuple(w["g"] for w in o["gc"]["w"]), o["ret"]["exc"])


def _interesting(ln):
    o = ln["obs"]
    return (len(ln["case"]["script"]) >= 2 or o["call"]["w"] or o["call"]["exc"] or any(a["w"] or a["exc"] for a in o["acts"])
            or o["gc"]["w"] or any(x["w"] for x in o["closes"]))


FIXTURES = [
    {"env": L.good_env(), "ret": "gen", "cut": 1, "srv": L.srv(99, 1),
     "script": [L.SR("200 OK", [("ETag", "abc")]), L.act("Y", d=L.B(b"hello"))]},
    {"env": L.good_env(), "ret": "gen", "cut": 2, "srv": L.srv(99, 0),
     "script": [L.act("IN", m="read", args=(2,)), L.SR("200 OK", []), L.act("Y", d=L.B(b"hello"))]},
]


def _all_w(o):
    return ([o["call"]["w"], o["ret"]["w"], o["gc"]["w"]] + [a["w"] for a in o["acts"]] + [n["w"] for n in o["nexts"]]
            + [x["w"] for x in o["closes"]])


def _corrupt(lines):
    """judge self-test: copies of the two recorded fixture requests with ONE recorded fact falsified; each must be rejected
    (a falsification that does not apply to what was recorded -- the tree under test misbehaves already -- is skipped)"""
    a, b = lines[0], lines[1]
    out = {}

    def bad(ln, name, clause, fn):
        x = copy.deepcopy(ln)
        try:
            if fn(x["obs"]) is not False and x["obs"] != ln["obs"]:
                out[name] = (x, clause)
        except (IndexError, KeyError):
            pass

    def reclass(o):
        for ws in _all_w(o):
            for w in ws:
                if w["c"] == "HTTPWarning":
                    w["c"] = "WSGIWarning"

    def drop_http(o):
        for ws in _all_w(o):
            ws[:] = [w for w in ws if w["c"] != "HTTPWarning"]

    bad(a, "sr_dropped", "Transparency:SR:dropped", lambda o: o["acts"][0].update(fwd=[]))
    bad(a, "item_changed", "Transparency:NEXT:item", lambda o: o["nexts"][0]["item"].update(v=o["nexts"][0]["item"]["v"][:-1]))
    bad(a, "close_swallowed", "Transparency:CLOSE:swallowed", lambda o: o["closes"][0].update(appcloses=0))
    bad(a, "etag_warning_class", "Missing:SR:ETagUnquoted", reclass)
    bad(a, "etag_warning_lost", "Missing:SR:ETagUnquoted", drop_http)
    bad(b, "gc_warning_lost", "Missing:GC:Unclosed", lambda o: o["gc"].update(w=[]))
    bad(b, "warning_on_read_n", "FalseAlarm:IN:read", lambda o: o["acts"][0].update(w=[{"c": "WSGIWarning", "g": "ReadNoSize"}]))
    bad(b, "exception_swallowed", "Transparency:NEXT:outcome", lambda o: o["nexts"][1].update(r="item"))
    return out


def judge_cases(ctx: Ctx, cases, kind, selftest=False):
    t0 = ctx.elapsed()
    lines = pmap(_do, cases, workers=ctx.workers, chunksize=128)
    ctx.notes["wall_real_code_s"] = round(ctx.notes.get("wall_real_code_s", 0) + ctx.elapsed() - t0, 1)
    for t, ln in enumerate(lines):
        ln["t"], ln["i"] = t, 0
    bad = _corrupt(lines) if selftest else {}
    extra = []
    for k, (what, (ln, clause)) in enumerate(sorted(bad.items())):
        ln["t"] = len(lines) + k
        extra.append((what, ln, clause))
    t0 = ctx.elapsed()
    ndrift = len(ctx.model_drift)
    rejects = ctx.judge(AREA, "LintTrace", lines + [x[1] for x in extra], batch=1200)
    ctx.notes["wall_judge_s"] = round(ctx.notes.get("wall_judge_s", 0) + ctx.elapsed() - t0, 1)
    ctx.notes["model_drift_records_kept"] = ctx.notes.get("model_drift_records_kept", 0) + len(ctx.model_drift) - ndrift
    if selftest:
        got = {}
        for r in rejects:
            if r["t"] >= len(lines):
                got.setdefault(r["t"] - len(lines), set()).add(r["clause"])
        res = {what: (clause in got.get(k, set())) for k, (what, _, clause) in enumerate(extra)}
        ctx.notes["corrupted_lines_rejected"] = res
        if len(extra) < 4 or not all(res.values()):
            raise tlc.MachineryError(f"judge self-test: {len(extra)} corrupted lines, rejected as expected: {res}")
        ctx.traces -= len(extra)
    tags = ctx.notes.setdefault("warning_tags_seen", {})
    for ln in lines:
        ctx.count(1)
        if _interesting(ln):
            ctx.nontrivial.add(_sig(ln))
        o = ln["obs"]
        for ws in [o["call"]["w"], o["ret"]["w"], o["gc"]["w"]] + [a["w"] for a in o["acts"]] + [n["w"] for n in o["nexts"]] + [
                x["w"] for x in o["closes"]]:
            for w in ws:
                tags[w["g"]] = tags.get(w["g"], 0) + 1
    for r in rejects:
        if r["t"] >= len(lines):
            continue
        ctx.violation(r["clause"], r["clause"], lines[r["t"]]["case"], kind=kind)
    return lines


def _show(ln):
    c, o = ln["case"], ln["obs"]

    def d(x):
        return bytes(x["v"]).decode("latin-1") if x["ty"] == "b" else "".join(map(chr, x["v"])) if x["ty"] == "s" else x["v"]

    acts = []
    for i, a in enumerate(c["script"]):
        ob = o["acts"][i] if i < len(o["acts"]) else None
        what = ([a["k"], d(a["st"]), a["x"]] if a["k"] == "SR" else [a["k"], d(a["d"])] if a["k"] in ("W", "Y")
                else [a["k"], a["m"], a["args"]] if a["k"] in ("IN", "ERR") else [a["k"]])
        acts.append(what + ([[w["g"] for w in ob["w"]], ob["exc"]] if ob else ["not run"]))
    return {"ret": c["ret"], "cut": c["cut"], "method": c["env"]["method"], "srv": c["srv"], "actions": acts,
            "close_warnings": [[w["g"] for w in x["w"]] for x in o["closes"]], "gc_warnings": [w["g"] for w in o["gc"]["w"]]}


class _Tlc:
    """TLC processes side by side with the replay / judge pipeline; bookkeeping in the caller's thread (collect)"""

    def __init__(self, ctx: Ctx, runs):
        self.ctx, self.runs = ctx, runs
        heavy = max(1, len([r for r in runs if r[3] == "check"]))
        per = max(2, min(8, ctx.workers // min(heavy, 4))) if len(runs) < 14 else max(2, ctx.workers // 3)
        self.ex = cf.ThreadPoolExecutor(max_workers=max(3, ctx.workers * 3 // 4) if len(runs) < 14 else max(3, ctx.workers // 3))

        def one(run):
            tag, module, cfg, mode = run
            return tlc.run_tlc(AREA, module, cfg, workers=1 if mode == "export" else per if mode == "check" else 2, tmp=ctx.tmp,
                               timeout=7000, allow_violation=(mode == "mutant"))
        order = sorted(runs, key=lambda r: {"export": 0, "check": 1, "mutant": 2}[r[3]])
        self.fut = {r[0]: self.ex.submit(one, r) for r in order}
        self.done = set()

    def collect(self, tags=None):
        ctx, out = self.ctx, {}
        for tag, module, cfg, mode in self.runs:
            if tag in self.done or (tags is not None and tag not in tags):
                continue
            try:
                r = self.fut[tag].result()
            except BaseException:
                self.ex.shutdown(wait=False, cancel_futures=True)
                raise
            self.done.add(tag)
            out[tag] = r
            if mode == "mutant":
                ctx.notes.setdefault("broken_model_variants_rejected", {})[cfg[4:]] = r.invariant_violated
                if not r.invariant_violated:
                    raise tlc.MachineryError(f"broken monitor model {cfg} satisfies the contract: the clauses are vacuous")
                continue
            ctx.states += r.distinct
            ctx.transitions += r.generated
            ctx.model_runs.append({"spec": f"{AREA}/{module}", "cfg": cfg, "distinct": r.distinct, "generated": r.generated,
                                   "depth": r.depth, "wall_s": round(r.wall_s, 1),
                                   **({"exported": len(r.printed)} if mode == "export" else {})})
        if len(self.done) == len(self.runs):
            self.ex.shutdown()
        return out


def run(ctx: Ctx):
    q = ctx.quick
    rng = random.Random(ctx.seed)
    ctx.rule = ("case = one request through the real LintMiddleware between a scripted application (start_response / write / yield / "
                "wsgi.input / wsgi.errors / raise; return kind; cut) and a scripted server (environ, conforming start_response stub, "
                "next() / close() pattern), either enumerated by TLC or seeded random; non-trivial = distinct (action kinds, return "
                "kind, cut, method, warning tags per step, exceptions, next() outcomes, close() results) with >= 2 actions or any "
                "warning / exception")
    ctx.assumptions += [
        "one request at a time; start_response called positionally with 2 or 3 arguments; the application never catches what "
        "start_response / write / the streams raise; the server stub refuses a second start_response without exc_info "
        "(AssertionError) and re-raises exc_info once a chunk was delivered",
        "status / header / ETag / Location forms the documentation does not decide (leading blanks, 'w/' prefix, a lone '\"', "
        "network-path and opaque URIs, control characters, non-str arguments the monitor chokes on) are judged as open: "
        "warning, exception or silence are all accepted; the monitor's own exceptions (AttributeError, IndexError, ValueError, "
        "TypeError, KeyError on malformed arguments / environ) are compared with the model as drift only",
        "end-of-response checks (304 body, 1xx / 204, Content-Length vs bytes sent, HEAD) are claimed only for a well-formed "
        "start_response the server accepted and an all-bytes body; the warning for 304 with a body must be an HTTPWarning at the "
        "first close()",
        "warning classes are claimed where [cls] + the nature of the rule decide them (PEP 3333 rules: WSGIWarning; ETag, Location, "
        "304 body: HTTPWarning), not for Content-Length mismatch / HEAD body",
        "readline() without arguments, the Status header, Content-Length / entity headers in 304, 1xx / 204 bodies, write(bytes) on "
        "wsgi.errors, iteration after close(): the monitor may warn (undocumented checks), nothing is required",
        "garbage collection = dropping the last reference (CPython reference counting) and gc.collect() if no warning appeared",
        "the committed model follows the monitor after fixes/X05-lint-*.diff (in /repo: c66ca0e, 24a3033, 5d0190f); the three "
        "pre-fix behaviours are kept as broken model variants (orig_readlines, orig_204, orig_head)",
    ]
    runs = [("xtab", "MCLint", "MCX_tables" if q else "MCX_tables_deep", "export"),
            ("xproto", "MCLint", "MCX_proto2q" if q else "MCX_proto3", "export")]
    runs += [("endtab", "MCLint", "MCQ_endtab" if q else "MCT_endtab", "check")]
    runs += [(f, "MCLint", "MCQ_" + f, "check") for f in ("proto", "srtab", "envtab", "iotab")]
    if not q:
        runs += [("proto3", "MCLint", "MCT_proto3", "check"), ("proto5", "MCLint", "MCT_proto5", "check")]
    for m in (QUICK_MUTANTS if q else MUTANTS):
        runs.append(("m_" + m, "MCLint", "MCB_" + m, "mutant"))
    bg = _Tlc(ctx, runs)

    # 3. code -> spec, while TLC is exporting
    cases = copy.deepcopy(FIXTURES) + [L.rand_case(rng, 8 if q else 12) for _ in range(6000 if q else 150000)]
    lines = judge_cases(ctx, cases, "random", selftest=True)
    samples = lines[:: max(1, len(lines) // 3)][:3]

    # 2. spec -> code
    res = bg.collect({"xtab", "xproto"})
    cases = []
    for tag, least in (("xtab", 4000), ("xproto", 1000)):
        cs = [v for v in res[tag].printed if isinstance(v, dict) and "script" in v and "srv" in v]
        ctx.notes["exported_" + tag[1:]] = len(cs)
        if len(cs) < least:
            raise tlc.MachineryError(f"export {tag}: only {len(cs)} cases")
        cases += cs
    ctx.notes["exported_cases_replayed"] = len(cases)
    lines = judge_cases(ctx, cases, "exported")
    samples += lines[:: max(1, len(lines) // 3)][:3]
    bg.collect()
    ctx.exhaustive = True
    for ln in samples:
        ctx.sample(_show(ln))


def replay(ctx: Ctx, data):
    ctx.nontrivial.update({("replay", 0), ("replay", 1)})
    lines = judge_cases(ctx, [data["case"]], data.get("kind") or "replay")
    ctx.sample(_show(lines[0]))
