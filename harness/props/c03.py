"""C03 -- URL matching agrees with the declarative meaning of the rules.

1. TLC model-checks the implementation-shaped matcher model (spec/routing/RoutingImpl.tla) against the
   declarative contract `Expected` (spec/routing/Routing.tla) for every small map of a rule universe.
2. spec -> code: the maps / paths of the TLC model are exported and replayed on real `Map` objects.
3. code -> spec: exhaustive pairs of a rule universe x insertion orders x strict/merge settings and seeded
   random maps of 1..6 rules (every or several insertion orders) x a hit / near-hit / miss path alphabet;
   every recorded outcome is judged by RoutingTrace.tla (TLC): outcome \\in Expected.
"""
from __future__ import annotations

import itertools
import random

from .. import routing as rt
from ..core import Ctx, pmap

LEVEL = "model_checking"
AREA = "routing"
CLAUSES = {"Priority", "MatchNotAdmitted", "Redirect", "NotFoundButAdmitted", "NotFoundButMethodNotAllowed",
           "SpuriousMethodNotAllowed", "AllowedMethods", "UnexpectedException"}


def settings():
    return [(s, m) for s in (True, False) for m in (True, False)]


def build_groups(ctx: Ctx):
    rng = random.Random(ctx.seed)
    q = ctx.quick
    groups = []
    U = rt.universe()
    # (a) exhaustive: singles and ordered pairs of the universe
    pairs = [(a,) for a in range(len(U))] + list(itertools.permutations(range(len(U)), 2))
    if q:
        keep = set(rng.sample(range(len(pairs)), 200))
        pairs = [p for i, p in enumerate(pairs) if i in keep or len(p) == 1]
    for idxs in pairs:
        rules = [U[i] for i in idxs]
        paths = rt.paths_for(rules, rng, 28 if q else 40)
        for (s, m) in (settings() if not q else [rng.choice(settings()), rng.choice(settings())]):
            cases = [(p, meth, rt.NOQ) for p in paths for meth in (("GET",) if q else ("GET", "POST"))]
            cases += [(p, rng.choice(rt.METHODS), rt.NOQ) for p in paths[:10]]
            groups.append((rt.make_cfg(rules, s, m), True, cases))
    groups += lenient_405_groups(ctx, rng)
    # (d) fixed slice: the same converter with the same keyword names and different values in one map
    same = rt.same_converter_groups()
    ctx.notes["same_converter_maps"] = len(same)
    for n, (rules, paths) in enumerate(same):
        s_, m_ = settings()[n % 4]
        groups.append((rt.make_cfg(rules, s_, m_), True, [(p, "GET", rt.NOQ) for p in paths]))
    # (c) the method written in lower / mixed case through match(method=), dispatch(method=), bind(default_method=):
    #     the outcome is that of the upper-case method
    U2 = [r for r in U if r["methods"]] + [dict(r, methods=["GET", "POST"]) for r in U[7:12]]
    combos = [(sp, call) for sp in ("post", "Post", "get", "Get", "put", "head", "delete") for call in ("match", "dispatch", "default")]
    for n in range(12 if q else 120):
        rules = [dict(r, endpoint=f"m{i}") for i, r in enumerate(rng.sample(U2, 2) + rng.sample(U, 1))]
        rng.shuffle(rules)
        paths = rt.paths_for(rules, rng, 12)
        cases = []
        for j, p in enumerate(paths):
            sp, call = combos[(n * 5 + j * 2) % len(combos)]
            cases.append((p, sp.upper(), rt.NOQ, {"call": call, "spell": sp}))
        s_, m_ = rng.choice(settings())
        groups.append((rt.make_cfg(rules, s_, m_), True, cases))
    # (b) random maps of 1..6 rules, several insertion orders
    for _ in range(90 if q else 1500):
        k = rng.randint(1, 6)
        rules = rt.random_rules(rng, k)
        paths = rt.paths_for(rules, rng, 30 if q else 70)
        orders = [list(range(k))]
        allp = list(itertools.permutations(range(k))) if k <= 3 else None
        if allp:
            orders = [list(o) for o in (allp if not q else rng.sample(allp, min(2, len(allp))))]
        else:
            orders += [rng.sample(range(k), k) for _ in range(1 if q else 4)]
        s, m = rng.choice(settings())
        for o in orders:
            cases = [(p, rng.choice(rt.METHODS), rt.NOQ) for p in paths]
            groups.append((rt.make_cfg([rules[i] for i in o], s, m), True, cases))
    return groups


def lenient_405_groups(ctx: Ctx, rng):
    """Leaf rules with method sets whose strict_slashes is off (map level or per-rule override), alone and mixed with a
    strict copy / another-method copy, requested with one extra trailing slash and a method outside the set."""
    groups = []
    leaves = [r for r in rt.universe() if not r["branch"] and not rt.is_path_rule(r)]
    if ctx.quick:
        leaves = rng.sample(leaves, 10)
    for base in leaves:
        for mset in (["GET"], ["POST", "PUT"]):
            variants = [
                ([dict(base, methods=mset)], False),                                   # map-level strict_slashes=False
                ([dict(base, methods=mset, strict="f")], True),                        # per-rule override
                ([dict(base, methods=mset, strict="f"), dict(base, methods=["DELETE"], strict="t")], True),
                ([dict(base, methods=mset, strict="t"), dict(base, methods=["PATCH"], strict="f")], False),
                ([dict(base, methods=mset), dict(base, methods=["PATCH"], branch=True)], False),
            ]
            for rules, strict in variants:
                hits = [p for p in rt.paths_for(rules, rng, 40) if not p.endswith("//")][:14]
                cases = [(p if p.endswith("/") else p + "/", m, rt.NOQ) for p in hits for m in ("GET", "POST", "DELETE", "OPTIONS")]
                cases += [(p, m, rt.NOQ) for p in hits[:6] for m in ("POST", "DELETE")]
                groups.append((rt.make_cfg(rules, strict, rng.random() < 0.5), True, cases))
    return groups


def key_of(clause, ln):
    return f"{clause}:{ln['r']['kind']}"


def judge_groups(ctx: Ctx, groups, clauses=CLAUSES, kind="c03", key_prefix=""):
    results = pmap(rt.run_group, groups, workers=ctx.workers, chunksize=8)
    lines, cfgs = [], {}
    for t, (g, res) in enumerate(zip(groups, results)):
        for ln in res:
            ln["t"] = t
        cfgs[t] = g[0]
        lines.extend(res)
        for ln in res[1:]:
            ctx.count(1)
            if ln["r"]["kind"] in ("match", "redirect", "mna"):
                ctx.nontrivial.add((t, tuple(ln["path"]), ln["method"]))
        if t % 211 == 0 and len(res) > 1:
            ln = res[1 + (t % (len(res) - 1))]
            ctx.sample({"rules": [rt.rule_string(r) for r in g[0]["rules"]], "map": g[0]["map"],
                        "path": "".join(map(chr, ln["path"])), "method": ln["method"], "outcome": ln["r"]["kind"],
                        "rule": ln["r"]["rule"]})
    ctx.notes["mna_with_extra_trailing_slash"] = ctx.notes.get("mna_with_extra_trailing_slash", 0) + sum(
        1 for ln in lines if ln["op"] == "match" and ln["r"]["kind"] == "mna" and ln["path"][-1:] == [47] and len(ln["path"]) > 1)
    rejects = ctx.judge(AREA, "RoutingTrace", lines, batch=2500)
    bykey = {(ln["t"], ln.get("i")): ln for ln in lines if ln["op"] != "cfg"}
    for r in rejects:
        if r["clause"] not in clauses:
            continue
        ln = bykey[(r["t"], r["i"])]
        cfg = cfgs[r["t"]]
        gcase = groups[r["t"]][2][r["i"]]
        case = {"cfg": cfg, "how": gcase[3] if len(gcase) > 3 else None,
                "path": "".join(map(chr, ln["path"])), "method": ln["method"],
                "q": {"kind": ln["q"]["kind"], "s": "".join(map(chr, ln["q"]["s"])),
                      "pairs": [["".join(map(chr, k)), "".join(map(chr, v))] for k, v in ln["q"]["pairs"]]},
                "rules_text": [rt.rule_string(x) for x in cfg["rules"]], "observed": ln["r"]["kind"],
                "observed_rule": ln["r"]["rule"]}
        suffix = rt.root_key_suffix(cfg) if r["clause"] == "OnBoundHost" else ""
        ctx.violation(key_prefix + key_of(r["clause"], ln) + suffix, r["clause"], case, kind=kind)
    return lines


def model_groups(ctx: Ctx):
    """spec -> code: the cases of the exported TLC model, replayed on real Map objects."""
    U = rt.model_universe()
    cases = [v for cfg in (("MCX_cases",) if ctx.quick else ("MCX_cases", "MCX_zeros")) for v in ctx.export(AREA, "MCRouting", cfg, count_states=False)
             if isinstance(v, dict) and "idx" in v]
    by = {}
    for v in cases:
        by.setdefault((tuple(v["idx"]), v["strict"], v["merge"]), []).append(("".join(map(chr, v["path"])), v["meth"], rt.NOQ))
    ctx.notes["model_cases_replayed"] = len(cases)
    return [(rt.make_cfg([U[i - 1] for i in idx], s, m), True, cs) for (idx, s, m), cs in sorted(by.items())]


def check_universe_file():
    import os
    from ..tlc import SPEC_ROOT, MachineryError
    cur = open(os.path.join(SPEC_ROOT, AREA, "MCRoutingU.tla")).read()
    if cur != rt.universe_tla():
        raise MachineryError("spec/routing/MCRoutingU.tla is not the universe of harness/routing.py (regenerate it)")


REPO_PREFIX = "RepoTests."


def meta_literal_groups(ctx: Ctx, rng):
    """Literal text with regular-expression metacharacters in every position of a segment + near-miss paths."""
    groups = []
    for rules, paths in rt.meta_groups(rng, ctx.quick):
        s, m = rng.choice(settings())
        groups.append((rt.make_cfg(rules, s, m), True, [(p, "GET", rt.NOQ) for p in paths]))
    return groups


def judge_histories(ctx: Ctx, hists, kind="c03-history"):
    """Map histories: rules are added, the map is bound / matched / built / inspected, more rules are added (also through
    Submount and a RuleFactory), and matched again; every match is judged against Expected of the rule set present at
    that moment (so the final outcomes are those of the final rule set in every insertion order and interleaving)."""
    results = pmap(rt.run_history, hists, workers=ctx.workers, chunksize=4)
    lines, meta = [], {}
    for hi, (h, segs) in enumerate(zip(hists, results)):
        for si, seg in enumerate(segs):
            tid = f"hist{hi}.{si}"
            for ln in seg:
                ln["t"] = tid
                if ln["op"] == "match":
                    meta[(tid, ln["i"])] = (hi, ln)
                    ctx.count(1)
                    if ln["r"]["kind"] in ("match", "redirect", "mna"):
                        ctx.nontrivial.add(("hist", hi, si, ln["i"]))
            lines.extend(seg)
    ctx.notes["history_maps"] = len(hists)
    ctx.notes["history_matches"] = len(meta)
    ctx.notes["history_matches_before_complete"] = sum(
        1 for (hi, ln) in meta.values() if any(o[0].startswith("add") for o in hists[hi][1][ln["opno"]:]))
    for r in ctx.judge(AREA, "RoutingTrace", lines, batch=2500):
        if r["clause"] not in CLAUSES:
            continue
        hi, ln = meta[(r["t"], r["i"])]
        base, ops = hists[hi]
        case = {"base": base, "ops": ops[: ln["opno"] + 1], "path": "".join(map(chr, ln["path"])), "method": ln["method"],
                "observed": ln["r"]["kind"], "observed_rule": ln["r"]["rule"],
                "rules_text": [o[0] + ":" + ",".join(rt.rule_string(x) for x in (o[1:2] if o[0] == "add" else o[-1])) for o in ops[: ln["opno"] + 1] if o[0].startswith("add")]}
        ctx.violation(f"History.{r['clause']}:{ln['r']['kind']}", r["clause"], case, kind=kind)


def repo_test_calls(ctx: Ctx, clauses, kind):
    """code -> spec from the repository's own tests: tests/test_routing.py (+ the proxy-fix middleware tests) run under
    harness/pytest_routing_plugin.py; every recorded MapAdapter.match call whose map falls inside the rule grammar
    is judged by RoutingTrace.tla, the others are counted with the reason."""
    import collections
    import json

    from ..tlc import MachineryError

    calls, tail = rt.record_repo_tests(ctx.tmp)
    if calls is None:
        raise MachineryError("recording the repository's routing tests produced no trace file:\n" + tail)
    skipped = collections.Counter()
    groups, cases = {}, {}
    for c in calls:
        try:
            cfg, line, q = rt.translate_call(c)
        except rt.Skip as e:
            skipped[str(e)] += 1
            continue
        k = json.dumps(cfg, sort_keys=True)
        groups.setdefault(k, (cfg, []))[1].append((line, c, q))
    lines, meta = [], {}
    for t, (k, (cfg, items)) in enumerate(sorted(groups.items())):
        tid = f"repo{t}"
        cl = rt.enc_cfg(cfg, True)
        cl["t"] = tid
        lines.append(cl)
        for i, (line, c, q) in enumerate(items):
            line = dict(line, t=tid, i=i)
            lines.append(line)
            meta[(tid, i)] = (cfg, c, q)
    judged = len(meta)
    ctx.notes["repo_tests"] = {"calls_recorded": len(calls), "calls_judged": judged, "maps": len(groups),
                               "skipped_outside_grammar": dict(skipped),
                               "judged_c12_chains": sum(1 for (cfg, c, q) in meta.values() if cfg["c12"] and c["r"]["kind"] == "redirect"),
                               "outcomes": dict(collections.Counter(c["r"]["kind"] for (_, c, _) in meta.values()))}
    if judged < 100:
        raise MachineryError(f"only {judged} of {len(calls)} recorded routing-test calls could be judged ({dict(skipped)})\n{tail[-300:]}")
    ctx.count(judged)
    for r in ctx.judge(AREA, "RoutingTrace", lines, batch=2500):
        if r["clause"] not in clauses:
            continue
        cfg, c, q = meta[(r["t"], r["i"])]
        case = {"cfg": cfg, "path": c["path"], "method": c["method"], "q": q,
                "rules_text": [rt.rule_string(x) for x in cfg["rules"]], "observed": c["r"]["kind"],
                "observed_rule": c["r"]["rule"], "test": c["test"]}
        ctx.violation(f"{REPO_PREFIX}{r['clause']}:{c['r']['kind']}", r["clause"], case, kind=kind)


def run(ctx: Ctx):
    from .. import tlc
    check_universe_file()
    q = ctx.quick
    ctx.assumptions += [
        "oracle = Expected (spec/routing/Routing.tla), transcribed from docs/routing.rst, the Rule / Map / converter docstrings, "
        "CHANGES 2.2.x and the property text; ties the documentation leaves open are accepted either way",
        "outside the claimed domain (judged ok): tripled slashes, a path-converter value that would start with '/' (or end with "
        "'//' in a branch rule), a doubled trailing slash under a rule with strict_slashes off, the empty path",
        "405 is required only when a rule admits the path as it is for another method; bounded model: <= 2 (3) rules of a "
        "31-rule universe, <= 3 path parts over 5 (10) tokens",
    ]
    # 1. model checking: implementation-shaped matcher model against the declarative contract
    ctx.model_check(AREA, "MCRouting", "MCQ_pairs", timeout=900)
    ctx.model_check(AREA, "MCRouting", "MCQ_zeros", timeout=900)   # fixed_digits with leading zeros
    if not q:
        for cfg in ("MCT_pairs", "MCT_triples", "MCT_toks", "MCT_zeros"):
            ctx.model_check(AREA, "MCRouting", cfg, timeout=3000)
    # non-vacuity: the model of the matcher as it was before fix F19 violates the same invariant
    r = tlc.run_tlc(AREA, "MCRouting", "MCQ_orig", workers=ctx.workers, tmp=ctx.tmp, allow_violation=True, timeout=900)
    ctx.notes["orig_model_violates"] = r.invariant_violated
    if not r.invariant_violated:
        raise tlc.MachineryError("pre-fix matcher model no longer violates ImplInExpected: the invariant may be vacuous")
    ctx.exhaustive = True
    ctx.rule = ("case = (rule map in one insertion order, strict/merge setting, path, method) matched on a real Map and judged by "
                "TLC against Expected; maps: all singles / ordered pairs of a 32-rule universe, seeded random maps of 1..6 "
                "related rules in several insertion orders; paths: products of a hit/near-hit/miss token alphabet derived "
                "from the rules, with trailing / doubled / leading slashes; non-trivial = distinct (map, path, method) "
                "whose outcome is a match, a redirect or a 405")
    groups = model_groups(ctx) + build_groups(ctx)
    ctx.notes["maps"] = len(groups)
    judge_groups(ctx, groups)
    import random as _random
    mrng = _random.Random(ctx.seed + 3)
    mg = meta_literal_groups(ctx, mrng)
    ctx.notes["meta_literal_maps"] = len(mg)
    judge_groups(ctx, mg, key_prefix="MetaLiteral.")
    judge_histories(ctx, rt.make_histories(_random.Random(ctx.seed + 5), ctx.quick))
    repo_test_calls(ctx, CLAUSES, "c03")


def replay(ctx: Ctx, data):
    case = data["case"]
    if data.get("kind") == "c03-history":
        ctx.nontrivial.update({("replay", 0), ("replay", 1)})
        ctx.sample({"history": case["rules_text"], "path": case["path"], "method": case["method"]})
        judge_histories(ctx, [(case["base"], case["ops"])])
        return
    g = (case["cfg"], True, [(case["path"], case["method"], case["q"]) + ((case["how"],) if case.get("how") else ())])
    ctx.nontrivial.update({("replay", 0), ("replay", 1)})
    ctx.sample({"rules": case["rules_text"], "path": case["path"], "method": case["method"]})
    judge_groups(ctx, [g], key_prefix=data.get("key", "").split(".")[0] + "." if "." in data.get("key", "").split(":")[0] else "")
