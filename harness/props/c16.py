"""C16 -- live views of response headers never drift from the header text.

1. TLC model-checks the implementation-shaped model of HeaderSet / WWWAuthenticate / the
   cache-control view bound to a header store (spec/headerviews/HVModel.tla) against the contract
   of spec/headerviews/HeaderViews.tla over all histories of the bounded universe, two live views.
2. spec -> code: the model's labelled transition system is exported from TLC and every transition
   is replayed (shortest path + the transition) on a real Response; the expected header text of
   each step travels with the trace and is compared by the judge (clause ModelPost).
4. code -> spec from the repository's own tests: tests/test_wrappers.py, test_http.py, test_datastructures.py,
   test_send_file.py, test_utils.py (thorough: the whole tests/ directory) run under harness/pytest_headerviews_plugin.py;
   every Response object and every view object the tests construct is a session judged by the same trace spec.
3. code -> spec: exhaustive short histories per view property over an argument universe, seeded
   random walks over all view kinds / scalar properties / direct edits, and scalar sweeps are
   executed on real Response objects and judged line by line by HeaderViewsTrace.tla (TLC).
"""
from __future__ import annotations

import itertools
import random

from .. import headerviews as hv
from ..core import Ctx, pmap

LEVEL = "model_checking"
AREA = "headerviews"


# ---------------------------------------------------------------------- trace builders
def _with_vw(ops, vw):
    return [dict(o, vw=vw) for o in ops]


def _seeds(prop):
    return [o for o in hv.prop_ops(prop) if o["op"] == "direct_edit"]


def short_histories(prop, depth2: bool, small: bool, nseeds=None):
    """[seed edit, get view 1, get view 2] + every sequence of length 1 (full alphabet) and,
    when depth2, every sequence of length 2 over the small alphabet."""
    kind, _ = hv.VIEWS[prop]
    gets = [{"op": "get_view", "prop": prop, "vw": 1}, {"op": "get_view", "prop": prop, "vw": 2}]
    full = _with_vw(hv.ops_for(kind), 1) + hv.prop_ops(prop) + gets
    sm = _with_vw(hv.ops_for(kind, small=True), 1) + _with_vw(hv.ops_for(kind, small=True)[::3], 2) + hv.prop_ops(prop, small=True)[::2] + gets
    out = []
    for seed in _seeds(prop)[:nseeds]:
        pre = [seed] + gets
        for o in full:
            # quick (nseeds given): a second live view adds nothing to a history of length 1 on view 1
            out.append(([seed, gets[0]] if nseeds and o.get("vw") == 1 else pre) + [o])
        if depth2:
            alpha = sm if small else full
            second = sm
            for o1 in alpha:
                for o2 in second:
                    out.append(pre + [o1, o2])
    return out


def keepref_histories(prop, rng, nthird):
    """assign a caller-constructed object, keep the reference, mutate it (1 or 2 steps); the recorder re-reads the
    property after every step.  Also the same after a later overwrite / delete of the header."""
    kind, _ = hv.VIEWS[prop]
    ops = hv.ops_for(kind, small=True)
    out = []
    for a in [o for o in hv.prop_ops(prop) if o["op"] == "assign" and o.get("vw")]:
        pre = [{"op": "get_view", "prop": prop, "vw": 3}, a]
        slots = [a["vw"]] + ([a["n"]] if a.get("n") else [])
        for vw in slots:
            for o in ops:
                out.append(pre + [dict(o, vw=vw)])
            for _ in range(nthird):
                mid = rng.choice([dict(rng.choice(ops), vw=vw), {"op": "direct_edit", "prop": prop, "y": None},
                                  dict(rng.choice(ops), vw=3), {"op": "get_view", "prop": prop, "vw": vw + 3}])
                out.append(pre + [mid, dict(rng.choice(ops), vw=vw), dict(rng.choice(ops), vw=rng.choice([vw, 3]))])
    return out


SETTER_PROPS = ["vary", "allow", "content_language", "content_security_policy", "content_security_policy_report_only",
                "content_range", "www_authenticate"]


def alias_histories(prop, rng, nsample):
    """whole-property assignment of an object that a view slot holds: the view read earlier (get / mutate / assign back),
    a stale view, a view of another property of the same kind, a kept object after mutation, an object taken from another
    response; followed by a mutation of that object and a re-read."""
    kind, _ = hv.VIEWS[prop]
    ops = hv.ops_for(kind, small=True)
    seeds = _seeds(prop)
    S = seeds[1] if len(seeds) > 1 else seeds[0]
    g1, g2 = {"op": "get_view", "prop": prop, "vw": 1}, {"op": "get_view", "prop": prop, "vw": 2}
    al = lambda n, p=prop, tag="alias": {"op": "assign", "prop": p, "tag": tag, "n": n}  # noqa: E731
    pick = lambda vw: dict(rng.choice(ops), vw=vw)  # noqa: E731
    out = [[S, g1, al(1)], [g1, al(1)], [S, g1, al(1), pick(1)], [S, g1, {"op": "direct_edit", "prop": prop, "y": None}, al(1), pick(1)]]
    for o in ops:                                        # get / mutate / assign back
        out.append([S, g1, dict(o, vw=1), al(1)])
    for _ in range(nsample):
        out.append([S, g1, g2, pick(2), al(1), pick(rng.choice([1, 2]))])                      # stale view object
        out.append([S, g1, rng.choice(seeds), al(1), pick(1)])                                  # header edited meanwhile
        out.append([S, g1, pick(1), pick(1), al(1), pick(1), al(1)])
    others = [p for p in SETTER_PROPS if p != prop and hv.VIEWS[p][0] == kind]
    for p2 in others:                                                                           # another property, same kind
        out.append([S, g1, al(1, p2), pick(1)])
        for _ in range(nsample):
            out.append([S, g1, pick(1), al(1, p2), pick(1), {"op": "get_view", "prop": p2, "vw": 3}, pick(3), al(3)])
    keeps = [o for o in hv.prop_ops(prop) if o["op"] == "assign" and o.get("vw") and not o.get("n")]
    for a in keeps:                                                                             # kept object, mutated, assigned again
        a2 = dict(a, vw=2)
        out.append([g1, a2, pick(2), al(2)])
        out.append([g1, a2, pick(2), al(2), pick(2)])
        if a["tag"] in ("value", "list") and not a.get("via"):
            out.append([g1, dict(a2, via="other"), pick(2), al(2)])                             # object from another response
    if kind == "wa":
        out += [[S, g1, pick(1), al(1, tag="alias_list")], [S, g1, al(1, tag="alias_list"), pick(1)]]
    return out


def noop_histories(prop):
    """deterministic: family x behind-the-back edit x same-value mutation.  A view is read (slot 1) from a populated /
    an absent header, the header is changed behind it, then a mutation that does not change the view's own value is
    applied to the held view (and once more after a fresh read): the header must equal the view's serialisation."""
    kind, _ = hv.VIEWS[prop]
    g1 = {"op": "get_view", "prop": prop, "vw": 1}
    out = []
    for empty in (False, True):
        if empty and kind in ("mtp", "wa"):
            continue
        seed = {"op": "direct_edit", "prop": prop, "y": None if empty else hv.NOOP_SEED[kind]}
        for edit in hv.behind_edits(prop):
            for o in hv.noop_ops(kind, empty):
                out.append([seed, g1] + edit + [dict(o, vw=1)])
    return out


def random_walk(rng: random.Random, n: int):
    """one Response, several view properties with up to two live views each, scalars, direct edits"""
    props = rng.sample(hv.VIEW_PROPS, rng.randint(1, 3))
    steps, slots = [], {}
    alpha = {}
    for p in props:
        kind, _ = hv.VIEWS[p]
        alpha[p] = hv.ops_for(kind)
    nslot = 0
    for p in props:
        if rng.random() < 0.6:
            steps.append(rng.choice(_seeds(p)))
        nslot += 1
        slots[nslot] = p
        steps.append({"op": "get_view", "prop": p, "vw": nslot})
    while len(steps) < n:
        r = rng.random()
        if r < 0.70:
            vw = rng.choice(list(slots))
            steps.append(dict(rng.choice(alpha[slots[vw]]), vw=vw))
        elif r < 0.80:
            p = rng.choice(props)
            if rng.random() < 0.5 and nslot < 6:
                nslot += 1
                vw = nslot
            else:
                cands = [s for s, q in slots.items() if q == p]
                vw = rng.choice(cands)
            slots[vw] = p
            steps.append({"op": "get_view", "prop": p, "vw": vw})
        elif r < 0.84 and any(p in SETTER_PROPS for p in props):
            p = rng.choice([p for p in props if p in SETTER_PROPS])      # assign (back) an object some slot holds
            cands = [s for s, q in slots.items() if hv.VIEWS[q][0] == hv.VIEWS[p][0]]
            steps.append({"op": "assign", "prop": p, "tag": "alias", "n": rng.choice(cands)})
        elif r < 0.92:
            p = rng.choice(props)
            o = dict(rng.choice(hv.prop_ops(p)))
            if o.get("vw") and o.get("tag") in ("value", "list") and not o.get("n") and rng.random() < 0.3:
                o["via"] = "other"
            if o.get("vw"):  # the assigned object is kept in a slot (live for www_authenticate = instance, else detached)
                cands = [s for s, q in slots.items() if q == p]
                if rng.random() < 0.5 and nslot < 7:
                    nslot += 1
                    o["vw"] = nslot
                else:
                    o["vw"] = rng.choice(cands)
                slots[o["vw"]] = p
                if o.get("n"):
                    others = [s for s in cands if s != o["vw"]]
                    if others:
                        o["n"] = rng.choice(others)
                    else:
                        o.pop("n")
            steps.append(o)
        else:
            sp = rng.choice(list(hv.SCALARS))
            steps.append(rng.choice(hv.scalar_steps(sp, rng)))
    return steps


def scalar_traces(rng):
    out = []
    for p in hv.SCALARS:
        st = hv.scalar_steps(p, rng)
        for a in st:
            out.append([a])
        for _ in range(3):
            out.append([rng.choice(st) for _ in range(5)])
    return out


# ---------------------------------------------------------------------- judging
def _run(args):
    t, steps, exps = args
    return hv.run_trace(steps, t, exps)


def _key(clause, steps, i):
    s = steps[i - 1] if 1 <= i <= len(steps) else {"op": "?"}
    prop = s.get("prop")
    if prop is None:
        vw = s.get("vw")
        for prev in reversed(steps[:i]):
            if prev.get("vw") == vw and prev.get("prop"):
                prop = prev["prop"]
                break
    return f"{clause}:{prop}.{hv.step_key(s)}"


def judge_traces(ctx: Ctx, traces, exps=None, kind="walk", count=True):
    jobs = [(t, steps, exps[t] if exps else None) for t, steps in enumerate(traces)]
    results = pmap(_run, jobs, workers=ctx.workers, chunksize=32)
    lines = []
    for (t, steps, _), ls in zip(jobs, results):
        lines.extend(ls)
        if count:
            ctx.count(len(steps))
            changed = sum(1 for a, b in zip(ls, ls[1:]) if b["vw"] and b["op"] not in ("get_view", "assign") and a["ht"] != b["ht"])
            if changed:
                ctx.nontrivial.add(repr(steps))
    rejects = ctx.judge(AREA, "HeaderViewsTrace", lines, batch=4000)
    ctx.notes["lines_in_domain"] = ctx.notes.get("lines_in_domain", 0) + sum(r["i"] for r in rejects if r["clause"] == "_indomain")
    rejects = [r for r in rejects if r["clause"] != "_indomain"]
    seen = set()
    for r in sorted(rejects, key=lambda r: (r["t"], r["i"])):
        if r["t"] in seen:
            continue  # first rejected line of a trace (later ones may be consequences)
        seen.add(r["t"])
        steps = traces[r["t"]][: r["i"]]
        case = {"steps": steps, "exps": (exps[r["t"]][: r["i"]] if exps else None)}
        ctx.violation(_key(r["clause"], steps, r["i"]), r["clause"], case, kind=kind)
    return lines


# ---------------------------------------------------------------------- spec -> code
def replay_model(ctx: Ctx, cfg: str, limit=None):
    """Export the labelled transition system of HVModel and replay every transition on the real code."""
    recs = [v for v in ctx.export(AREA, "HVModel", cfg) if isinstance(v, dict) and "act" in v]
    key = lambda s: repr(s)  # noqa: E731
    succ, init = {}, None
    for r in recs:
        succ.setdefault(key(r["pre"]), []).append(r)
        if r.get("init"):
            init = key(r["pre"])
    if init is None:
        raise hv.HarnessError("model export has no initial state")
    # BFS shortest paths
    path = {init: []}
    todo = [init]
    while todo:
        nxt = []
        for s in todo:
            for r in succ.get(s, ()):
                k = key(r["post"])
                if k not in path:
                    path[k] = path[s] + [r]
                    nxt.append(k)
        todo = nxt
    trans = [r for r in recs if key(r["pre"]) in path]
    if limit and len(trans) > limit:
        # a third of the sample: histories that contain "assign an object, keep the reference" before the transition
        rs = random.Random(ctx.seed)
        kept = [r for r in trans if r["act"]["op"] == "assign" or any(c["act"]["op"] == "assign" for c in path[key(r["pre"])])]
        kept_ids = {id(r) for r in kept}
        rest = [r for r in trans if id(r) not in kept_ids]
        na = min(len(kept), limit // 3)
        trans = rs.sample(kept, na) + rs.sample(rest, min(len(rest), limit - na))
        ctx.notes["model_transitions_replayed_after_assign"] = ctx.notes.get("model_transitions_replayed_after_assign", 0) + na
    traces, exps = [], []
    for r in trans:
        chain = path[key(r["pre"])] + [r]
        traces.append([_model_step(c["act"]) for c in chain])
        exps.append([[_text(c["act"]["hdr"])] for c in chain])
    ctx.notes.setdefault("model_transitions_exported", 0)
    ctx.notes["model_transitions_exported"] += len(recs)
    ctx.notes.setdefault("model_transitions_replayed", 0)
    ctx.notes["model_transitions_replayed"] += len(trans)
    judge_traces(ctx, traces, exps, kind="model")
    return len(trans)


def _text(o):
    """optional code point text from the model -> str | None"""
    return None if not o else "".join(chr(c) for c in o[0])


def _s(cp):
    return "".join(chr(c) for c in cp)


def _model_step(act):
    """model action record -> harness step (the model uses the same op names)"""
    prop = {"set": "vary", "wa": "www_authenticate", "cc": "cache_control"}[act["k"]]
    op = act["op"]
    st = {"op": op, "vw": act["vw"]}
    if op in ("get_view", "direct_edit", "assign"):
        st["prop"] = prop
    if op == "assign" and act["tag"] == "alias":
        st.update(tag="alias", n=act["n"])
        return st
    if op == "alias_params":
        st["tag"] = act["tag"]
        st["x"], st["y"] = _s(act["x"]), _text(act["y"])
        return st
    if op == "assign":
        st["tag"] = act["tag"]
        if act["k"] == "wa":
            w = act["w"]
            rec = [_s(w["ty"]), _text(w["tok"]), [[_s(p["k"]), _text(p["v"])] for p in w["ps"]]]
            if act["tag"] == "value":
                st["w"] = rec
            else:
                st["ws"] = [rec]
        else:
            st["xs"] = [_s(x) for x in act["xs"]]
        return st
    if op == "direct_edit":
        st["y"] = _text(act["y"])
    if "x" in act:
        st["x"] = _s(act["x"])
    if op in ("set_token", "setitem", "setattr"):
        st["y"] = _text(act["y"])
    if op == "cc_set":
        st["tag"] = act["tag"]
        tv = act["tv"]
        st["tv"] = {"tg": tv["tg"], "n": tv["n"], "s": _s(tv["s"])}
    if op == "cc_del":
        st["tag"] = act["tag"]
    return st


# ---------------------------------------------------------------------- the repository's own tests
THOROUGH_TEST_FILES = ("tests", "--ignore=tests/test_serving.py", "--ignore=tests/live_apps")
QUICK_TEST_FILES = ("tests/test_wrappers.py", "tests/test_http.py", "tests/test_datastructures.py", "tests/test_send_file.py",
                    "tests/test_utils.py")


def record_repo_tests(ctx: Ctx, files):
    """run the repository's tests under the recording plugin (test process only; /repo untouched)"""
    import json
    import os
    import subprocess
    import sys

    from .. import tlc
    from ..core import REPO, VERIF

    out = os.path.join(ctx.tmp, f"repo-headerview-sessions-{abs(hash(tuple(files))) % 10**8}.json")
    env = dict(os.environ, VERIF_TRACE_OUT=out, PYTHONPATH=VERIF + os.pathsep + os.path.join(REPO, "src"),
               PYTHONDONTWRITEBYTECODE="1")
    p = subprocess.run([sys.executable, "-m", "pytest", "-q", "-p", "no:cacheprovider", "-p", "harness.pytest_headerviews_plugin",
                        "--no-header", "-n", "0", *files], cwd=REPO, env=env, capture_output=True, text=True, timeout=1800)
    tail = (p.stdout + p.stderr)[-1500:]
    if not os.path.exists(out):
        raise tlc.MachineryError("recording the repository's tests produced no trace file:\n" + tail)
    return p, tail, json.load(open(out))


def repo_test_traces(ctx: Ctx, files=QUICK_TEST_FILES, min_steps=150, recorded=None):
    """code -> spec from the repository's own tests: every Response / view object the tests touch is a session
    (harness/pytest_headerviews_plugin.py); all sessions are judged line by line by HeaderViewsTrace."""
    from .. import tlc

    p, tail, data = recorded or record_repo_tests(ctx, files)
    sessions = data["sessions"]
    lines, steps = [], 0
    for t, s in enumerate(sessions):
        for ln in s["lines"]:
            ln["t"] = t
            lines.append(ln)
        steps += sum(1 for ln in s["lines"] if ln["op"] not in ("init", "sync", "adopt"))
    bykind, byop = {}, {}
    for s in sessions:
        bykind[s["kind"]] = bykind.get(s["kind"], 0) + 1
        for w in s["what"]:
            op = w.split(".")[-1].split(":")[0]
            byop[op] = byop.get(op, 0) + 1
    before = ctx.notes.get("lines_in_domain", 0)
    rejects = ctx.judge(AREA, "HeaderViewsTrace", lines, batch=4000) if lines else []
    indom = sum(r["i"] for r in rejects if r["clause"] == "_indomain")
    rejects = [r for r in rejects if r["clause"] != "_indomain"]
    ctx.count(steps)
    ctx.notes["repo_tests"] = {"files": list(files), "objects_seen": data.get("objects_seen"), "sessions_judged": len(sessions),
                               "sessions_by_kind": bykind, "steps_judged": steps, "steps_in_domain": indom, "lines": len(lines),
                               "steps_by_op": dict(sorted(byop.items())), "skipped_or_truncated_by_reason": data["skipped"],
                               "pytest_exit": p.returncode}
    if steps < min_steps:
        raise tlc.MachineryError(f"repository tests under the recording plugin gave only {steps} judged steps (< {min_steps}):\n{tail}")
    seen = set()
    for r in sorted(rejects, key=lambda r: (r["t"], r["i"])):
        if r["t"] in seen:
            continue
        seen.add(r["t"])
        s = sessions[r["t"]]
        what = s["what"][r["i"]] if r["i"] < len(s["what"]) else "?"
        case = {"test": s["test"], "kind": s["kind"], "what": s["what"][: r["i"] + 1], "lines": s["lines"][: r["i"] + 1]}
        ctx.violation(f"RepoTests{r['clause']}:{what}", "RepoTests" + r["clause"], case, kind="repo-tests")
    if p.returncode != 0 and not seen and not ctx.violations:
        # the wrapping must be invisible to the tests: red tests without any rejected session (and without any
        # violation from the check's own histories, which would explain them) cannot be told from interference by
        # the plugin -> machinery, never a verdict
        raise tlc.MachineryError("the repository's tests fail under the recording plugin although no session was rejected:\n" + tail)
    for s in sessions[:: max(1, len(sessions) // 3)][:3]:
        ctx.sample({"repo_test": s["test"], "kind": s["kind"], "steps": s["what"][:10]})
    ctx.nontrivial.update(("repo", t) for t, s in enumerate(sessions) if any(ln["op"] not in ("init", "sync", "adopt", "get_view") for ln in s["lines"]))


# ---------------------------------------------------------------------- entry points
def run(ctx: Ctx):
    q = ctx.quick
    rng = random.Random(ctx.seed)
    ctx.rule = ("case = one step of a history executed on a real sansio Response (view mutators on up to 6 live views of "
                "vary/allow/content_language/cache_control/content_security_policy(_report_only)/content_range/"
                "www_authenticate/mimetype_params, whole-property assignments, direct header edits, scalar typed "
                "properties), judged by TLC against the documented model; histories: every transition of the TLC model "
                "(exported) reached by a shortest path, all length-1 (full alphabet) and length-2 (small alphabet) "
                "histories from each seed header, seeded random walks; non-trivial = distinct history in which a view "
                "mutation changed the header text")
    ctx.assumptions += [
        "input domain: printable ASCII items/keys/values (set items distinct up to letter case, no edge spaces), lower-case "
        "auth schemes, valid content ranges, ints < 2^31; steps outside it are accepted and the model is re-synchronised",
        "a mutator that does not change the view's value may or may not rewrite the header (both accepted)",
        "WWW-Authenticate: a scheme without token and parameters re-reads as the empty token; a view holding both a token "
        "and parameters is outside the re-read clause (documented: only one should have a value)",
    ]
    # the repository's own tests run under the recording plugin while TLC works (judged in 4.)
    import concurrent.futures as cf
    files = QUICK_TEST_FILES if q else THOROUGH_TEST_FILES
    bg = cf.ThreadPoolExecutor(max_workers=1)
    recording = bg.submit(record_repo_tests, ctx, files)
    # 1. model checking (+ non-vacuity: the model of the code before the fixes violates the contract)
    # (the quick-size configs MCX_* check the same properties while exporting the transition system, see 2.)
    if not q:
        for k in ("set", "wa", "cc"):
            ctx.model_check(AREA, "HVModel", f"MCT_{k}", timeout=3000)
    from .. import tlc
    for cfg in ("MCQ_orig_set", "MCQ_orig_wa", "MCQ_nobind_wa", "MCQ_aliasclear_wa", "MCQ_lazynotify_wa"):
        r = tlc.run_tlc(AREA, "HVModel", cfg, workers=ctx.workers, tmp=ctx.tmp, allow_violation=True, timeout=600)
        ctx.notes[f"{cfg}_violates"] = r.invariant_violated
        if not r.invariant_violated:
            raise tlc.MachineryError(f"pre-fix model {cfg} no longer violates the contract: properties may be vacuous")
    ctx.exhaustive = True
    # 2. spec -> code
    for k in ("set", "wa", "cc"):
        replay_model(ctx, f"MCX_{k}", limit=300 if q else 4000)
    # 3. code -> spec
    traces = []
    for p in hv.VIEW_PROPS:
        traces += short_histories(p, depth2=False, small=True, nseeds=2 if q else None)
    for p in hv.VIEW_PROPS:
        hs = [h for h in short_histories(p, depth2=True, small=True) if len(h) == 5]
        traces += rng.sample(hs, min(len(hs), 60 if q else 1500))
    for p in hv.VIEW_PROPS:
        traces += keepref_histories(p, rng, 6 if q else 200)
    for p in SETTER_PROPS:
        traces += alias_histories(p, rng, 3 if q else 150)
    nn = 0
    for p in hv.VIEW_PROPS:
        hs = noop_histories(p)
        nn += len(hs)
        traces += hs
    ctx.notes["noop_histories"] = nn
    traces += scalar_traces(rng)
    for _ in range(130 if q else 5000):
        traces.append(random_walk(rng, rng.randint(6, 14)))
    ctx.notes["histories"] = len(traces)
    lines = judge_traces(ctx, traces)
    for t in (0, len(traces) // 2, len(traces) - 1):
        ctx.sample({"steps": traces[t]})
    # 4. code -> spec from the repository's own tests
    repo_test_traces(ctx, files, recorded=recording.result())
    bg.shutdown()


def replay(ctx: Ctx, data):
    case = data["case"]
    if data.get("kind") == "repo-tests":
        # run that test again under the recording plugin and judge all its sessions
        ctx.sample({"test": case["test"], "steps": case.get("what")})
        ctx.nontrivial.update({"replay-a", "replay-b"})
        repo_test_traces(ctx, (case["test"].split(" ")[0],), min_steps=1)
        return
    ctx.sample(case)
    ctx.nontrivial.update({"replay-a", "replay-b"})
    judge_traces(ctx, [case["steps"]], [case["exps"]] if case.get("exps") else None, kind=data.get("kind", "walk"))
