"""C20 -- host trust and the debugger's gates cannot be bypassed.

1. TLC model-checks (a) host_is_trusted, transcribed string operation by string operation, against the
   label-wise contract HostTrust!Verdicts for every (host, trusted list) of a label grammar, plus laws of the
   contract itself, and (b) the debugger's dispatch + PIN counter (DebuggerGate!ImplStep) against the contract
   clauses for every request of the product from every reachable counter value (all histories).
   The models of the code as pinned (Variant "orig") and three hand-broken variants must FAIL (non-vacuity).
2. spec -> code: the model's (host, list) pairs and the debugger model's labelled transitions are exported
   from TLC and replayed on host_is_trusted / get_host / Request.host and on a real DebuggedApplication
   (spy frame, frozen clock, cookies minted with hash_pin); the recorded outcomes are judged by TLC.
   Growth: spec/hosttrust/ProxyFix.tla (decision table of the X-Forwarded-* selection + the host a Request is
   judged by incl. SERVER_NAME/SERVER_PORT fallback), model-checked for its laws (MCProxyFix), rows exported and
   replayed on the real middleware, composed with HostTrust!Verdicts (clauses Proxy...).
3. code -> spec: label-grammar neighbours of every trusted entry, a code point sweep, seeded random request
   histories, every PIN-attempt sequence over {right, wrong, stale-cookie} up to a length (and beyond the
   lock-out threshold), a very long history (counter wrap) -- all judged by HostTrustTrace.tla.
"""
from __future__ import annotations

import itertools
import random

from .. import hosttrust as ht
from .. import tlc
from ..core import Ctx, pmap
from ..tlc import MachineryError

import os

LEVEL = "model_checking"
AREA = "hosttrust"
JUDGE = "HostTrustTrace"
# development knob: scales the seeded-random volumes of the thorough tier (1 = as designed)
SCALE = float(os.environ.get("VERIF_C20_SCALE", "1"))


def _n(quick_n: int, thorough_n: int, quick: bool) -> int:
    return quick_n if quick else max(quick_n, int(thorough_n * SCALE))


# --------------------------------------------------------------------------- host cases
def _txt(codes):
    return "".join(chr(c) for c in codes)


def host_cases(ctx: Ctx, pairs):
    rng = random.Random(ctx.seed)
    cases = []
    for n, p in enumerate(pairs):  # spec -> code: the pairs TLC enumerated
        apis = ["host_is_trusted", ht.APIS[1 + n % 3]] if ctx.quick else list(ht.APIS)
        cases.append([_txt(p["host"]), [_txt(e) for e in p["list"]], apis, "http", "srv.example", "8080"])
    n_model = len(cases)
    g = ht.grammar_cases(rng, _n(1000, 30000, ctx.quick))
    if ctx.quick:   # two of the four entry points per pair, rotating
        for n, c in enumerate(g):
            if len(c[2]) == 4:
                c[2] = ["host_is_trusted", ht.APIS[1 + n % 3]]
    cases += g
    cases += ht.entrypoint_cases(ctx.quick)    # every entry point x option combination x environ shape
    cases += ht.boundary_list_cases(ctx.quick)  # ... with the configured-but-empty / one-element / degenerate lists
    cases += ht.codepoint_cases(rng, _n(150, 5000, ctx.quick), 0x100 if ctx.quick else 0x500)
    return cases, n_model


def judge_hosts(ctx: Ctx, cases, kind="host"):
    results = pmap(ht.host_case, cases, workers=ctx.workers, chunksize=64)
    lines = []
    seen = {"bool_true": 0, "bool_false": 0, "value": 0, "SecurityError": 0, "url_value": 0, "url_refused": 0, "empty_list_refused": 0}
    for t, (case, lns) in enumerate(zip(cases, results)):
        for i, ln in enumerate(lns):
            ln["t"], ln["i"] = t, i
            lines.append(ln)
            r = ln["r"]
            if r["kind"] == "bool":
                seen["bool_true" if r["b"] else "bool_false"] += 1
            elif r["kind"] == "value":
                seen["value"] += 1
            elif r["exc"] == "SecurityError":
                seen["SecurityError"] += 1
                # (entry point + options, environ shape) that refused an untrusted host
                ctx.nontrivial.add(("entry", ln["api"], ln["scheme"], ln["present"], _txt(ln["srvport"])))
            if not ln["list"] and (r["exc"] == "SecurityError" or (r["kind"] == "bool" and not r["b"])):
                seen["empty_list_refused"] += 1
                ctx.nontrivial.add(("emptylist", ln["api"], ln.get("form")))
            if ln.get("vkind") == "url":
                seen["url_value" if r["kind"] == "value" else "url_refused"] += 1
        ctx.count(len(lns))
        host, lst = case[0], case[1]
        if host and any(e.lstrip(".").lower() and e.lstrip(".").lower() in host.lower() for e in lst):
            ctx.nontrivial.add(("host", host, tuple(lst)))
        if t % 1499 == 7:
            ctx.sample({"host": host, "trusted": lst, "apis": case[2],
                        "results": [(ln["api"], ln["r"]["kind"], ln["r"]["b"], ln["r"]["exc"]) for ln in lns]})
    for r in ctx.judge(AREA, JUDGE, lines, batch=2500):
        case = list(cases[r["t"]])
        api = case[2][r["i"]]
        case[2] = [api]
        ctx.violation(f"{r['clause']}:{api}", r["clause"], case, kind=kind)
    return seen


# --------------------------------------------------------------------------- debugger scripts
def _q(e):
    return {k: e[k] for k in ("cmd", "secret", "cookie", "frame", "pin")}


def scripts_from_lts(ctx: Ctx, lts, rng):
    """spec -> code.  Every exported transition (cfg, cnt) --q/o--> cnt2 becomes a step on a real application
    that was first driven to counter value cnt; transitions that leave the counter alone are chained."""
    groups: dict = {}
    for e in lts:
        groups.setdefault((e["cfg"]["evalex"], e["cfg"]["pin_on"], e["cnt"]), []).append(e)
    scripts = []
    for (evalex, pin_on, cnt), es in sorted(groups.items()):
        rng.shuffle(es)
        if ctx.quick:
            es = es[: len(es) // 2] if cnt in (0, 11) else es[: len(es) // 4]
        stay = [e for e in es if e["cnt2"] == e["cnt"]]
        move = [e for e in es if e["cnt2"] != e["cnt"]]
        # representative Host per verdict; "U" alternates a foreign name with NO Host header on a server
        # bound to a trusted address (the debugger must not fall back to SERVER_NAME)
        def rep(hv, j):
            if hv == "T":
                return ht.TRUSTED_REP
            return ht.UNTRUSTED_REP if j % 2 == 0 else ht.ABSENT_HOSTS[(j // 2) % len(ht.ABSENT_HOSTS)]
        for k in range(0, len(stay), 120):
            steps = ht.prefix_to(cnt)
            for j, e in enumerate(stay[k:k + 120]):
                steps.append([_q(e["q"]), rep(e["q"]["hv"], j + k), j + k, e["o"], e["cnt2"]])
            steps.append([ht.ATTEMPT["right"], ht.TRUSTED_REP, 0])
            scripts.append({"evalex": evalex, "pin_on": pin_on, "steps": steps, "src": "lts"})
        for j, e in enumerate(move):
            steps = ht.prefix_to(cnt)
            steps.append([_q(e["q"]), rep(e["q"]["hv"], j), j, e["o"], e["cnt2"]])
            steps.append([ht.ATTEMPT["right"], ht.TRUSTED_REP, 0])   # probe: is the lock-out state the model's?
            scripts.append({"evalex": evalex, "pin_on": pin_on, "steps": steps, "src": "lts"})
    return scripts


def scripts_code_to_spec(ctx: Ctx, rng):
    q = ctx.quick
    scripts = []
    cfgs = [(e, p) for e in (True, False) for p in (True, False)]
    reqs = list(ht.all_requests())
    # (a) every Host class against every gated endpoint with everything else in order, and the full
    #     product of the other factors for a few hosts
    gate = [
        {"cmd": "eval", "secret": "right", "cookie": "valid", "frame": "known", "pin": "right"},
        {"cmd": "eval", "secret": "right", "cookie": "valid", "frame": "console", "pin": "right"},
        {"cmd": "console", "secret": "absent", "cookie": "absent", "frame": "unknown", "pin": "wrong"},
        {"cmd": "pinauth", "secret": "right", "cookie": "valid", "frame": "unknown", "pin": "right"},
        {"cmd": "pinauth", "secret": "right", "cookie": "absent", "frame": "unknown", "pin": "right"},
        {"cmd": "printpin", "secret": "right", "cookie": "absent", "frame": "unknown", "pin": "wrong"},
    ]
    for evalex, pin_on in cfgs:
        steps = [[g, h, i] for i, (h, g) in enumerate(itertools.product(ht.DEBUG_HOSTS, gate))]
        scripts.append({"evalex": evalex, "pin_on": pin_on, "steps": steps, "src": "hosts"})
    # (a') the Host header ABSENT (no HTTP_HOST key) x SERVER_NAME x SERVER_PORT x every gated command
    for evalex, pin_on in cfgs:
        steps = [[g, h, i] for i, (h, g) in enumerate(itertools.product(ht.ABSENT_HOSTS, ht.GATED))]
        scripts.append({"evalex": evalex, "pin_on": pin_on, "steps": steps, "src": "absent"})
    hosts_full = ["localhost.evil.com", rng.choice(ht.DEBUG_HOSTS)] if q else ht.DEBUG_HOSTS[:: (1 if SCALE >= 1 else 4)]
    for evalex, pin_on in cfgs:
        for h in hosts_full:
            # requests that do not move the counter first, the others afterwards (the judge follows either way)
            rs = sorted(reqs, key=lambda r: r["cmd"] == "pinauth")
            scripts.append({"evalex": evalex, "pin_on": pin_on, "steps": [[r, h, i] for i, r in enumerate(rs)], "src": "product"})
    # (b) seeded random histories over the whole product
    weights = {"eval": 4, "console": 1, "pinauth": 5, "printpin": 1, "resource": 1, "none": 1}
    wreqs = [r for r in reqs for _ in range(weights[r["cmd"]])]
    for _ in range(_n(120, 3000, q)):
        evalex, pin_on = rng.choice(cfgs) if rng.random() < 0.4 else (True, True)
        steps = []
        for _ in range(rng.randint(8, 40)):
            r = rng.choice(wreqs)
            if r["cmd"] == "pinauth" and rng.random() < 0.6:
                r = dict(r, secret="right")
            h = rng.choice(ht.DEBUG_HOSTS) if rng.random() < 0.45 else rng.choice(ht.DEBUG_HOSTS[:6])
            if rng.random() < 0.12:
                h = rng.choice(ht.ABSENT_HOSTS)
            steps.append([r, h, rng.randrange(60)])
        scripts.append({"evalex": evalex, "pin_on": pin_on, "steps": steps, "src": "random"})
    # (c) PIN-attempt sequences over {right, wrong, stale-cookie}
    names = ("right", "wrong", "stale")
    L = 5 if q else (8 if SCALE >= 1 else 6)
    for seq in itertools.product(names, repeat=L):
        scripts.append({"evalex": True, "pin_on": True, "src": "pinseq",
                        "steps": [[ht.ATTEMPT[a], ht.TRUSTED_REP, i] for i, a in enumerate(seq)]})
    for k in ((8, 10, 11) if q else range(4, 12)):
        for seq in itertools.product(names, repeat=14 - max(k, 10) if q else min(14 - k, 6 if SCALE >= 1 else 4)):
            full = ("wrong",) * k + seq + ("right",)
            scripts.append({"evalex": True, "pin_on": True, "src": "pinseq",
                            "steps": [[ht.ATTEMPT[a], ht.TRUSTED_REP, i] for i, a in enumerate(full)]})
    for _ in range(_n(100, 4000, q)):
        p_wrong = rng.choice([0.5, 0.7, 0.9])
        seq = [("wrong" if rng.random() < p_wrong else rng.choice(names)) for _ in range(14)]
        steps = [[ht.ATTEMPT[a], ht.TRUSTED_REP, rng.randrange(60)] for a in seq]
        # a valid cookie, an eval and a right PIN at the end: what does the lock-out leave open?
        steps.append([{"cmd": "pinauth", "secret": "right", "cookie": "valid", "frame": "unknown", "pin": "wrong"}, ht.TRUSTED_REP, 0])
        steps.append([ht.ATTEMPT["right"], ht.TRUSTED_REP, 1])
        scripts.append({"evalex": True, "pin_on": True, "steps": steps, "src": "pinseq"})
    # (f) COMMAND x CONFIGURATION product (construction-time options) and the PIN cookie's age, deterministic
    scripts += ht.command_config_scripts()
    # (e) configuration histories: app.pin = B / A / None, app.trusted_hosts = [...], app.evalex = b between requests
    scripts += ht.config_history_scripts(rng, _n(60, 3000, q))
    # (d) far beyond the lock-out: "until the process restarts"
    for n_stale in ((250,) if q else (244, 245, 250, 520)):
        full = ("wrong",) * 11 + ("stale",) * n_stale + ("right", "wrong", "right")
        scripts.append({"evalex": True, "pin_on": True, "src": "long",
                        "steps": [[ht.ATTEMPT[a], ht.TRUSTED_REP, i] for i, a in enumerate(full)]})
    return scripts


def judge_scripts(ctx: Ctx, scripts, kind="dbg"):
    results = pmap(ht.run_script, scripts, workers=ctx.workers, chunksize=8)
    lines = []
    seen = {"eval_ran": 0, "console": 0, "auth_true": 0, "exhausted": 0, "pin_logged": 0, "refused_400": 0, "cookie_set": 0,
            "absent_host_refused": 0, "config_steps": 0, "old_pin_cookie_refused": 0}
    for t, (sc, lns) in enumerate(zip(scripts, results)):
        lns[0]["t"] = t
        lines.append(lns[0])
        for i, ln in enumerate(lns[1:]):
            ln["t"], ln["i"] = t, i
            lines.append(ln)
            if ln["op"] == "set":
                seen["config_steps"] += 1
                continue
            o = ln["o"]
            seen["old_pin_cookie_refused"] += (ln["cookie"] in ("valid", "validB") and ln["cmd"] == "eval"
                                               and sc["src"] == "config" and not o["eval_ran"] and o["app_called"])
            for k in ("eval_ran", "console", "exhausted", "pin_logged", "cookie_set"):
                seen[k] += bool(o[k])
            seen["auth_true"] += o["auth"] == "true"
            seen["refused_400"] += o["status"] == 400
            seen["absent_host_refused"] += (not ln["hpresent"]) and o["status"] == 400
            if ln["cmd"] not in ("none", "resource"):
                ctx.nontrivial.add(("dbg", sc["evalex"], sc["pin_on"], ln["cmd"], ln["secret"], ln["cookie"], ln["frame"],
                                    ln["pin"], _txt(ln["host"]) if ln["hpresent"] else None, min(ln["cnt"], 12)))
        ctx.count(len(lns) - 1)
        if t % 997 == 3 and len(lns) > 1 and lns[-1]["op"] == "req":
            ln = lns[-1]
            ctx.sample({"debugger": {"evalex": sc["evalex"], "pin_on": sc["pin_on"], "source": sc["src"], "steps": len(lns) - 1},
                        "last_request": {k: ln[k] for k in ("cmd", "secret", "cookie", "frame", "pin")},
                        "host": _txt(ln["host"]), "observed": ln["o"], "counter": ln["cnt"]})
    for r in ctx.judge(AREA, JUDGE, lines, batch=2500):
        sc = scripts[r["t"]]
        step = sc["steps"][r["i"]]
        case = {"evalex": sc["evalex"], "pin_on": sc["pin_on"], "opts": sc.get("opts"),
                "steps": [s[:3] for s in sc["steps"][: r["i"] + 1]]}
        ctx.violation(f"{r['clause']}:{step[0]['cmd']}", r["clause"], case, kind=kind)
    return seen


# --------------------------------------------------------------------------- ProxyFix / server fallback (growth)
PJUDGE = "ProxyFixTrace"


def _case_from_export(e):
    env = {k: _txt(e["env"][k]) for k in ("remote", "scheme", "host", "sname", "sport", "script")}
    if not e["env"]["hostp"]:
        env["host"] = None
    hd = {k: (_txt(v["text"]) if v["p"] else None) for k, v in e["hd"].items()}
    return {"cfg": e["cfg"], "env": env, "hd": hd, "trusted": ["a.co", "[::1]"], "extras": ["e.co:8080"], "exp": e["out"]}


def proxy_cases(ctx: Ctx):
    rng = random.Random(ctx.seed + 2)
    rows = [v for v in ctx.export(AREA, "MCProxyFix", "MCPX_cases" if ctx.quick else "MCPX_big", count_states=False)
            if isinstance(v, dict) and "hd" in v]
    ctx.notes["proxyfix_rows_exported"] = len(rows)
    if len(rows) < 5000:
        raise MachineryError(f"ProxyFix export too small: {len(rows)} rows")
    if ctx.quick:   # a representative slice: every row with a forwarded host, a third of the rest
        rows = [r for n, r in enumerate(rows) if (r["hd"]["host"]["p"] and n % 2 == 0) or n % 5 == 0]
    cases = [_case_from_export(r) for r in rows]
    ctx.notes["proxyfix_rows_replayed"] = len(cases)
    fb = ht.fallback_cases()
    cases += fb if not ctx.quick else fb[::3]
    cases += ht.proxy_random_cases(rng, _n(1200, 40000, ctx.quick))
    return cases


def judge_proxy(ctx: Ctx, cases, kind="pfix"):
    lines = pmap(ht.proxy_case, cases, workers=ctx.workers, chunksize=64)
    seen = {"proxy_accept": 0, "proxy_SecurityError": 0, "proxy_host_replaced": 0, "proxy_twin": 0, "proxy_fallback": 0}
    for t, (c, ln) in enumerate(zip(cases, lines)):
        ln["t"], ln["i"] = t, 0
        seen["proxy_accept"] += ln["r"]["kind"] == "value"
        seen["proxy_SecurityError"] += ln["r"]["exc"] == "SecurityError"
        seen["proxy_host_replaced"] += ln["out"]["host"] != ln["env"]["host"]
        seen["proxy_twin"] += ln["has_twin"]
        seen["proxy_fallback"] += not ln["out"]["hostp"]
        if ln["out"] != ln["env"] or not ln["out"]["hostp"]:
            ctx.nontrivial.add(("pfix", tuple(sorted(c["cfg"].items())), tuple(sorted((k, v) for k, v in c["hd"].items() if v)),
                                c["env"]["host"], c["env"]["sname"], c["env"]["sport"], tuple(c["trusted"])))
        if t % 2999 == 11:
            ctx.sample({"proxy_fix": c["cfg"], "headers": {k: v for k, v in c["hd"].items() if v is not None}, "environ": c["env"],
                        "trusted": c["trusted"], "host_after": _txt(ln["out"]["host"]), "Request.host": [ln["r"]["kind"], _txt(ln["r"]["v"]), ln["r"]["exc"]]})
    ctx.count(len(lines))
    for r in ctx.judge(AREA, PJUDGE, lines, batch=1000):
        c = dict(cases[r["t"]])
        ctx.violation(f"{r['clause']}:proxy_fix", r["clause"], c, kind=kind)
    return seen


# --------------------------------------------------------------------------- entry points
# the committed models must pass; the model of the code as pinned and three hand-broken variants must fail
MODELS = [("MCHostTrust", "MCH_quick", None), ("MCDebugger", "MCD_fixed", None), ("MCDebugger", "MCD_cfg_fixed", None),
          ("MCProxyFix", "MCP_quick", None)]
MODELS_THOROUGH = [("MCHostTrust", "MCH_thorough", None), ("MCHostTrust", "MCH_lists2", None), ("MCHostTrust", "MCH_big", None),
                   ("MCProxyFix", "MCP_full", None), ("MCProxyFix", "MCP_ignored", None)]
BROKEN = [("MCHostTrust", "MCH_orig", "ImplMeetsContract"),   # host_is_trusted as pinned (F14, F15)
          ("MCDebugger", "MCD_orig", "LockoutSticks"),        # the byte counter wraps (F40)
          ("MCDebugger", "MCD_mut_nohost", "ContractHolds"),
          ("MCDebugger", "MCD_mut_nosecret", "ContractHolds"),
          ("MCDebugger", "MCD_mut_nopin", "ContractHolds"),
          # the hash of the PIN memoised on first use and not invalidated by the pin setter
          ("MCDebugger", "MCD_cfg_mut_memohash", "EvalGate"),
          ("MCProxyFix", "MCP_left", "ExtraLeftIrrelevant"),        # a table that counts from the left (client side)
          # the list parsing before repo fix 2d7315b (quoted strings): a client quote merges the proxies' values
          ("MCProxyFix", "MCP_pinned", "ExtraLeftSameVerdict"),
          ("MCProxyFix", "MCP_pinned_for", "QuoteExample")]


def model_checks(ctx: Ctx):
    import concurrent.futures as cf

    jobs = MODELS + ([] if ctx.quick else MODELS_THOROUGH) + BROKEN
    w = max(2, ctx.workers // 3)

    def one(job):
        module, cfg, expect = job
        return job, tlc.run_tlc(AREA, module, cfg, workers=w, tmp=ctx.tmp, allow_violation=expect is not None, timeout=3000)

    with cf.ThreadPoolExecutor(max_workers=3) as ex:
        results = list(ex.map(one, jobs))
    for (module, cfg, expect), r in results:
        if expect is None:
            ctx.states += r.distinct
            ctx.transitions += r.generated
            ctx.model_runs.append({"spec": f"{AREA}/{module}", "cfg": cfg, "distinct": r.distinct, "generated": r.generated,
                                   "depth": r.depth, "wall_s": round(r.wall_s, 1)})
        else:
            ctx.notes.setdefault("broken_models_rejected", {})[cfg] = r.invariant_violated
            if r.invariant_violated != expect:
                raise MachineryError(f"{module}/{cfg}: the deliberately wrong model is not rejected by {expect} "
                                     f"(got {r.invariant_violated!r}): the invariants may be vacuous")


def run(ctx: Ctx):
    q = ctx.quick
    ctx.rule = ("case = one call of host_is_trusted / sansio get_host / wsgi get_host / Request.host on a (host, trusted list) "
                "pair, or one request to a real DebuggedApplication inside a recorded history; pairs: TLC-exported label-grammar "
                "universe, neighbours of every listed entry (look-alike, subdomain, case, IDN/punycode, ports, literals, "
                "malformed labels), code point sweep, seeded random; requests: TLC-exported transitions of the gate model, host "
                "classes x endpoints, product of factors, seeded random histories, PIN-attempt sequences. non-trivial = distinct "
                "(host, list) whose host text contains a listed name, and distinct (config, command, secret, cookie, frame, pin, "
                "host, counter<=12) debugger requests other than none/resource; growth: one request through the real ProxyFix "
                "(TLC-exported table rows, seeded random header lists with client-prepended twins) or with the SERVER_NAME/"
                "SERVER_PORT fallback, then Request(environ, trusted_hosts).host/host_url/root_url/access_route; non-trivial = "
                "distinct cases whose environ was rewritten or that have no Host header")
    ctx.assumptions += [
        "IDNA ToASCII of a non-ASCII label is an uninterpreted function: its recorded value (Python's idna codec) is taken as given",
        "letter-case variants, IDNA-equivalent spellings, a trailing dot, non-numeric port text, lists with a malformed entry: either verdict is accepted",
        "the debugger is driven in-process as a WSGI callable; time.time/time.sleep inside werkzeug.debug are replaced by a frozen clock; "
        "a 'process restart' is a new DebuggedApplication",
        "ProxyFix: header lists without quoted strings in the judged case (quotes/backslashes in the client-prepended twin values); "
        "every Proxy* verdict is taken under both documented readings of empty list elements (counted / ignored), a code/table "
        "disagreement on that alone is drift; SERVER_PORT texts are canonical numbers or non-numbers; which value lands in which "
        "environ key, URL texts and access_route are compared with the documented table as drift only",
        "bounded models: hosts of <= 2..3 labels from 7 representative labels x 4 port forms + 6 literal forms, lists of <= 2 of 12 entries; "
        "debugger: the product of 6 commands x 3 secrets x 3 host verdicts x 5 cookies x 3 frames x 2 PINs from every counter value 0..255",
    ]
    # 1. model checking
    model_checks(ctx)
    ctx.exhaustive = True
    # 2. + 3. hosts
    pairs = [v for v in ctx.export(AREA, "MCHostTrust", "MCHX_pairs", count_states=False) if isinstance(v, dict) and "host" in v]
    ctx.notes["model_pairs_exported"] = len(pairs)
    cases, n_model = host_cases(ctx, pairs)
    seen_h = judge_hosts(ctx, cases)
    # 2. + 3. debugger
    rng = random.Random(ctx.seed + 1)
    lts = [v for v in ctx.export(AREA, "MCDebugger", "MCDX_lts", count_states=False) if isinstance(v, dict) and "q" in v]
    ctx.notes["model_transitions_exported"] = len(lts)
    scripts = scripts_from_lts(ctx, lts, rng)
    ctx.notes["model_transitions_replayed"] = sum(1 for s in scripts for st in s["steps"] if len(st) > 3)
    scripts += scripts_code_to_spec(ctx, rng)
    seen_d = judge_scripts(ctx, scripts)
    # growth: ProxyFix decision table + SERVER_NAME fallback, composed with the trusted-host check
    seen_p = judge_proxy(ctx, proxy_cases(ctx))
    ctx.notes["observed"] = {"hosts": seen_h, "debugger": seen_d, "proxy": seen_p}
    from collections import Counter
    ctx.notes["violation_keys"] = dict(Counter(v["key"] for v in ctx.violations))
    # a run in which the guarded things never happen proves nothing
    # (only when nothing was rejected: a defect that makes an outcome unreachable must surface as its VIOLATION, not as exit 2)
    for k, v in {**seen_h, **seen_d, **seen_p}.items():
        if v == 0 and not ctx.violations and not ctx.known_hits:
            raise MachineryError(f"vacuous run: outcome {k!r} was never observed")
    if len(pairs) < 1000 or len(lts) < 5000:
        raise MachineryError(f"export too small: {len(pairs)} pairs, {len(lts)} transitions")


def replay(ctx: Ctx, data):
    case = data["case"]
    kind = data.get("kind", "host")
    ctx.nontrivial.update({("replay", 0), ("replay", 1)})
    ctx.sample(case)
    if kind == "host":
        judge_hosts(ctx, [case], kind=kind)
    elif kind == "pfix":
        judge_proxy(ctx, [case], kind=kind)
    else:
        judge_scripts(ctx, [{"evalex": case["evalex"], "pin_on": case["pin_on"], "steps": case["steps"], "opts": case.get("opts"),
                             "src": "replay"}], kind=kind)
