"""C10 -- configured form limits are enforced and are pure guards.

Same specs as C01 (spec/multipart): the decoder model with MaxMem / MaxPartsLim is model-checked for
BufBound / PartsBound / OnlyTooLarge / GuardPurity; the real decoder, MultiPartParser and
Request.form/files are run under limit combinations around each body's own sizes, each limited run
next to the unlimited reference of the same body, and judged by MultipartTrace.tla.
"""
from __future__ import annotations

import random

from .. import mp
from ..core import Ctx, pmap
from . import c01

LEVEL = "model_checking"
AREA = "multipart"


def _around(vals, none=True):
    s = set()
    for v in vals:
        for d in (-1, 0, 1):
            if v + d >= 0:
                s.add(v + d)
    out = sorted(s)
    return ([None] if none else []) + out


def _group(args):
    ctype, bnd, body, seed, quick = args
    rng = random.Random(seed)
    n = len(body)
    if ctype == "multipart":
        ref = mp.ref_of(body, bnd)
        formref = mp.run_form(body, bnd, n + 1)
        ct = mp.ctype_for(bnd)
    else:
        ref = {"err": "", "parts": []}
        r = mp.run_request(body, "application/x-www-form-urlencoded")
        formref = r["res"]
        ct = "application/x-www-form-urlencoded"
    cfg = {"op": "cfg", "bnd": list(bnd), "wire": list(body), "ref": ref, "formref": formref, "modelhdr": False, "ctype": ctype}
    runs = []
    fsizes = [p["len"] if p["off"] >= 0 else len(p["lit"]) for p in ref["parts"] if p["kind"] == "field"] or [0]
    nparts = len(ref["parts"])
    mems = _around([max(fsizes), n, 64] if not quick else [max(fsizes), n])
    partsl = _around([nparts]) if nparts else [None, 0, 1]
    mcls = _around([n])
    if ctype == "multipart":
        scheds = [[], [max(1, n // 2)], [1] * min(n - 1, 40) if n > 1 else []] + mp.random_splits(rng, n, 2 if quick else 6)
        for mm in mems:
            for mpn in (partsl if mm is None or not quick else [None, partsl[-1]]):
                if mm is None and mpn is None:
                    continue
                for r in c01._runs_for(body, bnd, scheds, (mm, mpn)):
                    runs.append(r)
                for r in c01._form_runs(body, bnd, [(1, None), (7, None), (64, None), (n + 1, None), (16, [3, 1, 5])], (mm, mpn)):
                    runs.append(r)
    combos = []
    for mcl in mcls:
        for mm in (mems if not quick else [None, mems[1] if len(mems) > 1 else None, mems[-1]]):
            for mpn in ([None] if ctype != "multipart" else ([None, partsl[1] if len(partsl) > 1 else None] if quick else partsl)):
                combos.append((mcl, mm, mpn))
    # the boundary value of every limit: zero is a configured limit, not "no limit"
    for z in ((0, None, None), (None, 0, None), (None, None, 0), (0, 0, 0)):
        if z not in combos and (ctype == "multipart" or z[2] is None):
            combos.append(z)
    for mcl, mm, mpn in combos:
        for has_cl in (True, False):
            for term in (True, False):
                # the wsgi.input object: one with readinto (BytesIO-like), one with only the PEP 3333 methods,
                # one of the latter that also returns short reads
                # every public entry point that takes the limits (the Request attributes, the parse_form_data function,
                # a FormDataParser used once, and one that is re-used after its limit attributes were assigned)
                variants = [("request", sk) for sk in (("full", "pep3333", "short") if (term or not has_cl) else ("full", "pep3333"))]
                variants += [("parse_form_data", "full"), ("from_environ", "pep3333"), ("reused", "full")]
                # second access on the same Request, where the body is still there to be parsed again: cached by
                # get_data() (no content-length limit in play), or refused before anything was read (only that limit)
                if mcl is None and has_cl and not term:
                    variants.append(("cached-twice", "full"))
                if mm is None and mpn is None:
                    variants.append(("twice", "full"))
                for entry, sk in variants:
                    r = mp.run_request(body, ct, mcl=mcl, maxmem=mm, maxparts=mpn, has_cl=has_cl, term=term, stream_kind=sk, entry=entry)
                    runs.append({"op": "req", "api": "request", "entry": entry, "mcl": -1 if mcl is None else mcl,
                                 "maxmem": -1 if mm is None else mm, "maxparts": -1 if mpn is None else mpn,
                                 "has_cl": has_cl, "term": term, "stream": sk, "consumed": r["consumed"], "res": r["res"],
                                 "exp": {"err": "skip", "consumed": 0, "nparts": 0}})
    return cfg, runs


def _model_case(v):
    """spec -> code: one exported FormLimits case executed on the real Request (buffer size is the parser's
    default there, so only outcome-level agreement is compared, as drift)."""
    wire, bnd, c = bytes(v["wire"]), bytes(v["bnd"]), v["c"]
    un = lambda x: None if x < 0 else x
    ct = mp.ctype_for(bnd)
    cfg = {"op": "cfg", "bnd": list(bnd), "wire": list(wire), "ref": mp.ref_of(wire, bnd),
           "formref": mp.run_form(wire, bnd, len(wire) + 1), "modelhdr": False, "ctype": "multipart"}
    r = mp.run_request(wire, ct, mcl=un(c["mcl"]), maxmem=un(c["maxmem"]), maxparts=un(c["maxparts"]), has_cl=c["hasCL"], term=c["term"])
    exp = dict(v["out"])
    if c["buf"] < len(wire):   # the real Request reads with its own buffer size: outcome may differ only through the decoder's buffer bound
        exp = {"err": "skip", "consumed": 0, "nparts": 0}
    run = {"op": "req", "api": "request", "mcl": c["mcl"], "maxmem": c["maxmem"], "maxparts": c["maxparts"],
           "has_cl": c["hasCL"], "term": c["term"], "consumed": r["consumed"], "res": r["res"], "exp": exp}
    return cfg, [run]


def run(ctx: Ctx):
    q = ctx.quick
    ctx.rule = ("case = (body, limit combination, schedule / buffer size / CONTENT_LENGTH+terminated flags) run on the real "
                "decoder, MultiPartParser and Request next to the unlimited reference of the same body, judged by TLC; "
                "limits are taken around each body's own field sizes, part count and length (v-1, v, v+1, None); "
                "non-trivial = distinct (body, maxmem, maxparts, max_content_length) with at least one limit set")
    ctx.assumptions += [
        "spurious 413 (a limit raising although nothing exceeds it) is not a violation of the property as stated",
        "urlencoded bodies: max_form_memory_size is required to be enforced only when CONTENT_LENGTH is present (documented behaviour)",
    ]
    for cfg in ("MCL_mem", "MCL_parts") + (() if q else ("MCL_mem2", "MCL_both")):
        ctx.model_check(AREA, "MCQ_base", cfg, timeout=1800)
    # request level: get_input_stream + LimitedStream abstraction + parser loop + decoder model vs the contract
    ctx.model_check(AREA, "MCFL", "MCFL_q" if q else "MCFL_t", timeout=7200)
    from .. import tlc
    for bad in (("MCFL_bad_term",) if q else ("MCFL_bad_term", "MCFL_bad_field")):
        r = tlc.run_tlc(AREA, "MCFL", bad, workers=ctx.workers, tmp=ctx.tmp, allow_violation=True, timeout=1800)
        ctx.notes.setdefault("broken_models_rejected", {})[bad] = r.invariant_violated
        if not r.invariant_violated:
            raise tlc.MachineryError(f"deliberately broken request-level model {bad} is not rejected (vacuity)")
    ctx.exhaustive = True
    exported = [v for v in ctx.export(AREA, "MCFL", "MCFLX_q", count_states=False) if isinstance(v, dict) and "wire" in v]
    rngx = random.Random(ctx.seed)
    rngx.shuffle(exported)
    model_cases = exported[: (1500 if q else 12000)]
    ctx.notes["request_model_cases_exported"] = len(exported)
    rng = random.Random(ctx.seed)
    bodies = mp.limit_bodies(rng, q)
    for _ in range(10 if q else 200):
        w, b = mp.random_body(rng)
        bodies.append(("multipart", b, w))
    groups = [(ct, b, w, ctx.seed + i, q) for i, (ct, b, w) in enumerate(bodies)]
    results = pmap(_group, groups, workers=ctx.workers, chunksize=1) if len(groups) >= 200 else [_group(g) for g in groups]
    results += pmap(_model_case, model_cases, workers=ctx.workers, chunksize=16)
    lines = []
    for t, (cfg, runs) in enumerate(results):
        cfg["t"] = t
        lines.append(cfg)
        for i, r in enumerate(runs):
            r["t"], r["i"] = t, i
            lines.append(r)
            ctx.count(1, (t, r.get("mcl", -1), r["maxmem"], r["maxparts"]))
        if t % 9 == 0:
            ctx.sample({"ctype": cfg["ctype"], "body_len": len(cfg["wire"]), "runs": len(runs),
                        "example": {k: v for k, v in (runs[len(runs) // 2] if runs else {}).items() if k in ("op", "mcl", "maxmem", "maxparts", "has_cl", "term", "chunks", "buffer_size")}})
    rejects = ctx.judge(AREA, "MultipartTrace", lines, batch=2500)
    bykey = {(ln["t"], ln.get("i")): ln for ln in lines if ln["op"] != "cfg"}
    cfgs = {ln["t"]: ln for ln in lines if ln["op"] == "cfg"}
    for r in rejects:
        ln = bykey[(r["t"], r["i"])]
        c = cfgs[r["t"]]
        case = {"wire": c["wire"], "bnd": c["bnd"], "ctype": c["ctype"], "api": ln["api"], "chunks": ln.get("chunks"),
                "buffer_size": ln.get("buffer_size"), "plan": ln.get("plan"), "maxmem": ln["maxmem"], "maxparts": ln["maxparts"],
                "mcl": ln.get("mcl", -1), "has_cl": ln.get("has_cl"), "term": ln.get("term"), "stream": ln.get("stream", "full"), "entry": ln.get("entry", "request")}
        key = f"{r['clause']}:{ln['api']}:{c['ctype']}"
        if ln["api"] == "request":
            key += f":cl={int(bool(ln['has_cl']))}:term={int(bool(ln['term']))}" + ("" if ln.get("entry", "request") == "request" else ":" + ln["entry"])
        ctx.violation(key, r["clause"], case, kind="c10")


def replay(ctx: Ctx, data):
    case = data["case"]
    w, b = bytes(case["wire"]), bytes(case["bnd"])
    un = lambda v: None if v is None or v < 0 else v
    if case["ctype"] == "multipart":
        ref, formref = mp.ref_of(w, b), mp.run_form(w, b, len(w) + 1)
        ct = mp.ctype_for(b)
    else:
        ref, formref = {"err": "", "parts": []}, mp.run_request(w, "application/x-www-form-urlencoded")["res"]
        ct = "application/x-www-form-urlencoded"
    cfg = {"t": 0, "op": "cfg", "bnd": list(b), "wire": list(w), "ref": ref, "formref": formref, "modelhdr": False, "ctype": case["ctype"]}
    lim = (un(case["maxmem"]), un(case["maxparts"]))
    if case["api"] == "decoder":
        runs = c01._runs_for(w, b, [case["chunks"]], lim)
    elif case["api"] == "parser":
        runs = c01._form_runs(w, b, [(case["buffer_size"], case["plan"] or None)], lim)
    else:
        r = mp.run_request(w, ct, mcl=un(case["mcl"]), maxmem=lim[0], maxparts=lim[1], has_cl=case["has_cl"], term=case["term"],
                           stream_kind=case.get("stream", "full"), entry=case.get("entry", "request"))
        runs = [{"op": "req", "api": "request", "mcl": case["mcl"], "maxmem": case["maxmem"], "maxparts": case["maxparts"],
                 "has_cl": case["has_cl"], "term": case["term"], "stream": case.get("stream", "full"), "entry": case.get("entry", "request"), "consumed": r["consumed"], "res": r["res"],
                 "exp": {"err": "skip", "consumed": 0, "nparts": 0}}]
    lines = [cfg]
    for i, r in enumerate(runs):
        r["t"], r["i"] = 0, i
        lines.append(r)
    ctx.count(len(runs))
    ctx.nontrivial.update({("replay", 0), ("replay", 1)})
    ctx.sample({k: v for k, v in case.items() if k != "wire"})
    for r in ctx.judge(AREA, "MultipartTrace", lines):
        ctx.violation(data["key"], r["clause"], case, kind="c10")
