"""C07 -- no client-controlled header or query text can crash request parsing.

LEVEL exploration: a specification cannot predict which inputs crash without being the
implementation.  spec/hostile contributes
  (a) the hostile input space -- the domain (RFC 9110 field-value characters), per header family a
      token alphabet, and TLC enumerates every token sequence up to a bound, the grammar-generated
      number / instant neighbourhoods (Range, Content-Range, dates), every domain character in
      every context and every pumped token (MCHostile; invariants: in domain, bounded); the
      texts are exported and fed to the functions / environ slots the spec assigns to the family;
  (b) the outcome contract -- Hostile!Table (function -> positions -> documented result signatures)
      and Hostile!Clause, evaluated by TLC (HostileTrace) on every distinct recorded outcome vector.
Body family (spec/hostile/HostileBody.tla): hostile CONTENT_TYPE texts (grammar: type x boundary parameter x charset
parameter, plus the family's token sequences / sweeps / pumps) x CONTENT_LENGTH variants x request bodies (urlencoded,
multipart with hostile part headers, JSON incl. deep nesting), all defined in the spec and exported; function
"RequestBody" touches every Request attribute plus fresh-request orders (stream.read, get_data, get_json(force), files
before form, form after the stream was read).  Its violation keys start with "Body<clause>".
Accept family: tokens / grammar with region tags next to every spelling of q=0; the Accept-class positions are also
called with offers derived from the header under test (hostile.derive_offers: ranges, primary tags, regional variants,
MIME generalisations, charset aliases, one unrelated offer; singletons, ordered pairs, full list, with / without default).
Ext family (spec/hostile/HostileExt.tla): RFC 2231 / 8187 extended parameters name*=charset'lang'value and continuations,
charset labels from real codec names, spelling variants and non-codecs, always with percent-escaped values; fed to
parse_options_header / parse_dict_header / parse_accept_header, CONTENT_TYPE and Accept slots, and as Content-Disposition /
Content-Type of a multipart part (function "RequestPart", keys "Part<clause>").
The driver adds seeded random token sequences (longer, and across families) drawn from the exported
token tables.  Python records type signatures / exception class names only.
"""
from __future__ import annotations

import json
import random

from .. import hostile as H
from ..core import Ctx, pmap
from ..tlc import MachineryError

LEVEL = "exploration"
AREA = "hostile"


def _text(cp):
    return "".join(map(chr, cp))


def _names(fn):
    return ["call"] + [n for n, _ in H.table()[fn][1]]


def execute(ctx: Ctx, items):
    """items: list of (fn, slot, s).  Runs them on the real code (fork pool) -> outcome classes."""
    if not items:
        return {}
    size = max(20, min(400, len(items) // 400 + 1))
    chunks = [items[i:i + size] for i in range(0, len(items), size)]
    classes: dict = {}
    for part in pmap(H.run_batch, chunks, workers=ctx.workers, chunksize=1):
        for key, (n, exs) in part.items():
            H.merge(classes, key, n, exs)
    ctx.count(len(items))
    return classes


def judge_classes(ctx: Ctx, classes, kind="c07"):
    """One TLC judge run over the recorder's schema lines and every distinct outcome vector."""
    sch = H.schema_lines()
    lines = sch + H.class_lines(classes)
    for k, ln in enumerate(lines):
        ln["t"] = k
    rejects = ctx.judge(AREA, "HostileTrace", lines, batch=1500)
    seen = {}
    outside = ctx.notes.setdefault("uses_outside_the_property_statement_that_failed", [])
    for r in sorted(rejects, key=lambda r: (r["t"], r["w"])):
        ln = lines[r["t"]]
        if r["clause"] in ("MalformedTraceLine", "OutOfDomain", "SchemaMismatch"):
            raise MachineryError(f"judge: {r['clause']} for line {json.dumps(ln)[:400]}")
        pos = _names(ln["fn"])[r["w"] - 1]
        what = ln["ty"][r["w"] - 1][0] if ln["kd"][r["w"] - 1] != 0 else "|".join(ln["ty"][r["w"] - 1])
        where = ln["fn"] + ("@" + ln["slot"] if ln["fn"] == "Request" else "")
        key = f"{where}:{pos}:{r['clause']}:{what}"
        if ln["fn"] == "RequestPart":
            key = f"Part{r['clause']}:{ln['slot']}:{pos}:{what}"
        if ln["fn"] == "RequestBody":   # body family: its own clause prefix; the CONTENT_LENGTH variant is not part of the key
            key = f"Body{r['clause']}:{ln['slot'].split('|')[0]}:{pos}:{what}"
        ex = _text(ln["ex"][0])
        if not r["core"]:
            if len(outside) < 40 and not any(o["key"] == key for o in outside):
                outside.append({"key": key, "example": ex[:80], "example_length": len(ex)})
            continue
        cur = seen.get(key)
        if cur is None or (len(ex), ex) < (len(cur["s"]), cur["s"]):
            seen[key] = {"fn": ln["fn"], "slot": ln["slot"], "s": ex, "position": pos, "observed": what,
                         "n": ln["n"] + (cur["n"] if cur else 0)}
        else:
            cur["n"] += ln["n"]
    ctx.notes.setdefault("rejected_keys", []).extend(sorted(seen))
    for key, case in sorted(seen.items()):
        ctx.violation(key, key.split(":")[0] if key.startswith(("Body", "Part")) else key.split(":")[2], case, kind=kind)
    return lines[len(sch):]


def body_slots(rng, ctype: str, mode: str, quick: bool):
    """The (body, CONTENT_LENGTH variant) combinations a CONTENT_TYPE text of the body family is run with.
    quick: one seeded combination (for grammar texts half of the time a body of the kind the text names, exact length);
    thorough, grammar texts: every body of that kind plus the empty body and three seeded ones, each with
    CONTENT_LENGTH exact and absent-but-terminated."""
    low = ctype.lower()
    kind = "mp" if "multipart" in low else "json" if "json" in low else "url" if "urlencoded" in low else "any"
    names = sorted(H.BODY_TABLE)
    same = [n for n in names if H.BODY_TABLE[n][0] == kind] or names
    cls = sorted(H.BODY_TABLE[names[0]][3])
    if quick or mode != "gram":
        if mode == "gram" and rng.random() < 0.5:
            return [f"{rng.choice(same)}|exact"]
        return [f"{rng.choice(names)}|{rng.choice(cls)}"]
    chosen = sorted(set(same) | {"empty"} | set(rng.sample(names, 3)))
    return [f"{n}|{c}" for n in chosen for c in ("exact", "terminated")]


def run(ctx: Ctx):
    q = ctx.quick
    rng = random.Random(ctx.seed)
    ctx.rule = ("case = (function or Request environ slot, hostile text): the function is called / the Request is built from a "
                "well-formed environ with the text in that client-controlled variable and every position of Hostile!Table "
                "(the call, the uses of the result, every public Request attribute) is executed; texts = TLC-enumerated token "
                "sequences per header family, grammar-generated neighbouring numbers / boundary instants (Range, Content-Range, dates), every domain character in every context, pumped tokens and token pairs (1-8 KiB), seeded random "
                "token sequences (also across families); identical outcome vectors are grouped and each distinct vector is "
                "judged by TLC; non-trivial = distinct (function/slot, text) whose text has >= 2 tokens or is a sweep/pump text")
    ctx.assumptions += [
        "domain of client-controlled text: code points 0x20-0x7E and 0x80-0xFF (RFC 9110 field-value: SP, VCHAR, obs-text); "
        "C0 controls (incl. HTAB, CR, LF) and DEL are outside",
        "server-controlled environ variables are well formed (SERVER_NAME srv.test, SERVER_PORT 8080, SCRIPT_NAME /app, wsgi.*); "
        "PATH_INFO is '/' + text; for the header families the request body is a fixed small urlencoded / multipart / JSON body",
        "body family: bodies, CONTENT_LENGTH variants (absent, absent+wsgi.input_terminated, exact, 0, -1, abc, 30 nines, superscript "
        "digits, spaces, '+n', n-1, n+1, empty, 'n.0', hex) and the CONTENT_TYPE grammar are those of HostileBody.tla; default limits "
        "(max_content_length None, max_form_memory_size 500 kB, max_form_parts 1000); form / files / values of a malformed body are "
        "empty by design (silent parser), a 4xx (413, 400 ClientDisconnected, 415) is accepted everywhere; FileStorage attributes are "
        "recorded but not judged as verdicts",
        "offers passed to membership / best_match are valid (an invalid mimetype *offer* raises a documented ValueError for the developer)",
        "non-termination is observed as: one call plus all uses of its result on a text of <= ~8 KiB does not finish within "
        f"{H.BUDGET_S} s of CPU time (ITIMER_VIRTUAL, so machine load cannot cause a false alarm)",
        "serialisers applied to parsed objects (to_header, str, http_date, ...) are executed and reported "
        "(coverage.uses_outside_the_property_statement_that_failed) but are not in the property statement: never a verdict",
    ]
    # 1./2. TLC enumerates the input space (invariants checked in the same runs) and exports it
    tables, texts, targeted = {}, {}, []
    for cfg in ["MCX_quick" if q else "MCX_thorough"]:
        for v in ctx.export(AREA, "MCHostile", cfg, timeout=3000):
            if not isinstance(v, dict):
                continue
            if "table" in v:
                tables[v["table"]] = {"toks": [_text(t) for t in v["toks"]], "fns": v["fns"], "slots": v["slots"], "ctxt": v["ctxt"]}
                if "bodies" in v:
                    H.set_body_table(v["bodies"])
            elif v.get("mode") == "target":      # fam = the function / slot the text is aimed at: executed in both tiers
                targeted.append((v["fam"], "-", _text(v["s"])) if v["fam"] in H.table() else ("Request", v["fam"], _text(v["s"])))
            elif "fam" in v:
                texts.setdefault((v["fam"], v["mode"]), {})[_text(v["s"])] = v["k"] if v["mode"] == "sweep" else v["len"]
    if not tables or not texts:
        raise MachineryError("MCHostile exported nothing")
    ctx.exhaustive = False
    ctx.notes["texts_enumerated_by_tlc"] = {f"{f}/{m}": len(s) for (f, m), s in sorted(texts.items())}
    items = []
    trivial = set()          # texts of at most one token
    # every text goes to every pure function of its family; a Request is ~30x dearer than a pure call, so sequences of >= 3
    # tokens (and, in the quick tier, 2-token sequences / grammar / sweep / pump texts) go to a seeded sample of the family's slots
    for (fam, mode), ss in sorted(texts.items()):
        tb = tables[fam]
        for s, ntok in sorted(ss.items()):
            for fn in tb["fns"]:
                items.append((fn, "-", s))
            if fam == "body":
                items += [("RequestBody", sl, s) for sl in body_slots(rng, s, mode, q)]
                if mode == "seq" and ntok <= 1:
                    trivial.add(s)
                continue
            if fam == "ext":     # extended parameters also travel in the headers of a multipart part
                if q:            # quick: one of the four Request slots and two part slots per text
                    pick = rng.choice(tb["slots"] + H.PART_SLOTS)
                    items.append(("RequestPart", pick, s) if pick in H.PART_SLOTS else ("Request", pick, s))
                    if mode == "seq" and ntok <= 1:
                        trivial.add(s)
                    continue
                items += [("RequestPart", sl, s) for sl in H.PART_SLOTS]
            slots = tb["slots"]
            if mode == "seq" and ntok >= 3:
                slots = rng.sample(slots, 1)
            elif mode == "seq" and ntok == 2 and q:
                slots = rng.sample(slots, 1)
            elif mode == "gram" and q:
                slots = rng.sample(slots, min(2, len(slots)))
            elif mode == "sweep" and q:
                # ntok is the context index here: the slots that parse what the context surrounds always get the text
                aimed = list(tb["ctxt"][ntok - 1])
                slots = aimed + [sl for sl in rng.sample(slots, 1) if sl not in aimed]
            elif mode in ("pump", "pump2") and q:
                slots = rng.sample(slots, 1)
            for sl in slots:
                items.append(("Request", sl, s))
            if mode == "seq" and ntok <= 1:
                trivial.add(s)
    items += targeted
    ctx.notes["targeted_pairs"] = len(targeted)
    # every body x every CONTENT_LENGTH variant under the content types the body is normally sent with
    for bn, (_kind, _b, canon, cls) in sorted(H.BODY_TABLE.items()):
        for cl in sorted(cls):
            for ct in (canon, canon + "; charset=rot13", "multipart/form-data", ""):
                items.append(("RequestBody", f"{bn}|{cl}", ct))
    # 3. seeded random: longer sequences within a family, and texts of any family fed to any function / slot
    fams = sorted(tables)
    all_fns = [fn for fn in H.PURE_FNS]
    n_rand = 3000 if q else 150000
    for _ in range(n_rand):
        fam = rng.choice(fams)
        tb = tables[fam]
        toks = tb["toks"]
        if rng.random() < 0.25:
            toks = toks + tables[rng.choice(fams)]["toks"]
        s = "".join(rng.choice(toks) for _ in range(rng.randint(3, 9)))
        if rng.random() < 0.3:
            fn = rng.choice(all_fns)
            items.append((fn, "-", s))
            items.append(("Request", rng.choice(H.SLOTS), s))
        else:
            for fn in tb["fns"]:
                items.append((fn, "-", s))
            if fam == "body":
                items += [("RequestBody", sl, s) for sl in body_slots(rng, s, "seq", True)]
                continue
            sl = rng.choice(tb["slots"])
            items.append(("Request", sl, s))
    items = sorted(set(items))
    rng.shuffle(items)
    ctx.notes["calls_by_function"] = {}
    for fn, sl, _ in items:
        k = fn if fn != "Request" else "Request@" + sl
        ctx.notes["calls_by_function"][k] = ctx.notes["calls_by_function"].get(k, 0) + 1
    t_gen = ctx.elapsed()
    classes = execute(ctx, items)
    t_run = ctx.elapsed()
    ctx.nontrivial = range(sum(1 for it in items if it[2] not in trivial))   # only its size is reported (items are distinct)
    ctx.notes["distinct_outcome_vectors"] = len(classes)
    lines = judge_classes(ctx, classes)
    ctx.notes["phase_s"] = {"tlc_enumeration_and_items": round(t_gen, 1), "real_code": round(t_run - t_gen, 1),
                            "tlc_judge": round(ctx.elapsed() - t_run, 1)}
    for ln in lines[:: max(1, len(lines) // 6)]:
        ctx.sample({"fn": ln["fn"], "slot": ln["slot"], "text": _text(ln["ex"][0])[:80], "calls_with_this_outcome": ln["n"],
                    "outcome": [[n, k, t] for n, k, t in zip(_names(ln["fn"]), ln["kd"], ln["ty"]) if k != 3][:6]})


def replay(ctx: Ctx, data):
    c = data["case"]
    if c["fn"] == "RequestBody":
        for v in ctx.export(AREA, "MCHostile", "MCX_table", count_states=False):
            if isinstance(v, dict) and "bodies" in v:
                H.set_body_table(v["bodies"])
    classes = H.run_batch([(c["fn"], c["slot"], c["s"])])
    ctx.count(1)
    ctx.sample(c)
    judge_classes(ctx, classes, kind=data.get("kind", "c07"))
    ctx.nontrivial.update({0, 1})
