"""Recorders / drivers for the response area (C05).

Nothing here decides a verdict: the functions build real werkzeug objects from a JSON-able
description, run them, and record arguments, exception class names and projected state (header
lists as code points with `type(value) is str`, body bytes, close counters).  The relation is
judged by spec/response/ResponseTrace.tla.
"""
from __future__ import annotations

import io
import random

STD_BASE = ("/d/f", "http://localhost/")  # Response!ORIGIN / DIR


def txt(cps) -> str:
    return "".join(chr(c) for c in cps)


def cps(s: str) -> list[int]:
    return [ord(c) for c in s]


def hlist(headers) -> list[dict]:
    """project a Headers object / wsgi list: name, value as code points, s = native str"""
    out = []
    for item in list(headers):
        k, v = item[0], item[1]
        native = isinstance(v, str) and type(k) is str
        out.append({"n": cps(str(k)), "v": cps(str.__str__(v) if isinstance(v, str) else repr(v)), "s": native})
    return out


def plain(hl) -> list[dict]:
    return [{"n": e["n"], "v": e["v"]} for e in hl]


# ---------------------------------------------------------------------------- Headers mutators
C0 = {"m": "", "n": [], "i": 0, "j": 0, "vs": [], "ps": [], "kn": [], "kv": [], "form": "", "kind": "str"}


def mkcall(m, **kw) -> dict:
    c = dict(C0)
    c["m"] = m
    c.update(kw)
    return c


# ---- value kinds: every entry point also gets values that are not (plain) str; the text of a value in a call is
# always str(value), the documented conversion.  `kind` of a call applies to all its values.
class StrSub(str):
    pass


class StrObj:
    def __init__(self, text):
        self._t = text

    def __str__(self):
        return self._t


class PathObj(StrObj):
    def __fspath__(self):
        return self._t


VALUE_KINDS = ["str", "strsub", "obj", "exc", "pathlike", "int", "literal"]


def val(text: str, kind: str):
    """an object of the given kind whose str() is `text` (falls back to the plain str when impossible)"""
    if kind == "strsub":
        return StrSub(text)
    if kind == "obj":
        return StrObj(text)
    if kind == "exc":
        e = ValueError(text)
        return e if str(e) == text else text
    if kind == "pathlike":
        return PathObj(text)
    if kind == "int":
        try:
            n = int(text)
        except ValueError:
            return text
        return n if str(n) == text else text
    if kind == "literal":
        import ast
        try:
            o = ast.literal_eval(text)
        except Exception:
            return text
        return o if not isinstance(o, str) and str(o) == text else text
    return text


# The model's argument forms are abstract (an iterable of pairs, a mapping name -> value, a mapping name -> list);
# every documented concrete type that carries the same content must take the same transition.
CARRIERS = {"pairs": ["tuple", "gen"], "dict": ["md", "imd", "mapproxy"], "dictlist": ["md", "imd", "mapproxy", "tuples"]}


def carriers_for(c):
    """carriers under which the call c means the same as in its plain form (MultiDict drops empty lists)"""
    if c["m"] not in ("extend", "update", "ctor") or c["form"] not in CARRIERS or not c["ps"]:
        return []
    if c["form"] == "dictlist" and any(len(p["vs"]) == 0 for p in c["ps"]):
        return ["mapproxy", "tuples"]
    return CARRIERS[c["form"]]


def _carry(d, carrier):
    from werkzeug.datastructures import ImmutableMultiDict, MultiDict

    if carrier == "md":
        return MultiDict(d)
    if carrier == "imd":
        return ImmutableMultiDict(d)
    if carrier == "mapproxy":
        import types
        return types.MappingProxyType(d)
    if carrier == "tuples":
        return {k: tuple(v) for k, v in d.items()}
    return d


def _arg(c):
    """the positional / keyword argument of extend / update / ctor in its `form`"""
    k = c.get("kind", "str")
    ps = [(txt(p["n"]), [val(txt(v), k) for v in p["vs"]]) for p in c["ps"]]
    form = c["form"]
    carrier = c.get("carrier", "")      # concrete Python type that carries the abstract argument (see CARRIERS)
    if form == "pairs":
        a = [(n, vs[0]) for n, vs in ps]
        if carrier == "tuple":
            return tuple(a), {}
        if carrier == "gen":
            return (p for p in a), {}
        return a, {}
    if form == "dict":
        d = {n: vs[0] for n, vs in ps}
        return _carry(d, carrier), {}
    if form == "dictlist":
        d = {n: list(vs) for n, vs in ps}
        return _carry(d, carrier), {}
    if form == "kwargs":
        return None, {n: list(vs) for n, vs in ps}
    raise ValueError(form)


def apply_call(h, c):
    """perform the call on a real Headers object; returns the object (ctor builds a new one)"""
    from werkzeug.datastructures import Headers

    m = c["m"]
    n = txt(c["n"])
    k = c.get("kind", "str")
    vs = [txt(v) if m in ("add_kw", "set_kw") else val(txt(v), k) for v in c["vs"]]    # *_kw: the kind goes to the parameter
    if m == "add":
        h.add(n, vs[0])
    elif m == "add_kw":
        h.add(n, vs[0], **{txt(c["kn"]): val(txt(c["kv"]), k)})
    elif m == "set":
        h.set(n, vs[0])
    elif m == "set_kw":
        h.set(n, vs[0], **{txt(c["kn"]): val(txt(c["kv"]), k)})
    elif m == "setitem":
        h[n] = vs[0]
    elif m == "setdefault":
        h.setdefault(n, vs[0])
    elif m == "setlist":
        h.setlist(n, vs)
    elif m == "setlistdefault":
        h.setlistdefault(n, vs)
    elif m == "setitem_int":
        h[c["i"]] = (n, vs[0])
    elif m == "setitem_slice":
        h[c["i"]:c["j"]] = [(txt(p["n"]), val(txt(p["vs"][0]), k)) for p in c["ps"]]
    elif m == "extend":
        a, kw = _arg(c)
        h.extend(a, **kw) if a is not None else h.extend(**kw)
    elif m == "update":
        a, kw = _arg(c)
        h.update(a, **kw) if a is not None else h.update(**kw)
    elif m == "ctor":
        a, _ = _arg(c)
        return Headers(a)
    elif m == "remove":
        h.remove(n)
    elif m == "clear":
        h.clear()
    else:
        raise ValueError(m)
    return h


def fresh_headers(pre, target):
    from werkzeug.datastructures import Headers

    pairs = [(txt(e["n"]), txt(e["v"])) for e in pre]
    if target == "Response.headers":
        from werkzeug.wrappers import Response

        r = Response()
        r.headers.clear()
        r.headers.extend(pairs)
        return r.headers
    return Headers(pairs)


def hdr_step(h, c, target="Headers"):
    """one mutator call on the live object h -> (object after, recorded line)"""
    pre = plain(hlist(h))
    exc = ""
    try:
        h2 = apply_call(h, c)
    except Exception as e:  # recorded, judged by TLC
        exc = type(e).__name__
        h2 = h
    return h2, {"op": "hdr", "target": target, "pre": pre, "c": c, "exc": exc, "post": hlist(h2)}


def hdr_case(case):
    """a recorded / exported transition: rebuild `pre`, perform the call"""
    h = fresh_headers(case["pre"], case.get("target", "Headers"))
    _, line = hdr_step(h, case["c"], case.get("target", "Headers"))
    return line


# ---------------------------------------------------------------------------- finalisation
class ClosableIter:
    def __init__(self, items):
        self._it = iter(items)
        self.closed = 0

    def __iter__(self):
        return self

    def __next__(self):
        return next(self._it)

    def close(self):
        self.closed += 1


class CountingFile(io.BytesIO):
    closes = 0

    def close(self):
        self.closes += 1
        super().close()


_ENV = {}


def environ_for(method, base=STD_BASE):
    from werkzeug.test import create_environ

    key = base
    if key not in _ENV:
        _ENV[key] = create_environ(base[0], base[1])
    env = dict(_ENV[key])
    env["REQUEST_METHOD"] = method
    return env


def _item(it):
    return txt(it["v"]) if it["k"] == "s" else bytes(it["v"])


def build_body(inp, env):
    """-> (body argument, probe) ; probe() returns the iterable's own close count (-1: none)"""
    from werkzeug.wsgi import wrap_file

    shape = inp["shape"]
    items = [_item(it) for it in inp["items"]]
    if shape in ("str", "bytes"):
        return items[0], lambda: -1
    if shape == "list":
        return list(items), lambda: -1
    if shape == "tuple":
        return tuple(items), lambda: -1
    if shape == "gen":
        def g():
            yield from items
        gen = g()
        return gen, lambda: 1 if gen.gi_frame is None else 0
    if shape == "iter":
        ci = ClosableIter(items)
        return ci, lambda: ci.closed
    if shape == "file":
        f = CountingFile(items[0])
        return wrap_file(env, f), lambda: f.closes
    raise ValueError(shape)


def fin_case(inp):
    """Build the real Response described by inp, finalise it with get_wsgi_response, let a WSGI
    server pull `plan` chunks and close the iterable.  Returns the recorded line."""
    from http import HTTPStatus

    from werkzeug.wrappers import Response

    out = {"exc": "", "status": [], "headers": [], "body": [], "allbytes": True, "cb": [], "ic": -1, "raw": False}
    inp = dict(inp)
    base = tuple(inp.get("base") or STD_BASE)
    env = environ_for(inp["method"], base)
    counts = [0] * inp["ncb"]
    probe = lambda: -1  # noqa: E731
    try:
        body, probe = build_body(inp, env)
        st = inp["st"]
        status = st["code"] if st["kind"] == "int" else HTTPStatus(st["code"]) if st["kind"] == "enum" else txt(st["text"])
        resp = Response(body, status=status, direct_passthrough=inp["pt"])
        if inp["ac"]:
            resp.autocorrect_location_header = True
        h = resp.headers
        for c in inp.get("history", []):           # recorded mutator history (code -> spec driver)
            h, _ = hdr_step(h, c)
        for e in inp.get("ex", []):
            h.add(txt(e["n"]), txt(e["v"]))
        if inp["cl"]["has"]:
            h["Content-Length"] = txt(inp["cl"]["val"])
        if inp["loc"]["has"]:
            if inp.get("locvia") == "attr":
                resp.location = txt(inp["loc"]["val"])
            else:
                h["Location"] = txt(inp["loc"]["val"])
        for k in range(inp["ncb"]):
            def cb(k=k):
                counts[k] += 1
            resp.call_on_close(cb)
        if inp["pre"] == "get_data":
            resp.get_data()
        elif inp["pre"] == "make_sequence":
            resp.make_sequence()
        elif inp["pre"] == "calc_len":
            resp.calculate_content_length()
        inp["hdrs"] = plain(hlist(resp.headers))
        app_iter, status_line, headers = resp.get_wsgi_response(env)
        out["raw"] = app_iter is resp.response
        out["status"] = cps(status_line)
        out["headers"] = hlist(headers)
        it = iter(app_iter)
        chunks = []
        n = 0
        while n < inp["plan"]:
            try:
                chunks.append(next(it))
            except StopIteration:
                break
            n += 1
        if hasattr(app_iter, "close"):
            app_iter.close()
        out["allbytes"] = all(type(c) is bytes for c in chunks)
        out["body"] = list(b"".join(c if isinstance(c, (bytes, bytearray)) else str(c).encode("utf-8", "replace") for c in chunks))
    except Exception as e:  # recorded, judged by TLC
        out["exc"] = type(e).__name__
    out["cb"] = list(counts)
    try:
        out["ic"] = probe()
    except Exception:
        out["ic"] = -2
    inp.setdefault("hdrs", [])
    inp.setdefault("mhdrs", inp["hdrs"])
    inp.setdefault("envstd", base == STD_BASE)
    for k in ("history", "base", "locvia", "stage"):
        inp.pop(k, None)
    if "pre" in inp and inp["pre"] == "calc_len":
        inp["pre"] = "get_data"       # same documented effect: implicit sequence conversion
    return {"op": "fin", "inp": inp, "out": out}


# ---------------------------------------------------------------------------- generators (seeded)
NAMES = ["X", "x", "Y", "X-Y"]
CLEAN = ["a", "b c", "", "é", "v=1; w", "€\U0001f600", "a\tb", "a\x0bb\x0c", "a\x85b c", "a\\\"b", "0"]
DIRTY = ["a\nb", "\r", "a\r\nX: y", "\n", "é\r", "x" * 30 + "\n"]


LITERALS = [b"a\r\nb", ("a\r\nX: y",), ["a", "\n"], 3.5, 7, -1, None, True, b"", ("x", 1), {"a": "\r"}]


def rand_value(rng, p_dirty=0.3):
    return rng.choice(DIRTY) if rng.random() < p_dirty else rng.choice(CLEAN)


def rand_kind(rng):
    return "str" if rng.random() < 0.4 else rng.choice(VALUE_KINDS[1:])


def rand_call(rng, nlen):
    kind = rand_kind(rng)
    c = _rand_call(rng, nlen, kind)
    c["kind"] = kind
    return c


def _rand_call(rng, nlen, kind):
    m = rng.choice(["add", "add_kw", "set", "set_kw", "setitem", "setdefault", "setlist", "setlistdefault",
                    "setitem_int", "setitem_slice", "extend", "update", "update", "extend", "remove", "clear"])
    n = cps(rng.choice(NAMES))

    def one():
        if kind == "literal":    # list / tuple / None literals only where a single value is expected (mappings flatten them)
            single = m in ("add", "set", "setitem", "setdefault", "setitem_int", "setlist", "setlistdefault")
            return str(rng.choice(LITERALS if single else [x for x in LITERALS if type(x) in (bytes, float, int, bool)]))
        if kind == "int" and rng.random() < 0.7:
            return str(rng.choice([0, 7, -3, 12345678901234567890]))
        return rand_value(rng)

    def vals(k):
        return [cps(one()) for _ in range(k)]

    def pairs(k, distinct=False, lists=False):
        names = rng.sample(NAMES, min(k, len(NAMES))) if distinct else [rng.choice(NAMES) for _ in range(k)]
        return [{"n": cps(nm), "vs": vals(rng.randint(0, 3) if lists else 1)} for nm in names]

    if m in ("add", "set", "setitem", "setdefault"):
        return mkcall(m, n=n, vs=vals(1))
    if m in ("add_kw", "set_kw"):
        return mkcall(m, n=n, vs=[cps(rng.choice(["attachment", "a", "é"]))], kn=cps(rng.choice(["filename", "p", "x_y"])),
                      kv=cps(one()))
    if m in ("setlist", "setlistdefault"):
        return mkcall(m, n=n, vs=vals(rng.randint(0, 3)))
    if m == "setitem_int":
        if nlen == 0:
            return mkcall("add", n=n, vs=vals(1))
        return mkcall(m, n=n, vs=vals(1), i=rng.randrange(nlen))
    if m == "setitem_slice":
        i = rng.randint(0, nlen)
        return mkcall(m, i=i, j=rng.randint(i, nlen), ps=pairs(rng.randint(0, 3)))
    if m in ("extend", "update"):
        form = rng.choice(["pairs", "dict", "dictlist"] + (["kwargs"] if m == "update" else []))
        if form == "pairs":
            return mkcall(m, ps=pairs(rng.randint(0, 3)), form=form)
        if form == "kwargs":
            names = rng.sample(["X", "x", "Y"], rng.randint(0, 3))
            return mkcall(m, ps=[{"n": cps(nm), "vs": vals(rng.randint(0, 3))} for nm in names], form=form)
        return mkcall(m, ps=pairs(rng.randint(0, 3), distinct=True, lists=(form == "dictlist")), form=form)
    if m == "remove":
        return mkcall(m, n=n)
    return mkcall("clear")


def rand_history_lines(rng, steps):
    """a mutator history on one live object (Headers or Response().headers): one line per step"""
    from werkzeug.datastructures import Headers
    from werkzeug.wrappers import Response

    target = rng.choice(["Headers", "Response.headers"])
    h = Headers() if target == "Headers" else Response("x").headers
    lines = []
    for _ in range(steps):
        c = rand_call(rng, len(h))
        h, line = hdr_step(h, c, target)
        lines.append(line)
    return lines


HOSTS = ["localhost", "example.com", "ex\xe4mple.com", "☃.net", "m\xfcnchen.de:8080", "h"]
PCHARS = ["a", "b", "/", "é", "€", "\U0001f600", " ", "%20", "%zz", "%", "+", "&", "=", ";", "~", "'", '"', "<", ">",
          "\\", "^", "`", "{", "|", "}", "\x01", "\x7f", "\x85", "\xa0", " ", "@", ":", ".", "..", "İ"]
# (no TAB / CR / LF here: urlsplit removes them, which can turn "/<TAB>/x" into a network-path reference
# with an invalid host; a TAB inside a segment is covered by the fixed sample "/a\tb")


def rand_location(rng):
    def part(k):
        return "".join(rng.choice(PCHARS) for _ in range(rng.randint(0, k)))
    kind = rng.choice(["abs", "abs", "path", "rel", "netpath", "query", "frag", "simple"])
    tail = ("?" + part(5) if rng.random() < 0.4 else "") + ("#" + part(4) if rng.random() < 0.3 else "")
    if kind == "abs":
        auth = (rng.choice(["u", "ué"]) + (":p\xe9" if rng.random() < 0.5 else "") + "@") if rng.random() < 0.15 else ""
        return rng.choice(["http", "https", "HTTP", "ftp"]) + "://" + auth + rng.choice(HOSTS) + ("/" + part(6) if rng.random() < 0.8 else "") + tail
    if kind == "path":
        return "/" + part(8).lstrip("/") + tail       # not a network-path reference (the authority must be a valid host)
    if kind == "rel":
        return rng.choice(["a", "é", "r", "../", "./"]) + part(6).replace(":", "") + tail
    if kind == "netpath":
        return "//" + rng.choice(HOSTS) + "/" + part(4) + tail
    if kind == "query":
        return "?" + part(6)
    if kind == "frag":
        return "#" + part(6)
    return rng.choice(["/p", "/é?q=€", "r/x#é", "http://h.x/é", "", "mailto:é@x", " /x ", "/a\tb"])


def rand_text(rng, k):
    pool = ["a", "é", "€", "\U0001f600", "\x00", "\n", "\xff", "퟿", "", "\U0010ffff", "z"]
    return "".join(rng.choice(pool) if rng.random() < 0.8 else chr(rng.choice([rng.randrange(0, 0xD800), rng.randrange(0xE000, 0x110000)]))
                   for _ in range(rng.randint(0, k)))


def rand_fin_input(rng):
    shape = rng.choice(["str", "bytes", "list", "tuple", "gen", "iter", "file", "list", "gen", "iter"])
    pt = shape == "file" or (shape in ("gen", "iter") and rng.random() < 0.3)

    def item(force_bytes=False):
        if force_bytes or rng.random() < 0.4:
            return {"k": "b", "v": [rng.randrange(256) for _ in range(rng.randint(0, 5))]}
        return {"k": "s", "v": cps(rand_text(rng, 5))}
    if shape == "str":
        items = [{"k": "s", "v": cps(rand_text(rng, 8))}]
    elif shape in ("bytes", "file"):
        items = [item(True)]
    else:
        items = [item(pt) for _ in range(rng.randint(0, 5))]
    code = rng.choice([100, 101, 102, 103, 199, 200, 201, 204, 205, 206, 226, 301, 302, 303, 304, 307, 400, 404, 418, 451, 500, 503, 599,
                       rng.randrange(100, 600)])
    from http import HTTPStatus
    kinds = ["int", "str"]
    try:
        HTTPStatus(code)
        kinds.append("enum")
    except ValueError:
        pass
    kind = rng.choice(kinds)
    reason = rng.choice(["OK", "No Content", "x", "Not Modified", "weird  reason 1", "I'm a teapot"])
    st = {"kind": kind, "code": 0 if kind == "str" else code, "text": cps(f"{code} {reason}") if kind == "str" else []}
    has_loc = rng.random() < 0.6
    nchunks = len(items)
    inp = {
        "shape": shape, "items": items, "pt": pt, "st": st, "method": rng.choice(["GET", "HEAD", "POST"]),
        "cl": {"has": rng.random() < 0.25, "val": cps(str(rng.choice([0, 1, 7, 12345678901])))},
        "loc": {"has": has_loc, "val": cps(rand_location(rng)) if has_loc else []},
        "locvia": rng.choice(["item", "attr"]),
        "ac": rng.random() < 0.5,
        "pre": "none" if pt else rng.choice(["none", "none", "get_data", "make_sequence", "calc_len"]),
        "ncb": rng.randint(0, 3),
        "plan": rng.choice([99, 99, 0, 1, rng.randint(0, nchunks + 1)]),
        "ex": [],
        "history": [],
    }
    if rng.random() < 0.3:
        inp["base"] = [rng.choice(["/d/f", "/", "/é/x"]), rng.choice(["http://localhost/", "https://ex\xe4mple.com/app/", "http://h:8080/"])]
    return inp


def with_history(rng, inp, steps):
    """random mutator history applied to resp.headers before finalisation; the calls only use
    the names X / x / Y / X-Y (they may still overwrite or drop the default headers by index / clear)"""
    n = 2  # Content-Type (+ Content-Length): an estimate for index arguments (IndexError is harmless)
    hist = []
    for _ in range(steps):
        hist.append(rand_call(rng, n))
    inp["history"] = hist
    return inp


# ---------------------------------------------------------------------------- body-shape histories (growth)
class TrackIter:
    """closable iterator that records the operation during which it was first advanced"""

    def __init__(self, items, tracker):
        self._it = iter(items)
        self._tracker = tracker
        self.owner = ""
        self.advanced = False
        self.closed = 0

    def __iter__(self):
        return self

    def __next__(self):
        if not self.advanced:
            self.advanced = True
            self.owner = self._tracker["op"]
        return next(self._it)

    def close(self):
        self.closed += 1


SHAPE_INITS = {
    "str": {"kind": "str", "items": [{"k": "s", "v": [233]}], "pt": False},
    "list": {"kind": "list", "items": [{"k": "s", "v": [233]}, {"k": "s", "v": []}], "pt": False},
    "tuple": {"kind": "tuple", "items": [{"k": "b", "v": [195]}], "pt": False},
    "iter": {"kind": "iter", "items": [{"k": "s", "v": [233]}, {"k": "b", "v": [195]}], "pt": False},
    "iter_pt": {"kind": "iter", "items": [{"k": "b", "v": [195]}, {"k": "b", "v": [195]}], "pt": True},
}
O0 = {"o": "", "k": "", "v": {"k": "b", "v": []}, "items": [], "b": False}


def mkop(o, **kw):
    op = dict(O0)
    op["o"] = o
    op.update(kw)
    return op


def _shape_op(resp, op, iters, tracker):
    o = op["o"]
    if o == "set_data":
        resp.set_data(_item(op["v"]))
    elif o == "data_set":
        resp.data = _item(op["v"])
    elif o == "get_data":
        resp.get_data(as_text=op["b"])
    elif o == "data_get":
        resp.data
    elif o == "assign":
        items = [_item(it) for it in op["items"]]
        if op["k"] == "iter":
            ti = TrackIter(items, tracker)
            iters.append(ti)
            resp.response = ti
        else:
            resp.response = list(items) if op["k"] == "list" else tuple(items)
    elif o == "make_sequence":
        resp.make_sequence()
    elif o == "freeze":
        resp.freeze()
    elif o == "iter_consume":
        list(resp.iter_encoded())
    elif o == "set_isc":
        resp.implicit_sequence_conversion = op["b"]
    elif o == "set_pt":
        resp.direct_passthrough = op["b"]
    elif o == "calc_len":
        resp.calculate_content_length()
    elif o == "stream_write":
        resp.stream.write(_item(op["v"]))
    elif o == "stream_writelines":
        resp.stream.writelines([_item(it) for it in op["items"]])
    elif o == "stream_tell":
        resp.stream.tell()
    else:
        raise ValueError(o)


def shape_case(case):
    """case = {init: {kind, items, pt}, ops: [op], method, code, ncb}: build the Response, perform the
    history (exceptions recorded per step), finalise, iterate fully, close.  Returns the recorded line."""
    from werkzeug.wrappers import Response

    init = case["init"]
    tracker = {"op": "ctor"}
    iters = []
    counts = [0] * case["ncb"]
    out = {"exc": "", "status": [], "headers": [], "body": [], "allbytes": True, "cb": [], "ic": -1, "raw": False}
    hist = []
    wrapped = None
    try:
        items = [_item(it) for it in init["items"]]
        if init["kind"] in ("str", "bytes"):
            body = items[0]
        elif init["kind"] == "list":
            body = list(items)
        elif init["kind"] == "tuple":
            body = tuple(items)
        else:
            body = TrackIter(items, tracker)
            iters.append(body)
        resp = Response(body, status=case["code"], direct_passthrough=init["pt"])
        for k in range(case["ncb"]):
            def cb(k=k):
                counts[k] += 1
            resp.call_on_close(cb)
        for op in case["ops"]:
            tracker["op"] = op["o"]
            rec = dict(op)
            rec["exc"] = ""
            try:
                _shape_op(resp, op, iters, tracker)
            except Exception as e:  # recorded; compared with the model as drift only
                rec["exc"] = type(e).__name__
            hist.append(rec)
        tracker["op"] = "finalize"
        wrapped = resp.response
        env = environ_for(case["method"])
        app_iter, status_line, headers = resp.get_wsgi_response(env)
        out["raw"] = app_iter is resp.response
        out["status"] = cps(status_line)
        out["headers"] = hlist(headers)
        chunks = list(app_iter)
        if hasattr(app_iter, "close"):
            app_iter.close()
        out["allbytes"] = all(type(c) is bytes for c in chunks)
        out["body"] = list(b"".join(c if isinstance(c, (bytes, bytearray)) else str(c).encode("utf-8", "replace") for c in chunks))
    except Exception as e:  # recorded, judged by TLC
        out["exc"] = type(e).__name__
    out["cb"] = list(counts)
    its = [{"live": True, "owner": ti.owner, "wrapped": ti is wrapped, "closes": ti.closed} for ti in iters[:2]]
    while len(its) < 2:
        its.append({"live": False, "owner": "", "wrapped": False, "closes": 0})
    return {"op": "shape", "init": init, "hist": hist, "method": case["method"], "code": case["code"], "ncb": case["ncb"],
            "out": out, "its": its}


def rand_shape_case(rng):
    def item(bytes_only=False):
        if bytes_only or rng.random() < 0.5:
            return {"k": "b", "v": [rng.randrange(256) for _ in range(rng.randint(0, 4))]}
        return {"k": "s", "v": cps(rand_text(rng, 4))}
    kind = rng.choice(["str", "bytes", "list", "tuple", "iter", "iter"])
    pt = kind == "iter" and rng.random() < 0.3
    if kind == "str":
        items = [{"k": "s", "v": cps(rand_text(rng, 6))}]
    elif kind == "bytes":
        items = [item(True)]
    else:
        items = [item(pt) for _ in range(rng.randint(0, 4))]
    ops, niter = [], 1 if kind == "iter" else 0
    for _ in range(rng.randint(1, 6)):
        o = rng.choice(["set_data", "data_set", "get_data", "data_get", "assign", "assign", "make_sequence", "freeze", "iter_consume",
                        "set_isc", "set_pt", "calc_len", "stream_write", "stream_writelines", "stream_tell"])
        if o in ("set_data", "data_set", "stream_write"):
            ops.append(mkop(o, v=item()))
        elif o in ("get_data", "set_isc", "set_pt"):
            ops.append(mkop(o, b=rng.random() < 0.5))
        elif o == "assign":
            k = rng.choice(["list", "tuple", "iter"])
            if k == "iter":
                if niter >= 2:
                    k = "list"
                else:
                    niter += 1
            ops.append(mkop(o, k=k, items=[item() for _ in range(rng.randint(0, 3))]))
        elif o == "stream_writelines":
            ops.append(mkop(o, items=[item(), item()]))
        else:
            ops.append(mkop(o))
    return {"init": {"kind": kind, "items": items, "pt": pt}, "ops": ops, "method": rng.choice(["GET", "HEAD", "POST"]),
            "code": rng.choice([200, 200, 201, 204, 304, 404, 100]), "ncb": rng.randint(0, 2)}


def shape_paths(transitions):
    """exported LTS (pre, op, post, depth, init) -> for every transition the shortest operation path from an
    initial state to `pre` (states are identified by their JSON text), as replayable cases"""
    import json as _json

    def key(st):
        return _json.dumps(st, sort_keys=True)
    path = {}
    for tr in transitions:
        if tr["depth"] == 0:
            path.setdefault(key(tr["pre"]), (tr["init"], []))
    changed = True
    while changed:
        changed = False
        for tr in transitions:
            kp, kq = key(tr["pre"]), key(tr["post"])
            if kp in path and (kq not in path or len(path[kq][1]) > len(path[kp][1]) + 1) and path[kp][0] == tr["init"]:
                path[kq] = (path[kp][0], path[kp][1] + [tr["op"]])
                changed = True
    cases = []
    for tr in transitions:
        kp = key(tr["pre"])
        if kp in path and path[kp][0] == tr["init"]:
            cases.append({"init": SHAPE_INITS[tr["init"]], "ops": path[kp][1] + [tr["op"]], "model_exc": tr["exc"]})
    return cases


# ---------------------------------------------------------------------------- exceptions as responses (growth)
def exception_classes():
    import werkzeug.exceptions as X
    from werkzeug.routing import RequestRedirect

    out = []
    for name in sorted(dir(X)):
        obj = getattr(X, name)
        if isinstance(obj, type) and issubclass(obj, X.HTTPException) and obj is not X.HTTPException and not name.startswith("_"):
            if obj.code is not None:
                out.append(name)
    return out + ["RequestRedirect"]


TEXTS = ["", "plain", "é€\U0001f600", "a\r\nX-Injected: 1", "line\nbreak", "<b>&\"'", "\r", "tab\tx"]
METHODS = [["GET", "POST"], ["GET\r\nX: y"], [], ["PÖST"], ["A", "B\n"]]
URLS = ["http://localhost/x", "/é?q=€", "http://ex\xe4mple.com/p a", "/a\r\nX: y", "/plain"]


def build_exception(spec):
    """spec = {cls, desc: {has, val}, arg: {...}} -> (exception object, header-bound argument texts)"""
    import datetime as dt

    import werkzeug.exceptions as X
    from werkzeug.datastructures import WWWAuthenticate
    from werkzeug.routing import RequestRedirect

    name = spec["cls"]
    desc = txt(spec["desc"]["val"]) if spec["desc"]["has"] else None
    a = spec["arg"]
    hb = []
    if name == "RequestRedirect":
        url = txt(a["url"])
        return RequestRedirect(url), [cps(url)]
    cls = getattr(X, name)
    if name == "MethodNotAllowed":
        ms = [txt(m) for m in a["methods"]]
        return cls(valid_methods=ms if a["has"] else None, description=desc), [cps(m) for m in ms] if a["has"] else []
    if name == "RequestedRangeNotSatisfiable":
        units = txt(a["units"])
        return cls(length=a["length"] if a["has"] else None, units=units, description=desc), [cps(units)] if a["has"] else []
    if name == "Unauthorized":
        if not a["has"]:
            return cls(description=desc), []
        vals = [WWWAuthenticate(txt(w["scheme"]), {"realm": txt(w["realm"])}) for w in a["auth"]]
        hb = [w["scheme"] for w in a["auth"]] + [w["realm"] for w in a["auth"]]
        return cls(description=desc, www_authenticate=vals if len(vals) != 1 or a["aslist"] else vals[0]), hb
    if name in ("TooManyRequests", "ServiceUnavailable"):
        ra = None
        if a["kind"] == "int":
            ra = a["n"]
        elif a["kind"] == "datetime":
            ra = dt.datetime(2026, 1, 2, 3, 4, 5, tzinfo=dt.timezone.utc) + dt.timedelta(seconds=a["n"])
        return cls(description=desc, retry_after=ra), []
    if name == "BadRequestKeyError":
        return cls(txt(a["key"])), []
    return cls(description=desc), []


def exc_case(spec):
    """render one HTTPException for GET and for spec['method'] through get_response / __call__"""
    def render(method):
        out = {"exc": "", "status": [], "headers": [], "body": [], "allbytes": True, "cb": [], "ic": -1, "raw": False}
        code = 0
        hb = []
        try:
            exc, hb = build_exception(spec)
            code = exc.code or 0
            env = environ_for(method)
            if spec["via"] == "call":
                got = {}

                def start_response(status, headers, exc_info=None):
                    got["status"], got["headers"] = status, headers
                app_iter = exc(env, start_response)
                status_line, headers = got["status"], got["headers"]
            else:
                app_iter, status_line, headers = exc.get_response(env).get_wsgi_response(env)
            out["status"] = cps(status_line)
            out["headers"] = hlist(headers)
            chunks = list(app_iter)
            if hasattr(app_iter, "close"):
                app_iter.close()
            out["allbytes"] = all(type(c) is bytes for c in chunks)
            out["body"] = list(b"".join(c if isinstance(c, (bytes, bytearray)) else str(c).encode("utf-8", "replace") for c in chunks))
        except Exception as e:  # recorded, judged by TLC
            out["exc"] = type(e).__name__
        return out, code, hb
    twin, _, _ = render("GET")
    out, code, hb = render(spec["method"])
    return {"op": "exc", "cls": spec["cls"], "via": spec["via"], "method": spec["method"], "code": code, "hb": hb,
            "twin": len(twin["body"]), "out": out}


def exception_specs(rng, per_class):
    specs = []
    for name in exception_classes():
        for n in range(per_class):
            d = rng.choice(TEXTS)
            spec = {"cls": name, "desc": {"has": n % 3 != 0, "val": cps(d)}, "arg": {"has": False},
                    "via": rng.choice(["get_response", "call"]), "method": rng.choice(["GET", "HEAD", "POST"])}
            if name == "RequestRedirect":
                spec["arg"] = {"has": True, "url": cps(rng.choice(URLS))}
            elif name == "MethodNotAllowed":
                spec["arg"] = {"has": n % 4 != 0, "methods": [cps(m) for m in rng.choice(METHODS)]}
            elif name == "RequestedRangeNotSatisfiable":
                spec["arg"] = {"has": n % 4 != 0, "length": rng.choice([0, 1, 12345678901]), "units": cps(rng.choice(["bytes", "b\r\nX: y", "é"]))}
            elif name == "Unauthorized":
                spec["arg"] = {"has": n % 4 != 0, "aslist": rng.random() < 0.5,
                               "auth": [{"scheme": cps(rng.choice(["basic", "digest", "bearer"])), "realm": cps(rng.choice(TEXTS))}
                                        for _ in range(rng.randint(1, 2))]}
            elif name in ("TooManyRequests", "ServiceUnavailable"):
                spec["arg"] = {"has": True, "kind": rng.choice(["none", "int", "datetime"]), "n": rng.choice([0, 1, 120, 86400 * 400])}
            elif name == "BadRequestKeyError":
                spec["arg"] = {"has": True, "key": cps(rng.choice(TEXTS))}
            specs.append(spec)
    return specs


# ---------------------------------------------------------------------------- header value kinds through the Response API
API_POINTS = ["headers_item", "headers_add", "headers_setdefault", "ctor_list", "ctor_dict", "ctor_dictlist", "ctor_headers",
              "location", "content_location", "content_type", "mimetype", "content_encoding", "content_md5", "content_language",
              "allow", "vary", "set_etag", "set_cookie_value", "set_cookie_key", "set_cookie_path", "set_cookie_domain",
              "set_cookie_samesite", "delete_cookie_path", "redirect", "ctor_mimetype", "ctor_content_type", "www_authenticate_realm"]
API_TEXTS = ["a", "a\r\nX-Injected: 1", "\n", "x\ry", "/p\r\n", "é\n", "text/plain", "7", "b'a\\r\\nb'", "('a\\r\\nX: y',)"]


def api_case(spec):
    """spec = {api, text, kind}: hand one value of the given kind to an entry point of Response that stores a header
    value, then record the header list the server would get (get_wsgi_response), else the stored list."""
    from werkzeug.datastructures import Headers, WWWAuthenticate
    from werkzeug.utils import redirect
    from werkzeug.wrappers import Response

    api, kind = spec["api"], spec["kind"]
    v = val(txt(spec["text"]), kind)
    resp = None
    exc = ""
    try:
        if api == "ctor_list":
            resp = Response("x", headers=[("X", v)])
        elif api == "ctor_dict":
            resp = Response("x", headers={"X": v})
        elif api == "ctor_dictlist":
            resp = Response("x", headers={"X": [v, "b"]})
        elif api == "ctor_headers":
            resp = Response("x", headers=Headers([("X", v)]))
        elif api == "ctor_mimetype":
            resp = Response("x", mimetype=v)
        elif api == "ctor_content_type":
            resp = Response("x", content_type=v)
        elif api == "redirect":
            resp = redirect(v)
        else:
            resp = Response("x")
            if api == "headers_item":
                resp.headers["X"] = v
            elif api == "headers_add":
                resp.headers.add("X", v)
            elif api == "headers_setdefault":
                resp.headers.setdefault("X", v)
            elif api in ("location", "content_location", "content_type", "mimetype", "content_encoding", "content_md5",
                         "content_language", "allow", "vary"):
                setattr(resp, api, v)
            elif api == "set_etag":
                resp.set_etag(v)
            elif api == "set_cookie_value":
                resp.set_cookie("k", v)
            elif api == "set_cookie_key":
                resp.set_cookie(v, "v")
            elif api == "set_cookie_path":
                resp.set_cookie("k", "v", path=v)
            elif api == "set_cookie_domain":
                resp.set_cookie("k", "v", domain=v)
            elif api == "set_cookie_samesite":
                resp.set_cookie("k", "v", samesite=v)
            elif api == "delete_cookie_path":
                resp.delete_cookie("k", path=v)
            elif api == "www_authenticate_realm":
                resp.www_authenticate = WWWAuthenticate("basic", {"realm": v})
            else:
                raise ValueError(api)
    except Exception as e:  # recorded; nothing may have been stored
        exc = type(e).__name__
    post = []
    if resp is not None:
        try:
            post = hlist(resp.get_wsgi_response(environ_for("GET"))[2])
        except Exception:
            post = hlist(resp.headers)
    c = mkcall("api", n=cps(api), vs=[spec["text"]])
    c["kind"] = kind
    return {"op": "hdrx", "target": "Response." + api, "pre": [], "c": c, "exc": exc, "post": post}


def api_specs(rng, per_point):
    specs = []
    for api in API_POINTS:
        for kind in VALUE_KINDS:
            for t in rng.sample(API_TEXTS, min(per_point, len(API_TEXTS))):
                specs.append({"api": api, "text": cps(t), "kind": kind})
    return specs


# ---------------------------------------------------------------------------- one response object, several sends
class ReIterable:
    """a body that can be iterated again and again and counts its close() calls"""

    def __init__(self, items):
        self._items = items
        self.closed = 0

    def __iter__(self):
        return iter(self._items)

    def close(self):
        self.closed += 1


class ReusableFile(io.BytesIO):
    """file object whose close() only counts (a really closed file cannot be sent again)"""
    closes = 0

    def close(self):
        self.closes += 1


def reuse_case(case):
    """case = {shape: str|list|reiter|iter|gen|file, pt, ncb, items, events: [{ev: send, via, method} | {ev: with} |
    {ev: status, code} | {ev: make_sequence}]}.  One Response object; after every event the callback counts and the
    body's own close count are recorded; every send is iterated fully and closed like a WSGI server does."""
    from werkzeug.wrappers import Response
    from werkzeug.wsgi import wrap_file

    counts = [0] * case["ncb"]
    items = [_item(it) for it in case["items"]]
    shape = case["shape"]
    probe = lambda: 0  # noqa: E731
    closable = True
    if shape == "str":
        body, closable = items[0], False
    elif shape == "list":
        body, closable = list(items), False
    elif shape == "reiter":
        body = ReIterable(items)
        probe = lambda: body.closed  # noqa: E731
    elif shape == "iter":
        body = ClosableIter(items)
        probe = lambda: body.closed  # noqa: E731
    elif shape == "gen":
        def g():
            yield from items
        body, closable = g(), False
    else:
        f = ReusableFile(items[0])
        body = wrap_file(environ_for("GET"), f)
        probe = lambda: f.closes  # noqa: E731
    resp = Response(body, direct_passthrough=case["pt"])
    for k in range(case["ncb"]):
        def cb(k=k):
            counts[k] += 1
        resp.call_on_close(cb)
    code = 200
    events = []
    for ev in case["events"]:
        rec = {"ev": ev["ev"], "via": ev.get("via", ""), "method": ev.get("method", ""), "code": code,
               "out": {"exc": "", "headers": [], "body": [], "allbytes": True}}
        try:
            if ev["ev"] == "send":
                env = environ_for(ev["method"])
                if ev["via"] == "call":
                    got = {}

                    def start_response(status, headers, exc_info=None):
                        got["headers"] = headers
                    app_iter = resp(env, start_response)
                    headers = got["headers"]
                elif ev["via"] == "app_iter":
                    headers = resp.get_wsgi_headers(env).to_wsgi_list()
                    app_iter = resp.get_app_iter(env)
                else:
                    app_iter, _, headers = resp.get_wsgi_response(env)
                rec["out"]["headers"] = hlist(headers)
                chunks = list(app_iter)
                if hasattr(app_iter, "close"):
                    app_iter.close()
                rec["out"]["allbytes"] = all(type(c) is bytes for c in chunks)
                rec["out"]["body"] = list(b"".join(c if isinstance(c, (bytes, bytearray)) else str(c).encode("utf-8", "replace") for c in chunks))
            elif ev["ev"] == "with":
                with resp:
                    pass
            elif ev["ev"] == "status":
                resp.status_code = code = ev["code"]
                rec["code"] = code
            elif ev["ev"] == "make_sequence":
                resp.make_sequence()
            else:
                raise ValueError(ev["ev"])
        except Exception as e:  # recorded, judged by TLC
            rec["out"]["exc"] = type(e).__name__
        rec["cb"] = list(counts)
        rec["ic"] = probe()
        events.append(rec)
    return {"op": "reuse", "shape": shape, "pt": case["pt"], "ncb": case["ncb"], "closable": closable, "events": events}


REUSE_SEQS = [["GET", "GET"], ["GET", "HEAD"], ["HEAD", "GET", "POST"], ["GET", "GET", "GET"], ["GET", 204, "GET"],
              ["GET", 304, "HEAD", 200, "GET"], ["POST", 204, "HEAD", "GET"]]
REUSE_BODIES = [("str", False), ("list", False), ("reiter", False), ("reiter", True), ("iter", False), ("iter", True),
                ("gen", False), ("gen", True), ("file", True)]


def reuse_cases(rng, extra_random=0):
    cases = []
    vias = [["wsgi"], ["call"], ["app_iter"], ["wsgi", "call", "app_iter"], ["app_iter", "wsgi"]]
    bx, se = {"k": "b", "v": [195, 120]}, {"k": "s", "v": [233]}

    def build(seq, shape, pt, ncb, withs, via, mkseq):
        evs, n = [], 0
        if mkseq:
            evs.append({"ev": "make_sequence"})
        for x in seq:
            if isinstance(x, int):
                evs.append({"ev": "status", "code": x})
                continue
            if n and withs:
                evs.append({"ev": "with"})
            evs.append({"ev": "send", "via": via[n % len(via)], "method": x})
            n += 1
        items = [bx] if shape in ("file",) else [se] if shape == "str" else [bx, bx] if pt else [se, bx]
        return {"shape": shape, "pt": pt, "ncb": ncb, "items": items, "events": evs}
    n = 0
    for seq in REUSE_SEQS:
        for shape, pt in REUSE_BODIES:
            for ncb in (0, 1, 2):
                for withs in (False, True):
                    n += 1
                    cases.append(build(seq, shape, pt, ncb, withs, vias[n % len(vias)], False))
                    if shape in ("reiter", "iter", "gen") and not pt and withs:
                        cases.append(build(seq, shape, pt, ncb, False, vias[(n + 1) % len(vias)], True))
    for _ in range(extra_random):
        shape, pt = rng.choice(REUSE_BODIES)
        seq = [rng.choice(["GET", "HEAD", "POST", "GET", 200, 204, 304, 404]) for _ in range(rng.randint(2, 7))]
        if not any(isinstance(x, str) for x in seq):
            seq.append("GET")
        cases.append(build(seq, shape, pt, rng.randint(0, 3), rng.random() < 0.5, rng.choice(vias),
                           shape in ("reiter", "iter", "gen") and not pt and rng.random() < 0.3))
    return cases
